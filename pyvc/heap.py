"""Allocation, frames, deepcopy (DESIGN.md 2.4)."""
import ast
import z3

from . import prelude as P
from . import ty as T
from .ty import INT, BOOL, NONE, ANY
from .symexec import SV, box, unbox, coerce, zsort, EngineError, Unsupported, State

ALLOC0 = z3.Const('alloc!0', z3.ArraySort(P.V, z3.BoolSort()))


def alloc_of(st):
    return st.env['__alloc'].term if '__alloc' in st.env else ALLOC0


def is_fresh(fv, st, v):
    """not allocated in the pre-state of the contract"""
    return z3.Not(z3.Select(pre_alloc(fv), box(v)))


def pre_alloc(fv):
    """allocation set in the pre-state of the contract being evaluated"""
    if fv.old_state is not None and '__alloc' in fv.old_state.env:
        return fv.old_state.env['__alloc'].term
    return ALLOC0


def is_allocated_old(fv, st, v):
    return z3.Select(pre_alloc(fv), box(v))


def frame_check(fv, st, base, attr, node):
    mode = fv.c.opts.get('frame') if fv.c else None
    if mode is None:
        return
    if mode == 'fresh':
        fv.oblige(st, 'frame[%s]' % attr, z3.Not(z3.Select(ALLOC0, base.term)), node)
        return
    if mode == 'self':
        ok = [z3.Not(z3.Select(ALLOC0, base.term))]
        if 'self' in fv.old_state.env:
            ok.append(base.term == fv.old_state.env['self'].term)
        fv.oblige(st, 'frame[%s]' % attr, z3.Or(*ok), node)
        return
    if mode.startswith('fields:'):
        allowed = mode[len('fields:'):].split(',')
        fv.oblige(st, 'frame[%s]' % attr,
                  z3.Or(z3.Not(z3.Select(ALLOC0, base.term)), z3.BoolVal(attr in allowed)), node)
        return
    raise EngineError('unknown frame mode ' + mode)


def new_object(fv, st, cname, base='obj'):
    o = fv.E.fresh(base + '_' + cname, T.Obj(cname))
    a = alloc_of(st)
    fv.add_fact(st, z3.And(P.tag(o.term) == P.TAG_OBJ, P.cls(o.term) == fv.E.class_id(cname),
                           z3.Not(z3.Select(a, o.term))))
    st.env['__alloc'] = SV(z3.Store(a, o.term, z3.BoolVal(True)), ANY)
    return o


def allocate(fv, q, cname, node, st, spec):
    from .calls import apply_contract, find_method_contract
    if spec or fv.binders:
        fv.err(node, 'constructor call in spec/quantified context')
    c = fv.E.find_contract(q + '.__init__')
    if c is None:
        ci = fv.E.fe.classes.get(cname)
        c = find_method_contract(fv, cname, '__init__') if ci else None
    if c is None:
        if fv.in_slice() and any(scls == cname.split('.')[-1] for scls, _, _ in fv.c.sites):
            fv.err(node, 'no contract for constructor %s of a site class' % q)
        fv.err(node, 'no contract for constructor %s' % q)
    o = new_object(fv, st, cname)
    apply_contract(fv, c, node, st, spec, o)
    site_obligations(fv, st, cname, o, node)
    return o


def site_obligations(fv, st, cname, o, node):
    if fv.c is None or not fv.c.sites:
        return
    simple = cname.split('.')[-1]
    for scls, sname, sexpr in fv.c.sites:
        if scls == simple or scls == cname:
            fv.bound_env.append({'new': o})
            try:
                g = fv.truthy(fv.ev(sexpr, st, True))
            finally:
                fv.bound_env.pop()
            fv.oblige(st, 'site[new %s@%s]/inv[%s]' % (simple, site_ordinal(fv, node, 'new ' + simple), sname), g, node)


def deepcopy_obj(fv, v, node, st, shallow):
    c = fv.E.find_contract('copy.copy' if shallow else 'copy.deepcopy')
    if c is None:
        fv.err(node, 'no @external contract for copy/deepcopy')
    from .calls import apply_contract
    r = apply_contract(fv, c, node, st, False, None)
    # the copy has the static type of the original
    return SV(r.term, v.ty.strip_opt() if v.ty.strip_opt().is_obj else r.ty)


def unchanged(fv, node, st):
    """unchanged(o) or unchanged(o, 'f1', 'f2'): listed (or all declared) fields of o equal their old values"""
    o = fv.ev(node.args[0], st, True)
    names = [a.value for a in node.args[1:]]
    if not names:
        names = sorted(fv.E.field_types)
    conj = []
    for f in names:
        for key, fty in fv.field_variants(f):
            cur = fv.heap_array(st, f, fty)
            # the heap of the contract's pre-state (function entry when verifying, the call-time heap when applying)
            old = fv.old_state.heap.get(key) if fv.old_state is not None else None
            if old is None:
                old = z3.Const('H_%s!0' % key, z3.ArraySort(P.V, zsort(fty)))
            conj.append(z3.Select(cur, o.term) == z3.Select(old, o.term))
    return z3.And(*conj) if conj else z3.BoolVal(True)


def site_ordinal(fv, node, what):
    """stable name of a site inside its function: the ordinal of the AST node among the sites of that kind in source order
    (independent of line numbers)"""
    import ast as _ast
    if fv.fn is None:
        return '?'
    cache = getattr(fv, '_site_ordinals', None)
    if cache is None:
        cache = fv._site_ordinals = {}
        counters = {}
        for n in _ast.walk(fv.fn):
            kinds = []
            if isinstance(n, _ast.Call):
                f = n.func
                nm = f.id if isinstance(f, _ast.Name) else (f.attr if isinstance(f, _ast.Attribute) else None)
                if nm:
                    kinds.append('new ' + nm)
            if isinstance(n, (_ast.Assign, _ast.AugAssign, _ast.AnnAssign)):
                tg = n.targets if isinstance(n, _ast.Assign) else [n.target]
                for t in tg:
                    for e in (t.elts if isinstance(t, (_ast.Tuple, _ast.List)) else [t]):
                        if isinstance(e, _ast.Attribute):
                            kinds.append('store .' + e.attr)
            for k in kinds:
                key = (k, n.lineno, n.col_offset)
                if key not in cache:
                    cache[key] = None
        # number in source order
        for (k, ln, col) in sorted(cache, key=lambda x: (x[0], x[1], x[2])):
            counters[k] = counters.get(k, -1) + 1
            cache[(k, ln, col)] = counters[k]
    return cache.get((what, getattr(node, 'lineno', 0), getattr(node, 'col_offset', 0)), '?')
