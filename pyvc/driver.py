"""Verify a set of functions under contract and collect per-obligation results."""
import os
import time
import traceback
import z3

from . import contracts as C
from . import frontend as F
from . import solver
from .symexec import Engine, FuncVerifier, EngineError, Unsupported

HERE = os.path.dirname(os.path.dirname(os.path.abspath(__file__)))


class FuncResult:
    def __init__(self, qual):
        self.qual = qual
        self.obligations = []     # dict(name, kind, status, secs, reason, lineno, model, backend)
        self.error = None         # engine error text (exit 3) / unsupported (exit 2)
        self.error_kind = None
        self.source_hash = None
        self.abstracted = []
        self.used_contracts = []
        self.secs = 0.0
        self.smt = {}             # obligation key -> smt2 text (kept for failures)


def build(sidecar_names=None, repo=None):
    sc = C.load_dir(os.path.join(HERE, 'contracts'), sidecar_names)
    fe = F.Frontend(repo)
    # preload modules mentioned by contracts so the class table is complete
    for q in list(sc.contracts):
        c = sc.contracts[q]
        if c.kind == 'external':
            continue
        try:
            fe.find_function(c.opts.get('impl', q))
        except KeyError:
            pass
    for mname in sc.load_modules:
        fe.module(mname)
    fe.finalize()
    return Engine(sc, fe)


LOCALS_AT_LEDGER = {}      # qual -> sorted local names when the ledger was recorded (set by check.py)
RENAMED = {}               # qual -> (new name, old name) of the renames applied in this run (reported in the evidence)


def _own_locals(fn):
    """names bound inside the function (assignments, loop / comprehension / with / except targets), parameters excluded"""
    import ast
    from .slicing import assigned_names
    params = {a.arg for a in fn.args.posonlyargs + fn.args.args + fn.args.kwonlyargs}
    if fn.args.vararg:
        params.add(fn.args.vararg.arg)
    if fn.args.kwarg:
        params.add(fn.args.kwarg.arg)
    return sorted(n for n in assigned_names(fn.body) if n not in params)


def function_locals(E, qual):
    try:
        c = E.sc.impl_contracts.get(qual) or E.find_contract(qual)
        m, cls, fn, enclosing = E.fe.find_function(c.opts.get('impl', qual) if c is not None else qual)
        return _own_locals(fn)
    except Exception:
        return None


def rename_tolerance(qual, fn):
    """DESIGN 2.1: sidecar contracts name locals of the real function.  If, compared with the local names recorded with the
    ledger, exactly ONE name has disappeared and exactly ONE new name has appeared, the local was renamed: the function is
    verified with the old name substituted back (on a copy of its AST), so loop invariants and site clauses still bind.
    Anything else (two renames, a new helper variable plus a removed one ...) is not guessed."""
    import ast
    import copy
    old = LOCALS_AT_LEDGER.get(qual)
    if not old:
        return fn
    now = _own_locals(fn)
    gone = [n for n in old if n not in now]
    new = [n for n in now if n not in old]
    if len(gone) != 1 or len(new) != 1:
        return fn
    o, n = gone[0], new[0]
    if any(isinstance(x, ast.Name) and x.id == o for x in ast.walk(fn)):
        return fn       # the old name is still used (e.g. as a global): do not touch
    fn2 = copy.deepcopy(fn)
    for x in ast.walk(fn2):
        if isinstance(x, ast.Name) and x.id == n:
            x.id = o
        elif isinstance(x, ast.ExceptHandler) and x.name == n:
            x.name = o
    RENAMED[qual] = (n, o)
    return fn2


def generate(E, qual):
    """returns (FuncVerifier, obligations) for the function `qual`"""
    c = E.sc.impl_contracts.get(qual) or E.find_contract(qual)
    if c is None:
        # an override verified against the family contract of an ancestor (behavioural subtyping)
        m, cls, fn, enclosing = E.fe.find_function(qual)
        if cls is None:
            raise EngineError('no contract for ' + qual)
        import copy
        from .calls import find_method_contract
        probe = FuncVerifier(E, qual, fn, None, module=m, cls=cls)
        fam = find_method_contract(probe, cls.key, fn.name)
        if fam is None or fam.kind != 'family':
            raise EngineError('no contract (own or family) for ' + qual)
        c = copy.copy(fam)
        c.qual = qual
        c.params = [(n, (cls.key if n == 'self' else t)) for n, t in fam.params]
        c.opts = dict(fam.opts, family_of=fam.qual)
    m, cls, fn, enclosing = E.fe.find_function(c.opts.get('impl', qual))
    fn = rename_tolerance(qual, fn)
    fv = FuncVerifier(E, qual, fn, c, module=m, cls=cls, enclosing=enclosing)
    fv.run()
    return fv


def hyps_for(E, fv, ob):
    hs = [a for _, a in E.prelude]
    hs += [a for _, a in E.global_axioms]
    hs += E.str_axioms()
    hs += fv.local_axioms
    hs += fv.facts[:ob.nfacts]
    hs.append(ob.pc)
    return hs


def verify(quals, sidecar_names=None, repo=None, timeout_ms=10000, keep_smt=False, E=None, second_opinion=False):
    E = E or build(sidecar_names, repo)
    results = []
    items = []
    index = {}
    fvs = {}
    for q in quals:
        fr = FuncResult(q)
        results.append(fr)
        t0 = time.time()
        try:
            fv = generate(E, q)
            fvs[q] = fv
            m, cls, fn, enc = E.fe.find_function(fv.c.opts.get('impl', q))
            fr.source_hash = E.fe.source_hash(fn, m)
            fr.used_contracts = sorted(fv.used_contracts)
            fr.abstracted = list(fv.abstracted)
            only = os.environ.get('PYVC_ONLY')
            for k, ob in enumerate(fv.obligations):
                if only and not __import__('re').search(only, ob.name):
                    continue
                key = (q, k)
                text = solver.to_smt2(hyps_for(E, fv, ob), ob.goal)
                items.append((key, text, ob.kind))
                index[key] = (fr, ob, text)
        except Unsupported as e:
            fr.error = str(e)
            fr.error_kind = 'unsupported'
        except (EngineError, KeyError) as e:
            fr.error = '%s: %s' % (type(e).__name__, e)
            fr.error_kind = 'engine'
        except Exception:
            fr.error = traceback.format_exc()
            fr.error_kind = 'engine'
        fr.secs = time.time() - t0
    out = solver.discharge(items, timeout_ms=timeout_ms)
    # second chance for obligations on which E-matching gave up: the goal is split into sub-goals (conjuncts, unfolded ghost
    # definitions, skolemised quantifiers); the obligation is proved if every sub-goal is
    retry, rindex = [], {}
    for key, (fr, ob, text) in index.items():
        r = out[key]
        if ob.kind == 'cover' or r['status'] != 'failed' or r['res'] != 'unknown':
            continue
        try:
            leaves = solver.split_goal(ob.goal, getattr(E, 'ghost_defs', {}))
        except Exception:
            continue
        if len(leaves) == 1 and not leaves[0][0] and leaves[0][1].eq(ob.goal):
            continue
        q, k = key
        hs = hyps_for(E, fvs[q], ob)
        for j, (extra, leaf) in enumerate(leaves):
            rk = (q, k, j)
            retry.append((rk, solver.to_smt2(hs + list(extra), leaf), ob.kind))
            rindex.setdefault(key, []).append(rk)
    if retry:
        out2 = solver.discharge(retry, timeout_ms=timeout_ms)
        for key, rks in rindex.items():
            sts = [out2[rk]['status'] for rk in rks]
            if os.environ.get('PYVC_DEBUG_SPLIT'):
                for rk in rks:
                    print('SPLIT', index[key][1].name, rk[2], out2[rk]['status'], out2[rk]['reason'][:60], round(out2[rk]['secs'], 1))
                    if out2[rk]['status'] != 'proved':
                        open('/tmp/split_%d.smt2' % rk[2], 'w').write([t for k2, t, _ in retry if k2 == rk][0])
            if all(st == 'proved' for st in sts):
                out[key] = dict(out[key], status='proved', res='unsat', reason='split into %d sub-goals' % len(rks),
                                secs=out[key]['secs'] + sum(out2[rk]['secs'] for rk in rks))
            elif any(st == 'undecided' for st in sts) and not any(st == 'failed' for st in sts):
                out[key] = dict(out[key], status='undecided', reason='sub-goal timeout',
                                secs=out[key]['secs'] + sum(out2[rk]['secs'] for rk in rks))
    # cvc5 (E-matching on the same triggers): (a) takes the obligations on which z3's E-matching gave up -- an `unsat` from
    # either solver is a proof; (b) second opinion on the obligations z3 proved, when asked for (thorough tier): a `sat`
    # there is a disagreement between the back ends and is reported as an engine error
    cv_items = []
    for key, (fr, ob, text) in index.items():
        r = out[key]
        if ob.kind == 'cover':
            continue
        if (r['status'] == 'failed' and r['res'] == 'unknown') or (second_opinion and r['status'] == 'proved'
                                                                   and not r['reason'].startswith('split')):
            cv_items.append((key, text))
    cv = solver.cvc5_batch(cv_items, timeout_s=max(5, min(30, timeout_ms // 2000))) if cv_items else {}
    for key, (ans, secs) in cv.items():
        r = out[key]
        if r['status'] == 'failed' and ans == 'unsat':
            out[key] = dict(r, status='proved', res='unsat', reason='z3: unknown; cvc5: unsat', secs=r['secs'] + secs,
                            backend='cvc5-1.0 (after z3 gave up)')
        elif r['status'] == 'proved':
            out[key] = dict(r, cvc5=ans)
    for key, (fr, ob, text) in index.items():
        r = out[key]
        d = dict(name=ob.name, kind=ob.kind, status=r['status'], secs=round(r['secs'], 3), reason=r['reason'],
                 lineno=ob.lineno, backend=r['backend'], detail=ob.detail)
        if 'cvc5' in r:
            d['cvc5'] = r['cvc5']
        if r['status'] not in ('proved', 'ok') or keep_smt:
            d['model'] = r['model']
            fr.smt[len(fr.obligations)] = text
        fr.obligations.append(d)
    return E, results


def summarize(results):
    lines = []
    for fr in results:
        if fr.error:
            lines.append('%-60s %s: %s' % (fr.qual, fr.error_kind.upper(), fr.error.strip().split('\n')[-1]))
            continue
        n = sum(1 for o in fr.obligations if o['kind'] == 'proof')
        p = sum(1 for o in fr.obligations if o['kind'] == 'proof' and o['status'] == 'proved')
        bad = [o for o in fr.obligations if o['status'] not in ('proved', 'ok')]
        lines.append('%-60s %d/%d proved  %.1fs' % (fr.qual, p, n, sum(o['secs'] for o in fr.obligations)))
        for o in bad:
            lines.append('      %-9s %s (line %s) %s' % (o['status'], o['name'], o['lineno'], o['reason']))
    return '\n'.join(lines)


if __name__ == '__main__':
    import sys
    E, res = verify(sys.argv[2:], [sys.argv[1]] if sys.argv[1] != '-' else None, keep_smt=True)
    print(summarize(res))


def verify_group(quals, sidecar_names, timeout_ms=30000, second_opinion=False, repo=None):
    """a second group of functions verified under its own sidecar set (contracts that cannot be loaded together with the
    property's main set, e.g. a different ghost view of the same global); returns the obligations as custom obligations"""
    E, results = verify(quals, sidecar_names, repo=repo or os.environ.get('HEPH_REPO'), timeout_ms=timeout_ms,
                        second_opinion=second_opinion)
    out = []
    for fr in results:
        if fr.error:
            out.append(dict(name='%s/no-longer-verifiable' % fr.qual, function=fr.qual, lineno=0, kind='proof',
                            status='failed', secs=fr.secs, backend='pyvc',
                            reason='cannot analyse (%s): %s' % (fr.error_kind, fr.error.strip().split('\n')[-1][:300])))
            continue
        nproof = 0
        for o in fr.obligations:
            if o['kind'] != 'proof':
                if o['kind'] == 'cover' and o['status'] not in ('ok', 'proved') and '/site[return ' not in o['name']:
                    out.append(dict(o, function=fr.qual, kind='proof', status='failed',
                                    reason='vacuity: a cover was refuted (%s)' % o.get('reason', '')))
                continue
            nproof += 1
            out.append(dict(o, function=fr.qual, abstracted=len(fr.abstracted)))
        rc = [o for o in fr.obligations if o['kind'] == 'cover' and '/site[return ' in o['name']]
        if rc and all(o['status'] == 'vacuous' for o in rc):
            out.append(dict(name='%s/no-reachable-return' % fr.qual, function=fr.qual, lineno=0, kind='proof', status='failed',
                            secs=0, backend='pyvc', reason='vacuity: no return statement is reachable under the contract'))
        if nproof == 0:
            out.append(dict(name='%s/no-obligation-generated' % fr.qual, function=fr.qual, lineno=0, kind='proof',
                            status='failed', secs=0, backend='pyvc', reason='vacuity: no obligation was generated'))
    return out
