"""Sidecar contract files: parsed with ast, never executed.

Top level forms
    sort("Node")                                  abstract value sort (equality = identity)
    alias("Graph", "Map[Node,Seq[Node]]")
    bound(n="Node", j="Int")                      default types of quantified / lambda variables
    fields("ClassName", attr="Type", ...)        attribute layout of a repo class
    @ghost(...)    def Name(a: "T", ...) -> "Bool":  rule(name, expr) | define(expr) | axiom(name, expr)
    @contract("qual.name", pure=True|False, trusted=False)  def _(params...) -> "T":  clauses
    @family("qual.Class.method")                  contract shared by all overrides
    @external("qual.name")                        trusted contract of a function outside the verified set
Clauses inside a contract body
    requires(expr) / requires("name", expr)
    ensures("name", expr)
    local(x="Type", ...)
    modifies("name", ...)                         closure variables / globals / heap fields the function may change
    reads_only()                                  no heap effect
    with loop("0"):  invariant("name", expr); decreases(expr); exit_hint(stmt...); body_hint(...)
    hint(where, kind, ...)
"""
import ast
import os


class LoopSpec:
    def __init__(self, key):
        self.key = key
        self.invariants = []     # (name, expr)
        self.decreases = None
        self.exit_hints = []     # ast.Call
        self.body_hints = []
        self.entry_hints = []
        self.modifies = []
        self.inherits = []       # (loop key, [excluded invariant names])
        self.end_hints = []


class Contract:
    def __init__(self, qual, kind):
        self.qual = qual
        self.kind = kind          # contract | family | external
        self.params = []          # (name, tystr or None)
        self.ret = None
        self.pure = False
        self.trusted = False
        self.requires = []        # (name, expr)
        self.ensures = []         # (name, expr)
        self.locals = {}
        self.modifies = []
        self.loops = {}
        self.bound = {}
        self.entry_hints = []
        self.return_hints = []
        self.raises = []          # (exc name, condition expr)
        self.opts = {}
        self.file = None
        self.lineno = 0
        self.comp_invariants = {}  # comprehension ordinal -> (name, expr) list
        self.call_hints = {}
        self.decreases = None
        self.ghost_locals = {}
        self.callables = {}
        self.sites = []            # (class name, clause name, expr): checked after each construction of that class
        self.site_stores = []      # (attribute, clause name, expr): checked after each store to that attribute
        self.site_returns = []     # (text of the returned expression, clause name, expr): checked at each such `return`
        self.site_calls = []       # (callee text e.g. 't_args.append' or '_compute_type_variable_assignments', clause name, expr)
        self.global_invariants = []  # (name, expr): assumed at entry and re-assumed after every havoc (slice mode)


class Ghost:
    def __init__(self, name):
        self.name = name
        self.params = []
        self.ret = 'Bool'
        self.rules = []           # (name, expr) Horn rules (least fixpoint)
        self.axioms = []          # (name, expr) plain axioms
        self.define = None
        self.least_fixpoint = False
        self.bound = {}
        self.heap = False
        self.typed_result = False
        self.file = None


class Sidecar:
    def __init__(self):
        self.sorts = []
        self.aliases = {}
        self.bound = {}
        self.fields = {}          # class -> {attr: tystr}
        self.ghosts = {}
        self.contracts = {}       # qual -> Contract
        self.globals = {}         # qual global name -> tystr
        self.files = []
        self.classdecl = {}       # abstract classes declared in the sidecar: name -> [bases]
        self.consts = {}
        self.dict_records = set()
        self.load_modules = []
        self.profiles = {}          # name -> list of clause statements (reusable contract fragments)
        self.impl_contracts = {}   # qual -> contract of the implementation itself when a @family has the same name


def _s(node):
    if isinstance(node, ast.Constant):
        return node.value
    raise ValueError('expected literal at line %d' % node.lineno)


def _kw(call):
    return {k.arg: k.value for k in call.keywords}


def _parse_clauses(body, c, sc, loop=None):
    for st in body:
        if isinstance(st, ast.Pass):
            continue
        if isinstance(st, ast.Expr) and isinstance(st.value, ast.Constant):
            continue
        if isinstance(st, ast.With):
            call = st.items[0].context_expr
            fn = call.func.id
            if fn == 'loop':
                key = str(_s(call.args[0]))
                ls = c.loops.setdefault(key, LoopSpec(key))
                _parse_clauses(st.body, c, sc, loop=ls)
                continue
            raise ValueError('unknown with-form %s' % fn)
        if not (isinstance(st, ast.Expr) and isinstance(st.value, ast.Call) and isinstance(st.value.func, ast.Name)):
            raise ValueError('%s:%d: contract bodies contain only clause calls' % (c.file, st.lineno))
        call = st.value
        fn = call.func.id
        a = call.args
        if fn == 'requires':
            if len(a) == 2:
                c.requires.append((_s(a[0]), a[1]))
            else:
                c.requires.append(('pre%d' % len(c.requires), a[0]))
        elif fn == 'ensures':
            c.ensures.append((_s(a[0]), a[1]))
        elif fn == 'local':
            for k, v in _kw(call).items():
                c.locals[k] = _s(v)
        elif fn == 'bound':
            for k, v in _kw(call).items():
                c.bound[k] = _s(v)
        elif fn == 'modifies':
            tgt = loop.modifies if loop is not None else c.modifies
            tgt.extend(_s(x) for x in a)
        elif fn == 'invariant':
            loop.invariants.append((_s(a[0]), a[1]))
        elif fn == 'decreases':
            if loop is not None:
                loop.decreases = a[0]
            else:
                c.decreases = a[0]
        elif fn == 'inherit':
            loop.inherits.append((str(_s(a[0])), [_s(x) for x in a[1:]]))
        elif fn == 'exit_hint':
            loop.exit_hints.extend(a)
        elif fn == 'body_hint':
            loop.body_hints.extend(a)
        elif fn == 'end_hint':
            loop.end_hints.extend(a)
        elif fn == 'use_profile':
            prof = sc.profiles.get(_s(a[0]))
            if prof is None:
                raise ValueError('%s: unknown profile %s' % (c.file, _s(a[0])))
            _parse_clauses(prof['body'], c, sc, loop)
            for k, v in prof['opts'].items():
                c.opts.setdefault(k, v)
        elif fn == 'site':
            c.sites.append((_s(a[0]), _s(a[1]), a[2]))
        elif fn == 'site_call':
            c.site_calls.append((_s(a[0]), _s(a[1]), a[2]))
        elif fn == 'site_store':
            c.site_stores.append((_s(a[0]), _s(a[1]), a[2]))
        elif fn == 'site_return':
            c.site_returns.append((_s(a[0]), _s(a[1]), a[2]))
        elif fn == 'global_invariant':
            c.global_invariants.append((_s(a[0]), a[1]))
        elif fn == 'callable':
            for k, v in _kw(call).items():
                c.callables[k] = _s(v)
        elif fn == 'ghost_local':
            for k, v in _kw(call).items():
                c.ghost_locals[k] = _s(v)
        elif fn == 'entry_hint':
            (loop.entry_hints if loop is not None else c.entry_hints).extend(a)
        elif fn == 'return_hint':
            c.return_hints.extend(a)
        elif fn == 'raises':
            c.raises.append((_s(a[0]), a[1] if len(a) > 1 else None))
        elif fn == 'option':
            for k, v in _kw(call).items():
                c.opts[k] = _s(v)
        elif fn == 'comp_invariant':
            c.comp_invariants.setdefault(str(_s(a[0])), []).append((_s(a[1]), a[2]))
        elif fn == 'call_hint':
            c.call_hints.setdefault(_s(a[0]), []).extend(a[1:])
        else:
            raise ValueError('%s:%d: unknown clause %s' % (c.file, st.lineno, fn))


def load_file(path, sc):
    tree = ast.parse(open(path).read(), filename=path)
    sc.files.append(path)
    for st in tree.body:
        if isinstance(st, (ast.Import, ast.ImportFrom)):
            continue
        if isinstance(st, ast.Expr) and isinstance(st.value, ast.Constant):
            continue
        if isinstance(st, ast.Expr) and isinstance(st.value, ast.Call):
            call = st.value
            fn = call.func.id
            if fn == 'sort':
                sc.sorts.append(_s(call.args[0]))
            elif fn == 'alias':
                sc.aliases[_s(call.args[0])] = _s(call.args[1])
            elif fn == 'bound':
                for k, v in _kw(call).items():
                    sc.bound[k] = _s(v)
            elif fn == 'fields':
                d = sc.fields.setdefault(_s(call.args[0]), {})
                for k, v in _kw(call).items():
                    d[k] = _s(v)
            elif fn == 'global_var':
                sc.globals[_s(call.args[0])] = _s(call.args[1])
            elif fn == 'declare_class':
                sc.classdecl[_s(call.args[0])] = [_s(x) for x in call.args[1:]]
            elif fn == 'load_module':
                sc.load_modules.append(_s(call.args[0]))
            elif fn == 'dict_record':
                sc.dict_records.add(_s(call.args[0]))
                sc.classdecl.setdefault(_s(call.args[0]), [])
            elif fn == 'const':
                sc.consts[_s(call.args[0])] = _s(call.args[1])
            else:
                raise ValueError('%s:%d unknown top-level form %s' % (path, st.lineno, fn))
            continue
        if isinstance(st, ast.FunctionDef):
            dec = st.decorator_list[0]
            dname = dec.func.id if isinstance(dec, ast.Call) else dec.id
            kws = _kw(dec) if isinstance(dec, ast.Call) else {}
            if dname == 'profile':
                sc.profiles[_s(dec.args[0])] = dict(body=st.body, opts={k: _s(v) for k, v in kws.items()})
                continue
            if dname == 'ghost':
                g = Ghost(st.name)
                g.file = path
                g.params = [(a.arg, _s(a.annotation) if a.annotation else None) for a in st.args.args]
                g.ret = _s(st.returns) if st.returns else 'Bool'
                g.least_fixpoint = bool(_s(kws['least_fixpoint'])) if 'least_fixpoint' in kws else False
                g.heap = bool(_s(kws['heap'])) if 'heap' in kws else False
                g.typed_result = bool(_s(kws['typed_result'])) if 'typed_result' in kws else False
                for b in st.body:
                    if isinstance(b, ast.Expr) and isinstance(b.value, ast.Constant):
                        continue
                    if isinstance(b, ast.Pass):
                        continue
                    call = b.value
                    fn = call.func.id
                    if fn == 'rule':
                        g.rules.append((_s(call.args[0]), call.args[1]))
                    elif fn == 'axiom':
                        g.axioms.append((_s(call.args[0]), call.args[1]))
                    elif fn == 'define':
                        g.define = call.args[0]
                    elif fn == 'bound':
                        for k, v in _kw(call).items():
                            g.bound[k] = _s(v)
                    else:
                        raise ValueError('%s:%d unknown ghost clause %s' % (path, b.lineno, fn))
                sc.ghosts[g.name] = g
                continue
            if dname in ('contract', 'family', 'external'):
                qual = _s(dec.args[0])
                c = Contract(qual, dname)
                c.file = path
                c.lineno = st.lineno
                c.pure = bool(_s(kws['pure'])) if 'pure' in kws else False
                c.trusted = dname == 'external' or (bool(_s(kws['trusted'])) if 'trusted' in kws else False)
                for k, v in kws.items():
                    if k not in ('pure', 'trusted'):
                        c.opts[k] = _s(v)
                c.params = [(a.arg, _s(a.annotation) if a.annotation else None) for a in st.args.args]
                c.ret = _s(st.returns) if st.returns else None
                _parse_clauses(st.body, c, sc)
                for ls in c.loops.values():
                    inh = []
                    for key, excl in ls.inherits:
                        if key not in c.loops:
                            raise ValueError('%s: inherit from unknown loop %s' % (qual, key))
                        inh.extend((n, e) for n, e in c.loops[key].invariants if n not in excl)
                    have = {n for n, _ in ls.invariants}
                    ls.invariants = [(n, e) for n, e in inh if n not in have] + ls.invariants
                if qual in sc.contracts:
                    other = sc.contracts[qual]
                    if {other.kind, c.kind} == {'family', 'contract'} and qual not in sc.impl_contracts:
                        fam, own = (other, c) if other.kind == 'family' else (c, other)
                        sc.contracts[qual] = fam
                        sc.impl_contracts[qual] = own
                        continue
                    raise ValueError('duplicate contract for ' + qual)
                sc.contracts[qual] = c
                continue
        raise ValueError('%s:%d: unsupported top-level statement' % (path, st.lineno))


def load_dir(directory, names=None):
    sc = Sidecar()
    for fn in sorted(os.listdir(directory)):
        if fn.endswith('.py') and not fn.startswith('_'):
            if names is None or fn[:-3] in names:
                load_file(os.path.join(directory, fn), sc)
    return sc
