"""Comprehensions, generator expressions, and the iteration protocol."""
import ast
import z3

from . import prelude as P
from . import ty as T
from .ty import INT, BOOL, STR, NONE, ANY
from .symexec import SV, box, unbox, coerce, zsort, EngineError, Unsupported, simp_and, simp_not


class IterSrc:
    """length term + a function binding the loop target(s) at index i"""

    def __init__(self, length, bind, plain_seq=None, ety=None, key_map=None):
        self.length = length
        self.bind = bind            # i (z3 Int) -> {name: SV}
        self.plain_seq = plain_seq  # seq term if the target is a single name iterating a sequence of V
        self.ety = ety
        self.key_map = key_map      # for dict .items(): the map term
        self.range_var = None
        self.enum = None            # (index name, element name, seq term, element type) for enumerate(seq)


def target_names(t):
    if isinstance(t, ast.Name):
        return [t.id]
    if isinstance(t, (ast.Tuple, ast.List)):
        out = []
        for e in t.elts:
            out.extend(target_names(e))
        return out
    raise EngineError('loop target form')


def bind_target(fv, st, target, sv, out):
    if isinstance(target, ast.Name):
        out[target.id] = sv
        return
    if isinstance(target, (ast.Tuple, ast.List)):
        if isinstance(sv, list):
            for e, v in zip(target.elts, sv):
                bind_target(fv, st, e, v, out)
            return
        if sv.ty.is_seq:
            for i, e in enumerate(target.elts):
                bind_target(fv, st, e, unbox(P.at(sv.term, z3.IntVal(i)), sv.ty.args[0]), out)
            return
    raise EngineError('cannot destructure loop target')


def iter_source(fv, target, it, st, spec):
    """describe `for target in it`"""
    if isinstance(it, ast.Call) and isinstance(it.func, ast.Name) and it.func.id == 'range' \
            and 'range' not in st.env:
        args = [coerce(fv.ev(a, st, spec), INT).term for a in it.args]
        lo, hi = (z3.IntVal(0), args[0]) if len(args) == 1 else (args[0], args[1])
        if len(args) == 3:
            raise EngineError('range step')
        length = z3.If(hi > lo, hi - lo, z3.IntVal(0))

        def bind(i):
            out = {}
            bind_target(fv, st, target, SV(lo + i, INT), out)
            return out
        src = IterSrc(length, bind)
        if isinstance(target, ast.Name):
            src.range_var = (target.id, lo, hi)      # quantified contexts bind the value itself
        return src
    if isinstance(it, ast.Call) and isinstance(it.func, ast.Name) and it.func.id == 'enumerate':
        inner = iter_source(fv, target.elts[1], it.args[0], st, spec)

        def bind(i):
            out = inner.bind(i)
            bind_target(fv, st, target.elts[0], SV(i, INT), out)
            return out
        src = IterSrc(inner.length, bind)
        if inner.plain_seq is not None and isinstance(target.elts[1], ast.Name) and isinstance(target.elts[0], ast.Name):
            src.enum = (target.elts[0].id, target.elts[1].id, inner.plain_seq, inner.ety)
        return src
    if isinstance(it, ast.Call) and isinstance(it.func, ast.Name) and it.func.id == 'zip':
        if not isinstance(target, (ast.Tuple, ast.List)) or len(target.elts) != len(it.args):
            raise EngineError('zip target form')
        inners = [iter_source(fv, t, a, st, spec) for t, a in zip(target.elts, it.args)]
        length = inners[0].length
        for x in inners[1:]:
            length = z3.If(x.length < length, x.length, length)

        def bind(i):
            out = {}
            for x in inners:
                out.update(x.bind(i))
            return out
        return IterSrc(length, bind)
    if isinstance(it, ast.Call) and isinstance(it.func, ast.Attribute) and it.func.attr in ('items', 'values', 'keys') \
            and not it.args:
        m = fv.pattern_safe(st, fv.ev(it.func.value, st, spec))
        mt = m.ty
        if mt.is_opt:
            fv.safety(st, 'none-deref', m.term != P.none, it, spec)
            mt = mt.strip_opt()
        if mt.is_map:
            ks = P.keys(m.term)
            if not spec:
                fv.note_term(st, ks)
            kty, vty = mt.args
            kind = it.func.attr

            def bind(i):
                out = {}
                k = P.at(ks, i)
                if kind == 'items':
                    bind_target(fv, st, target, [unbox(k, kty), unbox(P.get(m.term, k), vty)], out)
                elif kind == 'values':
                    bind_target(fv, st, target, unbox(P.get(m.term, k), vty), out)
                else:
                    bind_target(fv, st, target, unbox(k, kty), out)
                return out
            return IterSrc(P.slen(ks), bind, plain_seq=ks if kind != 'values' else None,
                           ety=kty, key_map=m.term if kind == 'items' else None)
    v = fv.pattern_safe(st, fv.ev(it, st, spec))
    seq, ety = fv.iter_seq(v, it, st, spec)
    if not spec:
        fv.note_term(st, seq)

    def bind(i):
        out = {}
        bind_target(fv, st, target, unbox(P.at(seq, i), ety), out)
        return out
    return IterSrc(P.slen(seq), bind, plain_seq=seq if isinstance(target, ast.Name) else None, ety=ety)


def elem_typed_facts(fv, binds):
    fs = []
    for n, sv in binds.items():
        if zsort(sv.ty) == P.V:
            f = fv.typed_fact(sv.term, sv.ty)
            if not z3.is_true(f):
                fs.append(f)
    return fs


def quantify_comp(fv, comp, st, spec, is_all):
    """any(...) / all(...) over a generator expression -> quantifier"""
    gens = comp.generators

    def go(k):
        if k == len(gens):
            return fv.truthy(fv.ev(comp.elt, st, spec))
        g = gens[k]
        src = iter_source(fv, g.target, g.iter, st, spec)
        i = z3.Int('i!g%d' % next(fv.E.counter))
        if src.range_var is not None:
            nm, lo, hi = src.range_var
            binds = {nm: SV(i, INT)}
            rng = z3.And(lo <= i, i < hi)
        else:
            binds = src.bind(i)
            rng = z3.And(0 <= i, i < src.length)
        tf = elem_typed_facts(fv, binds)
        guard = z3.And(rng, *tf) if tf else rng
        fv.bound_env.append(binds)
        fv.binders.append(([i], guard))
        try:
            conds = []
            for c in g.ifs:
                cv = fv.truthy(fv.ev(c, st, spec))
                conds.append(cv)
                fv.binders.append(([], cv))
            inner = go(k + 1)
            for _ in g.ifs:
                fv.binders.pop()
        finally:
            fv.binders.pop()
            fv.bound_env.pop()
        allc = z3.And(guard, *conds) if conds else guard
        pats = []
        if src.plain_seq is not None:
            pats = [P.at(src.plain_seq, i)]
        if is_all:
            return z3.ForAll([i], z3.Implies(allc, inner), patterns=pats) if pats else z3.ForAll([i], z3.Implies(allc, inner))
        return z3.Exists([i], z3.And(allc, inner))
    return SV(go(0), BOOL)


def eval_comp(fv, node, st, spec, kind):
    if fv.binders:
        raise EngineError('comprehension under a binder (line %d)' % node.lineno)
    if len(node.generators) != 1:
        raise EngineError('multi-generator comprehension (line %d)' % node.lineno)
    g = node.generators[0]
    E = fv.E
    src = iter_source(fv, g.target, g.iter, st, spec)
    n = next(E.counter)
    L = src.length

    def at_index(i, fn):
        """evaluate fn() with the loop target bound at index i, obligations under the binder"""
        binds = src.bind(i)
        tf = elem_typed_facts(fv, binds)
        rng = z3.And(0 <= i, i < L, *tf)
        fv.bound_env.append(binds)
        fv.binders.append(([i], rng))
        try:
            return fn(binds)
        finally:
            fv.binders.pop()
            fv.bound_env.pop()

    def conds_and(fn_after):
        def inner(binds):
            cs = []
            for c in g.ifs:
                cv = fv.truthy(fv.ev(c, st, spec))
                cs.append(cv)
                fv.binders.append(([], cv))
            try:
                r = fn_after(binds)
            finally:
                for _ in g.ifs:
                    fv.binders.pop()
            return (z3.And(*cs) if cs else z3.BoolVal(True)), r
        return inner

    i = z3.Int('i!c%d' % n)
    j = z3.Int('j!c%d' % n)
    j2 = z3.Int('k!c%d' % n)

    if kind == 'list':
        try:
            no = len(fv.obligations)
            cond_i, elt_i = at_index(i, conds_and(lambda b: fv.ev(node.elt, st, spec)))
        except (Unsupported, EngineError, z3.Z3Exception) as e:
            if not (fv.in_slice() and not spec and not g.ifs and isinstance(node, ast.ListComp)):
                raise
            # slice mode: the element expression is outside the subset.  An unfiltered list comprehension has exactly one
            # element per element of the iterable: a list of that length with arbitrary elements (after a heap havoc when
            # evaluating the element expression may call unknown code).  Sites inside the expression are probed.
            del fv.obligations[no:]
            from .slicing import probe_sites, reads_only, havoc_after_partial
            from .ty import ANY
            probe_sites(fv, ast.Expr(value=node), st, 'element of a list comprehension: %s' % str(e)[:100])
            fv.abstracted.append(dict(line=node.lineno, stmt='elements of ' + ast.unparse(node)[:80], reason=str(e)[:160]))
            if not reads_only(node.elt):
                havoc_after_partial(fv, st, node.elt)
            r = z3.Const('comp!%d' % n, P.V)
            fv.add_fact(st, z3.And(P.tag(r) == P.TAG_SEQ, P.slen(r) == L))
            return SV(r, T.Seq(ANY))
        ety = elt_i.ty
        r = z3.Const('comp!%d' % n, P.V)
        facts = [P.tag(r) == P.TAG_SEQ]
        if not g.ifs:
            facts.append(P.slen(r) == L)
            facts.append(z3.ForAll([i], z3.Implies(z3.And(0 <= i, i < L), P.at(r, i) == box(elt_i)),
                                   patterns=[P.at(r, i)] + ([P.at(src.plain_seq, i)] if src.plain_seq is not None else [])))
        else:
            cm = z3.Function('cm!%d' % n, z3.IntSort(), z3.IntSort())
            ci = z3.Function('ci!%d' % n, z3.IntSort(), z3.IntSort())
            cond_c = z3.substitute(cond_i, (i, cm(j)))
            elt_c = z3.substitute(box(elt_i), (i, cm(j)))
            facts.append(P.slen(r) <= L)
            facts.append(z3.ForAll([j], z3.Implies(z3.And(0 <= j, j < P.slen(r)),
                                                   z3.And(0 <= cm(j), cm(j) < L, cond_c, P.at(r, j) == elt_c)),
                                   patterns=[P.at(r, j), cm(j)]))
            facts.append(z3.ForAll([j, j2], z3.Implies(z3.And(0 <= j, j < j2, j2 < P.slen(r)), cm(j) < cm(j2)),
                                   patterns=[z3.MultiPattern(cm(j), cm(j2))]))
            # explicit instance at position 0 (emptiness tests on filtered lists are common)
            c0 = z3.substitute(cond_i, (i, cm(z3.IntVal(0))))
            e0 = z3.substitute(box(elt_i), (i, cm(z3.IntVal(0))))
            facts.append(z3.Implies(P.slen(r) > 0, z3.And(0 <= cm(z3.IntVal(0)), cm(z3.IntVal(0)) < L, c0,
                                                          P.at(r, z3.IntVal(0)) == e0)))
            facts.append(z3.ForAll([i], z3.Implies(z3.And(0 <= i, i < L, cond_i),
                                                   z3.And(0 <= ci(i), ci(i) < P.slen(r), cm(ci(i)) == i)),
                                   patterns=[ci(i)] + ([P.at(src.plain_seq, i)] if src.plain_seq is not None else [])))
        facts.extend(fv.deep_facts(r, T.Seq(ety)))
        for f in facts:
            fv.add_fact(st, f)
        return SV(r, T.Seq(ety))

    if kind == 'set':
        r = z3.Const('comp!%d' % n, P.V)
        facts = [P.tag(r) == P.TAG_SET]
        y = z3.Const('y!c%d' % n, P.V)
        tnames = target_names(g.target)
        simple = src.plain_seq is not None and isinstance(node.elt, ast.Name) and node.elt.id == tnames[0] \
            and (isinstance(g.target, ast.Name) or (src.key_map is not None and len(tnames) == 2))
        cond_i, elt_i = at_index(i, conds_and(lambda b: fv.ev(node.elt, st, spec)))
        ety = elt_i.ty
        if simple:
            # element is the loop variable itself: smem(r,y) <=> mem(seq,y) /\ cond[y]
            binds = {tnames[0]: unbox(y, src.ety)}
            if src.key_map is not None and len(tnames) == 2:
                vty = src.bind(i)[tnames[1]].ty
                binds[tnames[1]] = unbox(P.get(src.key_map, y), vty)
            fv.bound_env.append(binds)
            fv.binders.append(([y], P.mem(src.plain_seq, y)))
            try:
                cs = [fv.truthy(fv.ev(c, st, True)) for c in g.ifs]
            finally:
                fv.binders.pop()
                fv.bound_env.pop()
            cy = z3.And(*cs) if cs else z3.BoolVal(True)
            facts.append(z3.ForAll([y], P.smem(r, y) == z3.And(P.mem(src.plain_seq, y), cy),
                                   patterns=[P.smem(r, y)]))
            facts.append(z3.ForAll([y], z3.Implies(z3.And(P.mem(src.plain_seq, y), cy), P.smem(r, y)),
                                   patterns=[P.mem(src.plain_seq, y)]))
        else:
            wi = z3.Function('cw!%d' % n, P.V, z3.IntSort())
            cond_w = z3.substitute(cond_i, (i, wi(y)))
            elt_w = z3.substitute(box(elt_i), (i, wi(y)))
            facts.append(z3.ForAll([y], z3.Implies(P.smem(r, y), z3.And(0 <= wi(y), wi(y) < L, cond_w, elt_w == y)),
                                   patterns=[P.smem(r, y)]))
            facts.append(z3.ForAll([i], z3.Implies(z3.And(0 <= i, i < L, cond_i), P.smem(r, box(elt_i))),
                                   patterns=[box(elt_i)] if not z3.is_var(box(elt_i)) and not z3.is_const(box(elt_i)) else []))
        facts.extend(fv.deep_facts(r, T.Set(ety)))
        for f in facts:
            fv.add_fact(st, f)
        return SV(r, T.Set(ety))

    if kind == 'dict':
        r = z3.Const('comp!%d' % n, P.V)
        facts = [P.tag(r) == P.TAG_MAP]
        tnames = target_names(g.target)
        if src.enum is not None and isinstance(node.key, ast.Name) and node.key.id == src.enum[1] and not g.ifs:
            # {elem: f(i, elem) for i, elem in enumerate(seq)}
            iname, ename, seq, ety = src.enum
            y = z3.Const('y!c%d' % n, P.V)
            val_i = at_index(i, lambda b: fv.ev(node.value, st, spec))
            facts.append(z3.ForAll([y], P.has(r, y) == P.mem(seq, y), patterns=[P.has(r, y)]))
            facts.append(z3.ForAll([y], z3.Implies(P.mem(seq, y), P.has(r, y)), patterns=[P.mem(seq, y)]))
            facts.append(z3.Implies(P.nodup(seq), z3.And(
                z3.ForAll([i], z3.Implies(z3.And(0 <= i, i < L), P.get(r, P.at(seq, i)) == box(val_i)),
                          patterns=[P.at(seq, i)]),
                P.keys(r) == seq)))
            vty = val_i.ty
            facts.extend(fv.deep_facts(r, T.Map(ety, vty)))
            for f in facts:
                fv.add_fact(st, f)
            return SV(r, T.Map(ety, vty))
        key_is_target = isinstance(node.key, ast.Name) and node.key.id == tnames[0] and src.plain_seq is not None
        if not key_is_target:
            raise EngineError('dict comprehension whose key is not the loop variable (line %d)' % node.lineno)
        y = z3.Const('y!c%d' % n, P.V)
        kty = src.ety
        binds = {tnames[0]: unbox(y, kty)}
        if src.key_map is not None:
            # for k, v in m.items()
            vty = None
            probe = src.bind(i)
            vname = tnames[1]
            vty = probe[vname].ty
            binds[vname] = unbox(P.get(src.key_map, y), vty)
        fv.bound_env.append(binds)
        fv.binders.append(([y], P.mem(src.plain_seq, y)))
        try:
            cs = []
            for c in g.ifs:
                cv = fv.truthy(fv.ev(c, st, spec))
                cs.append(cv)
                fv.binders.append(([], cv))
            val = fv.ev(node.value, st, spec)
            for _ in g.ifs:
                fv.binders.pop()
        finally:
            fv.binders.pop()
            fv.bound_env.pop()
        cy = z3.And(*cs) if cs else z3.BoolVal(True)
        facts.append(z3.ForAll([y], P.has(r, y) == z3.And(P.mem(src.plain_seq, y), cy), patterns=[P.has(r, y)]))
        facts.append(z3.ForAll([y], z3.Implies(z3.And(P.mem(src.plain_seq, y), cy), P.has(r, y)),
                               patterns=[P.mem(src.plain_seq, y)]))
        facts.append(z3.ForAll([y], z3.Implies(P.has(r, y), P.get(r, y) == box(val)), patterns=[P.get(r, y)]))
        # key order: keys(r) is the order-preserving filter of the source (when the source has no duplicates)
        ks = P.keys(r)
        if not g.ifs:
            facts.append(z3.Implies(P.nodup(src.plain_seq), ks == src.plain_seq))
        else:
            facts.append(z3.Implies(P.nodup(src.plain_seq), ks == P.restrict(src.plain_seq, r)))
        facts.extend(fv.deep_facts(r, T.Map(kty, val.ty)))
        for f in facts:
            fv.add_fact(st, f)
        return SV(r, T.Map(kty, val.ty))
    raise EngineError('comprehension kind')
