"""SMT prelude of pyvc: one universal value sort V with Dafny-style triggered
axioms for sequences, maps (insertion ordered) and sets.  E-matching only.

Every axiom has a name.  The axioms are TRUSTED (not proved); pyvc/axiom_model.py evaluates each of them in the intended
model (tuples / association lists / frozensets) over a small universe on every run of a proof-level check.
"""
from z3 import (DeclareSort, Const, Consts, Function, IntSort, BoolSort, ForAll, Exists,
                Implies, And, Or, Not, If, Int, Ints, MultiPattern, IntVal, BoolVal)

V = DeclareSort('V')
INT = IntSort()
BOOL = BoolSort()

none = Const('none', V)
tag = Function('tag', V, INT)
TAG_NONE, TAG_INT, TAG_BOOL, TAG_STR, TAG_SEQ, TAG_MAP, TAG_SET, TAG_OBJ, TAG_ABS, TAG_FUN = range(10)

I = Function('I', INT, V)
unI = Function('unI', V, INT)
Bx = Function('Bx', BOOL, V)
unB = Function('unB', V, BOOL)
cls = Function('cls', V, INT)
alen = Function('alen', V, INT)        # len(x) of a value whose static type is unknown (Any)
truth = Function('truth', V, BOOL)      # bool(x) of a value whose static type is unknown (Any)

# sequences
slen = Function('len', V, INT)
at = Function('at', V, INT, V)
mem = Function('mem', V, V, BOOL)
idx = Function('idx', V, V, INT)          # witness index for mem
seq_empty = Const('seq_empty', V)
snoc = Function('snoc', V, V, V)
append = Function('append', V, V, V)
take = Function('take', V, INT, V)
drop = Function('drop', V, INT, V)
upd = Function('upd', V, INT, V, V)
slice_to = Function('slice_to', V, INT, V)      # s[:n] with Python's clamping
slice_from = Function('slice_from', V, INT, V)  # s[n:]
SeqEq = Function('SeqEq', V, V, BOOL)
seq_remove = Function('seq_remove', V, V, V)   # remove the (unique) occurrence
nodup = Function('nodup', V, BOOL)
restrict = Function('restrict', V, V, V)    # order-preserving subsequence of a seq: the elements that are keys of a map

# maps
has = Function('has', V, V, BOOL)
get = Function('get', V, V, V)
map_empty = Const('map_empty', V)
put = Function('put', V, V, V, V)
rem = Function('rem', V, V, V)
keys = Function('keys', V, V)              # Seq of keys in insertion order
MapEq = Function('MapEq', V, V, BOOL)
mupdate = Function('mupdate', V, V, V)     # dict.update(other)
MapEqv = Function('MapEqv', V, V, BOOL)    # same keys and values, key order ignored

# sets
smem = Function('smem', V, V, BOOL)
set_empty = Const('set_empty', V)
sadd = Function('sadd', V, V, V)
sunion = Function('sunion', V, V, V)
sinter = Function('sinter', V, V, V)
sdiff = Function('sdiff', V, V, V)
SetEq = Function('SetEq', V, V, BOOL)
set_of_seq = Function('set_of_seq', V, V)
elems = Function('elems', V, V)            # some duplicate-free enumeration of a set
scard = Function('scard', V, INT)

# strings (uninterpreted apart from a few facts)
sconcat = Function('sconcat', V, V, V)
startswith = Function('startswith', V, V, BOOL)
str_of = Function('str_of', V, V)
contains_str = Function('contains_str', V, V, BOOL)


def axioms():
    s, t, x, y, m, m2, k, k2, v = Consts('s t x y m m2 k k2 v', V)
    i, j, n = Ints('i j n')
    b = Const('b', BOOL)
    A = []

    def ax(name, body):
        A.append((name, body))

    # --- boxing / tags
    ax('unI_I', ForAll([i], unI(I(i)) == i, patterns=[I(i)]))
    ax('I_unI', ForAll([x], Implies(tag(x) == TAG_INT, I(unI(x)) == x), patterns=[unI(x)]))
    ax('tag_I', ForAll([i], tag(I(i)) == TAG_INT, patterns=[I(i)]))
    ax('unB_B', ForAll([b], unB(Bx(b)) == b, patterns=[Bx(b)]))
    ax('B_unB', ForAll([x], Implies(tag(x) == TAG_BOOL, Bx(unB(x)) == x), patterns=[unB(x)]))
    ax('tag_B', ForAll([b], tag(Bx(b)) == TAG_BOOL, patterns=[Bx(b)]))
    ax('unB_none', Not(unB(none)))        # bool(None) is False: a Bool-typed result that is None at run time reads as False
    ax('tag_none', tag(none) == TAG_NONE)
    # truthiness of a value of unknown static type: by run-time kind (strings and objects: unconstrained)
    ax('alen_nonneg', ForAll([x], alen(x) >= 0, patterns=[alen(x)]))
    ax('alen_seq', ForAll([x], Implies(tag(x) == TAG_SEQ, alen(x) == slen(x)), patterns=[alen(x)]))
    ax('alen_map', ForAll([x], Implies(tag(x) == TAG_MAP, alen(x) == slen(keys(x))), patterns=[alen(x)]))
    ax('alen_set', ForAll([x], Implies(tag(x) == TAG_SET, alen(x) == slen(elems(x))), patterns=[alen(x)]))
    ax('truth_none', Not(truth(none)))
    ax('truth_bool', ForAll([x], Implies(tag(x) == TAG_BOOL, truth(x) == unB(x)), patterns=[truth(x)]))
    ax('truth_int', ForAll([x], Implies(tag(x) == TAG_INT, truth(x) == (unI(x) != 0)), patterns=[truth(x)]))
    ax('truth_seq', ForAll([x], Implies(tag(x) == TAG_SEQ, truth(x) == (slen(x) > 0)), patterns=[truth(x)]))
    ax('truth_map', ForAll([x], Implies(tag(x) == TAG_MAP, truth(x) == (slen(keys(x)) > 0)), patterns=[truth(x)]))
    ax('truth_set', ForAll([x], Implies(tag(x) == TAG_SET, truth(x) == (slen(elems(x)) > 0)), patterns=[truth(x)]))
    ax('tag_none_inv', ForAll([x], Implies(tag(x) == TAG_NONE, x == none), patterns=[tag(x)]))

    # --- sequences
    ax('len_nonneg', ForAll([s], slen(s) >= 0, patterns=[slen(s)]))
    ax('empty_len', slen(seq_empty) == 0)
    ax('empty_tag', tag(seq_empty) == TAG_SEQ)
    ax('len0_empty', ForAll([s], Implies(And(tag(s) == TAG_SEQ, slen(s) == 0), s == seq_empty),
                            patterns=[slen(s)]))
    ax('mem_empty', ForAll([s, x], Implies(slen(s) == 0, Not(mem(s, x))), patterns=[mem(s, x)]))
    ax('at_mem', ForAll([s, i], Implies(And(0 <= i, i < slen(s)), mem(s, at(s, i))), patterns=[at(s, i)]))
    ax('mem_idx', ForAll([s, x], Implies(mem(s, x),
                                         And(0 <= idx(s, x), idx(s, x) < slen(s), at(s, idx(s, x)) == x)),
                         patterns=[mem(s, x)]))
    ax('snoc_tag', ForAll([s, x], tag(snoc(s, x)) == TAG_SEQ, patterns=[snoc(s, x)]))
    ax('snoc_len', ForAll([s, x], slen(snoc(s, x)) == slen(s) + 1, patterns=[snoc(s, x)]))
    ax('snoc_at', ForAll([s, x, i], Implies(And(0 <= i, i < slen(s)), at(snoc(s, x), i) == at(s, i)),
                         patterns=[at(snoc(s, x), i)]))
    ax('snoc_at_last', ForAll([s, x, i], Implies(i == slen(s), at(snoc(s, x), i) == x), patterns=[at(snoc(s, x), i)]))
    ax('snoc_last', ForAll([s, x], at(snoc(s, x), slen(s)) == x, patterns=[snoc(s, x)]))
    ax('snoc_mem', ForAll([s, x, y], mem(snoc(s, x), y) == Or(y == x, mem(s, y)),
                          patterns=[mem(snoc(s, x), y)]))
    ax('snoc_mem2', ForAll([s, x, y], Implies(mem(s, y), mem(snoc(s, x), y)),
                           patterns=[MultiPattern(snoc(s, x), mem(s, y))]))
    ax('append_tag', ForAll([s, t], tag(append(s, t)) == TAG_SEQ, patterns=[append(s, t)]))
    ax('append_len', ForAll([s, t], slen(append(s, t)) == slen(s) + slen(t), patterns=[append(s, t)]))
    ax('append_at1', ForAll([s, t, i], Implies(And(0 <= i, i < slen(s)), at(append(s, t), i) == at(s, i)),
                            patterns=[at(append(s, t), i)]))
    ax('append_at2', ForAll([s, t, i], Implies(And(slen(s) <= i, i < slen(s) + slen(t)),
                                               at(append(s, t), i) == at(t, i - slen(s))),
                            patterns=[at(append(s, t), i)]))
    ax('append_mem', ForAll([s, t, x], mem(append(s, t), x) == Or(mem(s, x), mem(t, x)),
                            patterns=[mem(append(s, t), x)]))
    ax('append_mem2', ForAll([s, t, x], Implies(Or(mem(s, x), mem(t, x)), mem(append(s, t), x)),
                             patterns=[MultiPattern(append(s, t), mem(s, x)), MultiPattern(append(s, t), mem(t, x))]))
    ax('append_single', ForAll([s, x], Implies(tag(s) == TAG_SEQ, append(s, snoc(seq_empty, x)) == snoc(s, x)),
                               patterns=[append(s, snoc(seq_empty, x))]))
    ax('append_empty', ForAll([s], Implies(tag(s) == TAG_SEQ, append(s, seq_empty) == s),
                              patterns=[append(s, seq_empty)]))
    ax('take_tag', ForAll([s, n], tag(take(s, n)) == TAG_SEQ, patterns=[take(s, n)]))
    ax('take_len', ForAll([s, n], Implies(And(0 <= n, n <= slen(s)), slen(take(s, n)) == n),
                          patterns=[take(s, n)]))
    ax('take_at', ForAll([s, n, i], Implies(And(0 <= i, i < n, n <= slen(s)), at(take(s, n), i) == at(s, i)),
                         patterns=[at(take(s, n), i)]))
    ax('take_mem', ForAll([s, n, x], Implies(And(0 <= n, n <= slen(s), mem(take(s, n), x)), mem(s, x)),
                          patterns=[mem(take(s, n), x)]))
    ax('take_all', ForAll([s], Implies(tag(s) == TAG_SEQ, take(s, slen(s)) == s), patterns=[take(s, slen(s))]))
    ax('take_full', ForAll([s, n], Implies(And(tag(s) == TAG_SEQ, n == slen(s)), take(s, n) == s), patterns=[take(s, n)]))
    ax('take_snoc', ForAll([s, x], Implies(tag(s) == TAG_SEQ, take(snoc(s, x), slen(s)) == s),
                           patterns=[take(snoc(s, x), slen(s))]))
    ax('take_take', ForAll([s, n, i], Implies(And(0 <= i, i <= n, n <= slen(s)), take(take(s, n), i) == take(s, i)),
                           patterns=[take(take(s, n), i)]))
    ax('slice_to_def', ForAll([s, n], slice_to(s, n) == take(s, If(If(n < 0, slen(s) + n, n) < 0, 0,
                                                                 If(If(n < 0, slen(s) + n, n) > slen(s), slen(s),
                                                                    If(n < 0, slen(s) + n, n)))),
                              patterns=[slice_to(s, n)]))
    ax('slice_from_def', ForAll([s, n], slice_from(s, n) == drop(s, If(If(n < 0, slen(s) + n, n) < 0, 0,
                                                                   If(If(n < 0, slen(s) + n, n) > slen(s), slen(s),
                                                                      If(n < 0, slen(s) + n, n)))),
                                patterns=[slice_from(s, n)]))
    ax('drop_tag', ForAll([s, n], tag(drop(s, n)) == TAG_SEQ, patterns=[drop(s, n)]))
    ax('drop_len', ForAll([s, n], Implies(And(0 <= n, n <= slen(s)), slen(drop(s, n)) == slen(s) - n),
                          patterns=[drop(s, n)]))
    ax('drop_at', ForAll([s, n, i], Implies(And(0 <= n, 0 <= i, i < slen(s) - n), at(drop(s, n), i) == at(s, i + n)),
                         patterns=[at(drop(s, n), i)]))
    # reverse direction (an element of s seen through an existing slice of s): lets a quantified fact about s[a:b] be
    # instantiated from an element of s
    ax('take_at_rev', ForAll([s, n, i], Implies(And(0 <= i, i < n, n <= slen(s)), at(take(s, n), i) == at(s, i)),
                             patterns=[MultiPattern(take(s, n), at(s, i))]))
    ax('drop_at_rev', ForAll([s, n, i], Implies(And(0 <= n, n <= i, i < slen(s)), at(drop(s, n), i - n) == at(s, i)),
                             patterns=[MultiPattern(drop(s, n), at(s, i))]))
    ax('drop_mem', ForAll([s, n, x], Implies(And(0 <= n, n <= slen(s), mem(drop(s, n), x)), mem(s, x)),
                          patterns=[mem(drop(s, n), x)]))
    ax('drop0', ForAll([s], Implies(tag(s) == TAG_SEQ, drop(s, 0) == s), patterns=[drop(s, 0)]))
    ax('drop1_mem', ForAll([s, y], Implies(slen(s) > 0, mem(s, y) == Or(y == at(s, 0), mem(drop(s, 1), y))),
                           patterns=[mem(drop(s, 1), y), MultiPattern(mem(s, y), drop(s, 1))]))
    ax('take_last_mem', ForAll([s, y], Implies(slen(s) > 0,
                                               mem(s, y) == Or(y == at(s, slen(s) - 1), mem(take(s, slen(s) - 1), y))),
                               patterns=[mem(take(s, slen(s) - 1), y), MultiPattern(mem(s, y), take(s, slen(s) - 1))]))
    ax('upd_tag', ForAll([s, i, x], tag(upd(s, i, x)) == TAG_SEQ, patterns=[upd(s, i, x)]))
    ax('upd_len', ForAll([s, i, x], slen(upd(s, i, x)) == slen(s), patterns=[upd(s, i, x)]))
    ax('upd_at', ForAll([s, i, x, j], Implies(And(0 <= j, j < slen(s)),
                                              at(upd(s, i, x), j) == If(i == j, x, at(s, j))),
                        patterns=[at(upd(s, i, x), j)]))
    ax('seqeq_def', ForAll([s, t], SeqEq(s, t) == And(slen(s) == slen(t),
                                                      ForAll([i], Implies(And(0 <= i, i < slen(s)), at(s, i) == at(t, i)),
                                                             patterns=[at(s, i), at(t, i)])),
                           patterns=[SeqEq(s, t)]))
    ax('seqeq_ext', ForAll([s, t], Implies(And(SeqEq(s, t), tag(s) == TAG_SEQ, tag(t) == TAG_SEQ), s == t),
                           patterns=[SeqEq(s, t)]))
    ax('nodup_def', ForAll([s], nodup(s) == ForAll([i, j], Implies(And(0 <= i, i < j, j < slen(s)), at(s, i) != at(s, j)),
                                                   patterns=[MultiPattern(at(s, i), at(s, j))]),
                           patterns=[nodup(s)]))
    ax('nodup_snoc', ForAll([s, x], nodup(snoc(s, x)) == And(nodup(s), Not(mem(s, x))), patterns=[nodup(snoc(s, x))]))
    ax('nodup_empty', nodup(seq_empty))
    ax('remove_tag', ForAll([s, x], tag(seq_remove(s, x)) == TAG_SEQ, patterns=[seq_remove(s, x)]))
    ax('remove_mem', ForAll([s, x, y], Implies(nodup(s), mem(seq_remove(s, x), y) == And(mem(s, y), y != x)),
                            patterns=[mem(seq_remove(s, x), y)]))
    ax('remove_nodup', ForAll([s, x], Implies(nodup(s), nodup(seq_remove(s, x))), patterns=[seq_remove(s, x)]))
    ax('remove_len', ForAll([s, x], Implies(nodup(s), slen(seq_remove(s, x)) == slen(s) - If(mem(s, x), 1, 0)),
                            patterns=[seq_remove(s, x)]))
    # order preservation of remove: positions before idx keep, after shift by one
    ax('remove_at', ForAll([s, x, i], Implies(And(nodup(s), mem(s, x), 0 <= i, i < slen(s) - 1),
                                              at(seq_remove(s, x), i) == If(i < idx(s, x), at(s, i), at(s, i + 1))),
                           patterns=[at(seq_remove(s, x), i)]))
    ax('remove_absent', ForAll([s, x], Implies(And(tag(s) == TAG_SEQ, Not(mem(s, x))), seq_remove(s, x) == s),
                               patterns=[seq_remove(s, x)]))

    # --- maps
    ax('mapempty_tag', tag(map_empty) == TAG_MAP)
    ax('mapempty_has', ForAll([k], Not(has(map_empty, k)), patterns=[has(map_empty, k)]))
    ax('mapempty_keys', keys(map_empty) == seq_empty)
    ax('put_tag', ForAll([m, k, v], tag(put(m, k, v)) == TAG_MAP, patterns=[put(m, k, v)]))
    ax('put_has', ForAll([m, k, v, k2], has(put(m, k, v), k2) == Or(k2 == k, has(m, k2)),
                         patterns=[has(put(m, k, v), k2)]))
    ax('put_has2', ForAll([m, k, v, k2], Implies(has(m, k2), has(put(m, k, v), k2)),
                          patterns=[MultiPattern(put(m, k, v), has(m, k2))]))
    ax('put_get', ForAll([m, k, v, k2], get(put(m, k, v), k2) == If(k2 == k, v, get(m, k2)),
                         patterns=[get(put(m, k, v), k2)]))
    ax('put_self', ForAll([m, k, v], And(has(put(m, k, v), k), get(put(m, k, v), k) == v), patterns=[put(m, k, v)]))
    ax('put_keys', ForAll([m, k, v], keys(put(m, k, v)) == If(has(m, k), keys(m), snoc(keys(m), k)),
                          patterns=[keys(put(m, k, v))]))
    ax('rem_tag', ForAll([m, k], tag(rem(m, k)) == TAG_MAP, patterns=[rem(m, k)]))
    ax('rem_has', ForAll([m, k, k2], has(rem(m, k), k2) == And(k2 != k, has(m, k2)), patterns=[has(rem(m, k), k2)]))
    ax('rem_get', ForAll([m, k, k2], Implies(k2 != k, get(rem(m, k), k2) == get(m, k2)),
                         patterns=[get(rem(m, k), k2)]))
    ax('rem_keys', ForAll([m, k], keys(rem(m, k)) == seq_remove(keys(m), k), patterns=[keys(rem(m, k))]))
    ax('keys_tag', ForAll([m], tag(keys(m)) == TAG_SEQ, patterns=[keys(m)]))
    ax('keys_mem', ForAll([m, k], mem(keys(m), k) == has(m, k), patterns=[mem(keys(m), k)]))
    ax('keys_mem2', ForAll([m, k], Implies(has(m, k), mem(keys(m), k)), patterns=[MultiPattern(has(m, k), keys(m))]))
    ax('keys_nodup', ForAll([m], nodup(keys(m)), patterns=[keys(m)]))
    ax('mapeq_def', ForAll([m, m2], MapEq(m, m2) == And(
        ForAll([k], has(m, k) == has(m2, k), patterns=[has(m, k), has(m2, k)]),
        ForAll([k], Implies(has(m, k), get(m, k) == get(m2, k)), patterns=[get(m, k), get(m2, k)]),
        SeqEq(keys(m), keys(m2))), patterns=[MapEq(m, m2)]))
    ax('mapeq_ext', ForAll([m, m2], Implies(And(MapEq(m, m2), tag(m) == TAG_MAP, tag(m2) == TAG_MAP), m == m2),
                           patterns=[MapEq(m, m2)]))
    ax('mapeqv_def', ForAll([m, m2], MapEqv(m, m2) == And(
        ForAll([k], has(m, k) == has(m2, k), patterns=[has(m, k), has(m2, k)]),
        ForAll([k], Implies(has(m, k), get(m, k) == get(m2, k)), patterns=[get(m, k), get(m2, k)])),
        patterns=[MapEqv(m, m2)]))
    ax('map_len0_empty', ForAll([m], Implies(And(tag(m) == TAG_MAP, slen(keys(m)) == 0), m == map_empty),
                                patterns=[keys(m)]))
    ax('mupdate_empty', ForAll([m], Implies(tag(m) == TAG_MAP, mupdate(m, map_empty) == m),
                               patterns=[mupdate(m, map_empty)]))
    ax('restrict_tag', ForAll([s, m], tag(restrict(s, m)) == TAG_SEQ, patterns=[restrict(s, m)]))
    ax('restrict_mem', ForAll([s, m, x], mem(restrict(s, m), x) == And(mem(s, x), has(m, x)),
                              patterns=[mem(restrict(s, m), x)]))
    ax('restrict_nodup', ForAll([s, m], Implies(nodup(s), nodup(restrict(s, m))), patterns=[restrict(s, m)]))
    ax('restrict_order', ForAll([s, m, i, j], Implies(And(nodup(s), 0 <= i, i < j, j < slen(restrict(s, m))),
                                                      idx(s, at(restrict(s, m), i)) < idx(s, at(restrict(s, m), j))),
                                patterns=[MultiPattern(at(restrict(s, m), i), at(restrict(s, m), j))]))
    ax('restrict_ext', ForAll([s, m, m2], Implies(ForAll([x], Implies(mem(s, x), has(m, x) == has(m2, x))),
                                                  restrict(s, m) == restrict(s, m2)),
                              patterns=[MultiPattern(restrict(s, m), restrict(s, m2))]))
    ax('restrict_all', ForAll([s, m], Implies(And(tag(s) == TAG_SEQ, ForAll([x], Implies(mem(s, x), has(m, x)))),
                                              restrict(s, m) == s), patterns=[restrict(s, m)]))
    ax('mupdate_tag', ForAll([m, m2], tag(mupdate(m, m2)) == TAG_MAP, patterns=[mupdate(m, m2)]))
    ax('mupdate_has', ForAll([m, m2, k], has(mupdate(m, m2), k) == Or(has(m, k), has(m2, k)),
                             patterns=[has(mupdate(m, m2), k)]))
    ax('mupdate_has2', ForAll([m, m2, k], Implies(Or(has(m, k), has(m2, k)), has(mupdate(m, m2), k)),
                              patterns=[MultiPattern(mupdate(m, m2), has(m, k)), MultiPattern(mupdate(m, m2), has(m2, k))]))
    ax('mupdate_get', ForAll([m, m2, k], get(mupdate(m, m2), k) == If(has(m2, k), get(m2, k), get(m, k)),
                             patterns=[get(mupdate(m, m2), k)]))

    # --- sets
    ax('setempty_tag', tag(set_empty) == TAG_SET)
    ax('setempty_mem', ForAll([x], Not(smem(set_empty, x)), patterns=[smem(set_empty, x)]))
    ax('sadd_tag', ForAll([s, x], tag(sadd(s, x)) == TAG_SET, patterns=[sadd(s, x)]))
    ax('sadd_mem', ForAll([s, x, y], smem(sadd(s, x), y) == Or(y == x, smem(s, y)), patterns=[smem(sadd(s, x), y)]))
    ax('sadd_mem2', ForAll([s, x, y], Implies(smem(s, y), smem(sadd(s, x), y)),
                           patterns=[MultiPattern(sadd(s, x), smem(s, y))]))
    ax('sadd_self', ForAll([s, x], smem(sadd(s, x), x), patterns=[sadd(s, x)]))
    ax('sunion_tag', ForAll([s, t], tag(sunion(s, t)) == TAG_SET, patterns=[sunion(s, t)]))
    ax('sunion_mem', ForAll([s, t, x], smem(sunion(s, t), x) == Or(smem(s, x), smem(t, x)),
                            patterns=[smem(sunion(s, t), x)]))
    ax('sunion_mem2', ForAll([s, t, x], Implies(Or(smem(s, x), smem(t, x)), smem(sunion(s, t), x)),
                             patterns=[MultiPattern(sunion(s, t), smem(s, x)), MultiPattern(sunion(s, t), smem(t, x))]))
    ax('sinter_tag', ForAll([s, t], tag(sinter(s, t)) == TAG_SET, patterns=[sinter(s, t)]))
    ax('sinter_mem', ForAll([s, t, x], smem(sinter(s, t), x) == And(smem(s, x), smem(t, x)),
                            patterns=[smem(sinter(s, t), x)]))
    ax('sinter_mem2', ForAll([s, t, x], Implies(And(smem(s, x), smem(t, x)), smem(sinter(s, t), x)),
                             patterns=[MultiPattern(sinter(s, t), smem(s, x), smem(t, x))]))
    ax('sdiff_tag', ForAll([s, t], tag(sdiff(s, t)) == TAG_SET, patterns=[sdiff(s, t)]))
    ax('sdiff_mem', ForAll([s, t, x], smem(sdiff(s, t), x) == And(smem(s, x), Not(smem(t, x))),
                           patterns=[smem(sdiff(s, t), x)]))
    ax('seteq_def', ForAll([s, t], SetEq(s, t) == ForAll([x], smem(s, x) == smem(t, x),
                                                         patterns=[smem(s, x), smem(t, x)]),
                           patterns=[SetEq(s, t)]))
    ax('seteq_ext', ForAll([s, t], Implies(And(SetEq(s, t), tag(s) == TAG_SET, tag(t) == TAG_SET), s == t),
                           patterns=[SetEq(s, t)]))
    ax('setofseq_tag', ForAll([s], tag(set_of_seq(s)) == TAG_SET, patterns=[set_of_seq(s)]))
    ax('setofseq_mem', ForAll([s, x], smem(set_of_seq(s), x) == mem(s, x), patterns=[smem(set_of_seq(s), x)]))
    ax('setofseq_mem2', ForAll([s, x], Implies(mem(s, x), smem(set_of_seq(s), x)),
                               patterns=[MultiPattern(set_of_seq(s), mem(s, x))]))
    ax('elems_tag', ForAll([s], tag(elems(s)) == TAG_SEQ, patterns=[elems(s)]))
    ax('elems_mem', ForAll([s, x], mem(elems(s), x) == smem(s, x), patterns=[mem(elems(s), x)]))
    ax('elems_mem2', ForAll([s, x], Implies(smem(s, x), mem(elems(s), x)), patterns=[MultiPattern(smem(s, x), elems(s))]))
    ax('elems_nodup', ForAll([s], nodup(elems(s)), patterns=[elems(s)]))
    ax('scard_def', ForAll([s], scard(s) == slen(elems(s)), patterns=[scard(s)]))

    # --- strings
    ax('concat_prefix', ForAll([s, t], startswith(sconcat(s, t), s), patterns=[sconcat(s, t)]))
    ax('concat_tag', ForAll([s, t], tag(sconcat(s, t)) == TAG_STR, patterns=[sconcat(s, t)]))
    ax('strof_tag', ForAll([s], tag(str_of(s)) == TAG_STR, patterns=[str_of(s)]))
    return A
