"""Discharging obligations: SMT-LIB2 text per obligation, z3 workers in a process pool, cvc5 as second opinion."""
import multiprocessing as mp
import os
import subprocess
import tempfile
import time
import z3


_SK = [0]


def skolemize_goal(goal):
    """a universally quantified goal is refuted on fresh constants; the instances of its triggers are asserted as harmless
    ground facts Trig(t), so that E-matching sees them whatever the SAT core considers relevant.  (forall x. phi is valid
    iff phi[c/x] is valid for fresh c.)"""
    extra = []
    g = goal
    while z3.is_quantifier(g) and g.is_forall():
        n = g.num_vars()
        _SK[0] += 1
        consts = [z3.Const('sk!%s!%d' % (g.var_name(i), _SK[0]), g.var_sort(i)) for i in range(n)]
        rev = list(reversed(consts))
        for pi in range(g.num_patterns()):
            for t in g.pattern(pi).children():
                tt = z3.substitute_vars(t, *rev)
                srt = tt.sort()
                f = z3.Function('Trig_%s' % str(srt).replace(' ', '_').replace('(', '_').replace(')', '_'), srt, z3.BoolSort())
                extra.append(f(tt))
        g = z3.substitute_vars(g.body(), *rev)
    return extra, g


def split_goal(goal, ghost_defs, max_leaves=16):
    """sub-goals whose conjunction is equivalent to `goal`: conjunctions are split, implications move their antecedent to
    the hypotheses, universal quantifiers are instantiated on fresh constants (with their trigger instances asserted), and a
    ghost predicate with a definition is replaced by its definition (twice at most).  Returns [(extra hypotheses, leaf)]."""
    leaves = []

    def go(g, hyps, depth):
        if len(leaves) > max_leaves:
            raise OverflowError
        if z3.is_and(g):
            for c in g.children():
                go(c, hyps, depth)
            return
        if z3.is_implies(g):
            go(g.arg(1), hyps + [g.arg(0)], depth)
            return
        if z3.is_quantifier(g) and g.is_forall():
            extra, body = skolemize_goal(g)
            go(body, hyps + extra, depth)
            return
        if z3.is_app(g) and g.decl().name() in ghost_defs and depth < 2 and g.sort() == z3.BoolSort():
            names, body = ghost_defs[g.decl().name()]
            inst = z3.substitute(body, *[(n, a) for n, a in zip(names, g.children())])
            go(inst, hyps, depth + 1)
            return
        leaves.append((hyps, g))

    try:
        go(goal, [], 0)
    except OverflowError:
        return [([], goal)]
    return leaves


def to_smt2(hyps, goal):
    s = z3.Solver()
    for h in hyps:
        s.add(h)
    extra, g = skolemize_goal(goal)
    for e in extra:
        s.add(e)
    s.add(z3.Not(g))
    return s.to_smt2()


def _z3_check(args):
    text, timeout_ms, seed = args
    t0 = time.time()
    try:
        ctx = z3.Context()
        s = z3.Solver(ctx=ctx)
        s.set('auto_config', False)
        s.set('smt.mbqi', False)
        s.set('timeout', timeout_ms)
        if seed:
            s.set('smt.random_seed', seed)
        s.from_string(text)
        r = s.check()
        reason = s.reason_unknown() if r == z3.unknown else ''
        if r == z3.unknown and 'incomplete' in reason and timeout_ms > 2000:
            # E-matching gave up without a refutation.  With the default relevancy filter, ground terms that occur only in
            # literals the SAT core considers irrelevant are not matched; retry with the weaker filter (an `unsat` answer
            # is a proof under either setting).
            model0 = ''
            try:
                model0 = str(s.model())[:20000]
            except Exception:
                pass
            s2 = z3.Solver(ctx=ctx)
            s2.set('auto_config', False)
            s2.set('smt.mbqi', False)
            s2.set('smt.relevancy', 1)
            s2.set('timeout', timeout_ms)
            s2.from_string(text)
            r2 = s2.check()
            if r2 == z3.unsat:
                return 'unsat', 'relevancy=1', time.time() - t0, ''
            return str(r), reason, time.time() - t0, model0
        model = ''
        if r == z3.sat or (r == z3.unknown and 'incomplete' in reason):
            try:
                model = str(s.model())[:20000]
            except Exception:
                model = ''
        return str(r), reason, time.time() - t0, model
    except Exception as e:  # pragma: no cover
        return 'error', repr(e), time.time() - t0, ''


def classify(res, reason):
    if res == 'unsat':
        return 'proved'
    if res == 'sat':
        return 'failed'
    if res == 'unknown':
        r = reason.lower()
        if 'timeout' in r or 'canceled' in r or 'resource' in r or 'memout' in r or 'max.' in r:
            return 'undecided'
        return 'failed'      # "(incomplete quantifiers)": the assertion might not hold
    return 'error'


_POOL = None


def pool():
    global _POOL
    if _POOL is None:
        n = int(os.environ.get('PYVC_JOBS', '0')) or min(16, os.cpu_count() or 4)
        _POOL = mp.get_context('fork').Pool(n)
    return _POOL


def discharge(items, timeout_ms=10000, cover_timeout_ms=1500):
    """items: list of (key, smt2 text, kind).  returns {key: dict(status, res, reason, secs, model)}"""
    jobs = []
    for key, text, kind in items:
        jobs.append((text, cover_timeout_ms if kind == 'cover' else timeout_ms, 0))
    outs = pool().map(_z3_check, jobs, chunksize=1) if jobs else []
    result = {}
    for (key, text, kind), (res, reason, secs, model) in zip(items, outs):
        if kind == 'cover':
            status = 'vacuous' if res == 'unsat' else 'ok'
        else:
            status = classify(res, reason)
        result[key] = dict(status=status, res=res, reason=reason, secs=secs, model=model, backend='z3-%s' % z3.get_version_string())
    return result


def cvc5_check(text, timeout_s=20):
    """second opinion with the cvc5 binary (E-matching on the same patterns)"""
    with tempfile.NamedTemporaryFile('w', suffix='.smt2', delete=False) as f:
        f.write('(set-logic ALL)\n' + text)
        path = f.name
    try:
        t0 = time.time()
        p = subprocess.run(['/usr/bin/cvc5', '--tlimit=%d' % (timeout_s * 1000), path],
                           capture_output=True, text=True, timeout=timeout_s + 5)
        out = (p.stdout or '').strip().split('\n')[0]
        return out, time.time() - t0
    except subprocess.TimeoutExpired:
        return 'timeout', timeout_s
    finally:
        os.unlink(path)


def _cvc5_job(args):
    text, timeout_s = args
    try:
        return cvc5_check(text, timeout_s)
    except Exception as e:      # cvc5 missing, temp dir not writable, ...: no opinion
        return 'error: %r' % (e,), 0.0


def cvc5_batch(items, timeout_s=10):
    """items: [(key, smt2 text)] -> {key: (answer, seconds)}; answers: unsat / sat / unknown / timeout / error..."""
    if not items or not os.path.exists('/usr/bin/cvc5'):
        return {k: ('unavailable', 0.0) for k, _ in items}
    outs = pool().map(_cvc5_job, [(t, timeout_s) for _, t in items], chunksize=1)
    return {k: o for (k, _), o in zip(items, outs)}
