"""Discharging obligations: SMT-LIB2 text per obligation, z3 workers in a process pool, cvc5 as second opinion."""
import multiprocessing as mp
import os
import subprocess
import tempfile
import time
import z3


def to_smt2(hyps, goal):
    s = z3.Solver()
    for h in hyps:
        s.add(h)
    s.add(z3.Not(goal))
    return s.to_smt2()


def _z3_check(args):
    text, timeout_ms, seed = args
    t0 = time.time()
    try:
        ctx = z3.Context()
        s = z3.Solver(ctx=ctx)
        s.set('auto_config', False)
        s.set('smt.mbqi', False)
        s.set('timeout', timeout_ms)
        if seed:
            s.set('smt.random_seed', seed)
        s.from_string(text)
        r = s.check()
        reason = s.reason_unknown() if r == z3.unknown else ''
        model = ''
        if r == z3.sat or (r == z3.unknown and 'incomplete' in reason):
            try:
                model = str(s.model())[:20000]
            except Exception:
                model = ''
        return str(r), reason, time.time() - t0, model
    except Exception as e:  # pragma: no cover
        return 'error', repr(e), time.time() - t0, ''


def classify(res, reason):
    if res == 'unsat':
        return 'proved'
    if res == 'sat':
        return 'failed'
    if res == 'unknown':
        r = reason.lower()
        if 'timeout' in r or 'canceled' in r or 'resource' in r or 'memout' in r or 'max.' in r:
            return 'undecided'
        return 'failed'      # "(incomplete quantifiers)": the assertion might not hold
    return 'error'


_POOL = None


def pool():
    global _POOL
    if _POOL is None:
        n = int(os.environ.get('PYVC_JOBS', '0')) or min(16, os.cpu_count() or 4)
        _POOL = mp.get_context('fork').Pool(n)
    return _POOL


def discharge(items, timeout_ms=10000, cover_timeout_ms=1500):
    """items: list of (key, smt2 text, kind).  returns {key: dict(status, res, reason, secs, model)}"""
    jobs = []
    for key, text, kind in items:
        jobs.append((text, cover_timeout_ms if kind == 'cover' else timeout_ms, 0))
    outs = pool().map(_z3_check, jobs, chunksize=1) if jobs else []
    result = {}
    for (key, text, kind), (res, reason, secs, model) in zip(items, outs):
        if kind == 'cover':
            status = 'vacuous' if res == 'unsat' else 'ok'
        else:
            status = classify(res, reason)
        result[key] = dict(status=status, res=res, reason=reason, secs=secs, model=model, backend='z3-%s' % z3.get_version_string())
    return result


def cvc5_check(text, timeout_s=20):
    """second opinion with the cvc5 binary (E-matching on the same patterns)"""
    with tempfile.NamedTemporaryFile('w', suffix='.smt2', delete=False) as f:
        f.write('(set-logic ALL)\n' + text)
        path = f.name
    try:
        t0 = time.time()
        p = subprocess.run(['/usr/bin/cvc5', '--tlimit=%d' % (timeout_s * 1000), path],
                           capture_output=True, text=True, timeout=timeout_s + 5)
        out = (p.stdout or '').strip().split('\n')[0]
        return out, time.time() - t0
    except subprocess.TimeoutExpired:
        return 'timeout', timeout_s
    finally:
        os.unlink(path)
