"""Call evaluation: spec forms, builtins, container methods, contract application."""
import ast
import z3

from . import prelude as P
from . import ty as T
from .ty import INT, BOOL, STR, NONE, ANY
from .symexec import SV, box, unbox, coerce, zsort, EngineError, Unsupported, simp_and, simp_not, State

MUTATORS = {'append', 'pop', 'extend', 'update', 'add', 'remove', 'insert', 'clear', 'discard', 'setdefault',
            'popitem', 'reverse', 'sort'}


def kwmap(node):
    return {k.arg: k.value for k in node.keywords}


def callee_text(f):
    try:
        return ast.unparse(f)
    except Exception:
        return ''


def site_call_obligations(fv, node, st):
    """site_call("callee", name, expr): obligation in the state just before the call, with arg0..argN / kw_<name> bound"""
    txt = callee_text(node.func)
    hits = [(n, e) for t, n, e in fv.c.site_calls if t == txt or txt.endswith('.' + t) or t == txt.split('.')[-1]]
    if not hits:
        return
    binds = {}
    for i, a in enumerate(node.args):
        binds['arg%d' % i] = fv.ev(a, st, False)
    for k in node.keywords:
        if k.arg:
            binds['kw_' + k.arg] = fv.ev(k.value, st, False)
    fv.bound_env.append(binds)
    try:
        for n, e in hits:
            g = fv.truthy(fv.ev(e, st, True))
            from .heap import site_ordinal
            fv.oblige(st, 'site[call %s@%s]/inv[%s]' % (txt, node.lineno - fv.fn.lineno if fv.fn else 0, n), g, node)
    finally:
        fv.bound_env.pop()


def site_return_obligations(fv, s, st, sv, pre=None):
    """site_return("<text of the returned expression>", name, expr): obligation in the state of each `return <text>`, with
    `value` bound to the returned value.  Once a contract has such clauses EVERY return statement of the function must be
    listed (a return of another form would bypass them): an unlisted one is a failed obligation."""
    if fv.c is None or not getattr(fv.c, 'site_returns', None) or fv.binders or fv.bound_env:
        return
    txt = ast.unparse(s.value) if s.value is not None else 'None'
    txt = ' '.join(txt.split())
    hits = [(n, e) for t, n, e in fv.c.site_returns if ' '.join(t.split()) == txt]
    if not hits:
        fv.oblige(st, 'site[return %s]/unlisted-return' % txt[:60], z3.BoolVal(False), s)
        return
    # vacuity guard: the return statement must be reachable under the assumptions collected so far (a proof of False here
    # means the clauses below hold for no execution at all)
    fv.oblige(pre if pre is not None else st, 'site[return %s]/cover' % txt[:60], z3.BoolVal(False), s, kind='cover')
    fv.bound_env.append({'value': sv})
    try:
        for n, e in hits:
            # a clause that does not mention `value` speaks about the state in which the return statement is reached
            # (before the returned expression -- possibly a call with effects -- is evaluated)
            uses_value = any(isinstance(x, ast.Name) and x.id == 'value' for x in ast.walk(e))
            at = st if (uses_value or pre is None) else pre
            g = fv.truthy(fv.ev(e, at, True))
            fv.oblige(at, 'site[return %s]/inv[%s]' % (txt[:60], n), g, s)
    finally:
        fv.bound_env.pop()


def eval_call(fv, node, st, spec):
    if not spec and fv.c is not None and fv.c.site_calls and not fv.binders and not fv.bound_env:
        site_call_obligations(fv, node, st)
    f = node.func
    if isinstance(f, ast.Name):
        name = f.id
        shadowed = name in st.env or any(name in d for d in fv.bound_env)
        if shadowed and fv.c is not None and name in fv.c.callables:
            return call_user(fv, fv.c.callables[name], node, st, spec)
        if not shadowed:
            h = SPEC_FORMS.get(name)
            if h is not None and (spec or name in ('implies',)):
                return h(fv, node, st)
            if name in fv.E.sc.ghosts:
                args = [fv.ev(a, st, spec) for a in node.args]
                return fv.ghost_app(name, args, st, node)
            if fv.c is not None and name in fv.c.opts.get('callables', {}):
                pass
            if name in fv.local_funcs or (fv.c and fv.E.find_contract(fv.qual + '.' + name)):
                return call_user(fv, fv.qual + '.' + name, node, st, spec, closure=True)
            for enc_q in enclosing_quals(fv):
                if fv.E.find_contract(enc_q + '.' + name):
                    return call_user(fv, enc_q + '.' + name, node, st, spec, closure=True)
            h = BUILTINS.get(name)
            if h is not None:
                return h(fv, node, st, spec)
            q = resolve_name(fv, name)
            if q is not None:
                return call_qual(fv, q, node, st, spec)
        fv.err(node, 'call of %s not resolvable' % name)
    if isinstance(f, ast.Subscript) and isinstance(f.value, ast.Name) and fv.module is not None:
        # table of constructors, e.g. COMPILERS[lang](args): contract "<module>.<TABLE>[]" (key, *args)
        q = fv.module.name + '.' + f.value.id + '[]'
        c = fv.E.find_contract(q)
        if c is None:
            fv.err(node, 'call through table %s needs a contract %s' % (f.value.id, q))
        fake = ast.copy_location(ast.Call(func=f.value, args=[f.slice] + list(node.args), keywords=node.keywords), node)
        return apply_contract(fv, c, fake, st, spec, None)
    if isinstance(f, ast.Attribute):
        # module function?
        if isinstance(f.value, ast.Name) and fv.module and f.value.id in fv.module.imports \
                and f.value.id not in st.env:
            q = fv.module.imports[f.value.id] + '.' + f.attr
            return call_qual(fv, q, node, st, spec)
        if isinstance(f.value, ast.Attribute) and isinstance(f.value.value, ast.Name) and fv.module \
                and f.value.value.id in fv.module.imports and f.value.value.id not in st.env:
            q = fv.module.imports[f.value.value.id] + '.' + f.value.attr + '.' + f.attr
            return call_qual(fv, q, node, st, spec)
        if isinstance(f.value, ast.Call) and isinstance(f.value.func, ast.Name) and f.value.func.id == 'super':
            return call_super(fv, node, st, spec)
        return call_method(fv, node, st, spec)
    fv.err(node, 'call form')


def enclosing_quals(fv):
    if not fv.qual:
        return []
    parts = fv.qual.split('.')
    # enclosing functions / classes only: the module itself is not a closure (a sibling module-level function called without
    # an optional argument gets the DEFAULT of that parameter, not the caller's local of the same name)
    mod = fv.module.name if fv.module is not None else None
    return [q for q in ('.'.join(parts[:i]) for i in range(len(parts) - 1, 1, -1))
            if mod is None or (q != mod and q.startswith(mod + '.'))]


def resolve_name(fv, name):
    if fv.module is None:
        return None
    m = fv.module
    if name in m.functions or name in m.classes:
        return m.name + '.' + name
    if name in m.imports:
        return m.imports[name]
    return None


def call_qual(fv, q, node, st, spec):
    c = fv.E.find_contract(q) or fv.E.find_contract('%s/%d' % (q, len(node.args) + len(node.keywords)))
    if c is not None:
        return apply_contract(fv, c, node, st, spec, None)
    # class constructor?
    cname = fv.E.fe.resolve(q, None, strict=False) or q.split('.')[-1]
    if cname in fv.E.fe.classes or fv.E.find_contract(q + '.__init__') or cname in fv.E.sc.classdecl:
        return construct(fv, q, cname, node, st, spec)
    fv.err(node, 'no contract for callee %s' % q)


def call_user(fv, q, node, st, spec, closure=False):
    c = fv.E.find_contract(q)
    if c is None:
        fv.err(node, 'no contract for %s' % q)
    return apply_contract(fv, c, node, st, spec, None, closure=closure)


def call_super(fv, node, st, spec):
    meth = node.func.attr
    for b in fv.E.fe.mro(fv.cls.key)[1:]:
        ci = fv.E.fe.classes[b]
        if meth in ci.methods:
            q = ci.module + '.' + ci.name + '.' + meth
            c = fv.E.sc.impl_contracts.get(q) or find_method_contract(fv, ci.key, meth)
            if c is None:
                fv.err(node, 'no contract for super().%s (%s)' % (meth, q))
            recv = st.env['self']
            return apply_contract(fv, c, node, st, spec, recv)
    fv.err(node, 'super().%s not found' % meth)


def find_method_contract(fv, cname, meth, exact=False):
    """contract of (class, method): exact contract of the defining class if present, else family contract
    of the nearest ancestor that declares one"""
    fe = fv.E.fe
    names = []
    for c in cname.split('|'):
        names.extend(fe.mro(c) if c in fe.classes else fv._decl_mro(c))
    for c in names:
        ci = fe.classes.get(c)
        quals = [(ci.module + '.' + ci.name) if ci else c, c]
        for qn in quals:
            k = fv.E.find_contract(qn + '.' + meth)
            if k is not None and (k.kind in ('family', 'external') or '|' not in cname):
                if k.kind == 'contract' and ci is not None and meth not in ci.methods:
                    continue
                return k
    return None


def receiver_family_contract(fv, cname, meth):
    """for a dynamically dispatched call x.m(): the family contract (must be satisfied by every override)"""
    fe = fv.E.fe
    fam = None
    names = []
    for c in cname.split('|'):
        names.extend(fe.mro(c) if c in fe.classes else fv._decl_mro(c))
    for c in names:
        ci = fe.classes.get(c)
        for qn in ([(ci.module + '.' + ci.name)] if ci else []) + [c]:
            k = fv.E.find_contract(qn + '.' + meth)
            if k is not None and k.kind in ('family', 'external'):
                return k
            if k is not None and fam is None:
                fam = k
    # no family: acceptable only if no subclass overrides the method
    if fam is not None:
        base = cname.split('|')[0]
        overrides = [s for s in fe.subclasses(base) if s != base and meth in fe.classes[s].methods] \
            if base in fe.classes else []
        defining = [c for c in fe.mro(base) if meth in fe.classes[c].methods][:1] if base in fe.classes else []
        if not overrides or fam.opts.get('final'):
            return fam
        raise Unsupported('call of %s.%s is dynamically dispatched (overrides: %s) but has no @family contract'
                          % (cname, meth, overrides))
    return None


# ---------------------------------------------------------------- contract application
def bind_args(fv, c, node, st, spec, recv, closure=False):
    params = list(c.params)
    vals = {}
    def arg(a):
        if isinstance(a, ast.Lambda):
            return SV(fv.E.fresh('lambda', ANY).term, ANY)
        if fv.in_slice() and not spec and not fv.binders:
            no = len(fv.obligations)
            try:
                return fv.ev(a, st, spec)
            except (Unsupported, EngineError) as e:
                # slice mode: an argument outside the subset is an arbitrary value (it may have called unknown code)
                del fv.obligations[no:]
                from .slicing import havoc_state, site_nodes
                if site_nodes(fv, ast.Expr(value=a)):
                    raise
                fv.abstracted.append(dict(line=a.lineno, stmt='argument ' + ast.unparse(a)[:90], reason=str(e)[:160]))
                havoc_state(fv, st, set())
                return fv.E.fresh('arg', ANY)
        return fv.ev(a, st, spec)
    pos = [arg(a) for a in node.args]
    if recv is not None:
        pos = [recv] + pos
    if len(pos) > len(params):
        fv.err(node, 'too many arguments for %s' % c.qual)
    for (pn, pt), v in zip(params, pos):
        vals[pn] = v
    for k in node.keywords:
        if k.arg is None:
            fv.err(node, '**kwargs')
        if k.arg not in [pn for pn, _ in params]:
            # a keyword the contract does not know changes the callee's behaviour in a way the contract cannot describe
            fv.err(node, 'keyword argument %s is not a parameter of the contract of %s' % (k.arg, c.qual))
        vals[k.arg] = arg(k.value)
    # defaults from the real definition
    missing = [pn for pn, _ in params if pn not in vals]
    if missing:
        defaults = callee_defaults(fv, c)
        for pn in missing:
            if closure and pn in st.env:
                vals[pn] = st.env[pn]
            elif pn in defaults:
                vals[pn] = fv.ev(defaults[pn], State(), True) if not isinstance(defaults[pn], SV) else defaults[pn]
            elif pn in fv.E.sc.contracts[c.qual].opts.get('ghost_params', '').split(','):
                continue
            else:
                fv.err(node, 'missing argument %s for %s' % (pn, c.qual))
    out = {}
    for pn, pt in params:
        if pn not in vals:
            continue
        v = vals[pn]
        if pt is not None:
            ty = fv.E.parse_ty(pt)
            if v.ty != ty:
                try:
                    v = coerce(v, ty)
                except EngineError:
                    fv.err(node, 'argument %s of %s: %r is not %r' % (pn, c.qual, v.ty, ty))
        out[pn] = v
    return out


def callee_defaults(fv, c):
    try:
        m, cls, fn, enc = fv.E.fe.find_function(c.opts.get('impl', c.qual))
    except KeyError:
        return {}
    args = fn.args
    names = [a.arg for a in args.args]
    d = {}
    for n, dv in zip(names[len(names) - len(args.defaults):], args.defaults):
        if isinstance(dv, ast.Lambda):
            d[n] = SV(z3.Const('default_lambda!%s!%s' % (c.qual, n), P.V), ANY)    # an opaque callable value
            continue
        d[n] = dv
    return d


def pure_symbol(fv, c):
    E = fv.E
    if c.qual in E.pure_syms:
        return E.pure_syms[c.qual]
    ptys = [E.parse_ty(pt) for _, pt in c.params]
    rty = E.parse_ty(c.ret)
    f = z3.Function('F_' + c.qual.replace('.', '_'), *([zsort(t) for t in ptys] + [zsort(rty)]))
    E.pure_syms[c.qual] = (f, ptys, rty)
    return E.pure_syms[c.qual]


def ensure_pure_axiom(fv, c, closure_env=None):
    """forall params. typed & requires ==> ensures[result := F(params)]"""
    E = fv.E
    key = c.qual
    if key in fv._local_pure_done:
        return
    fv._local_pure_done.add(key)
    f, ptys, rty = pure_symbol(fv, c)
    sub = type(fv)(E, c.qual, None, c, module=callee_module(fv, c))
    st = State()
    if closure_env:
        st.env.update(closure_env)
    vars_ = []
    tf = []
    for (pn, _), pty in zip(c.params, ptys):
        v = z3.Const('%s!p%d' % (pn, next(E.counter)), zsort(pty))
        vars_.append(v)
        st.env[pn] = SV(v, pty)
        t = sub.typed_fact(v, pty)
        if not z3.is_true(t):
            tf.append(t)
    app = f(*vars_)
    sub.old_state = st.copy()
    sub.result_sv = SV(app, rty)
    pre = [sub.truthy(sub.ev(e, st, True)) for _, e in c.requires]
    post = [sub.truthy(sub.ev(e, st, True)) for _, e in c.ensures]
    rt = sub.typed_fact(app, rty) if zsort(rty) == P.V else z3.BoolVal(True)
    body = z3.Implies(z3.And(*(tf + pre)) if (tf + pre) else z3.BoolVal(True),
                      z3.And(*(post + [rt] + sub.deep_facts(app, rty))))
    ax = z3.ForAll(vars_, body, patterns=[app]) if vars_ else body
    fv.local_axioms.append(ax)
    fv.local_axioms.extend(sub.local_axioms)


def callee_module(fv, c):
    try:
        m, cls, fn, enc = fv.E.fe.find_function(c.opts.get('impl', c.qual))
        return m
    except KeyError:
        return fv.module


def apply_contract(fv, c, node, st, spec, recv, closure=False):
    E = fv.E
    fv.used_contracts.add(c.qual)
    vals = bind_args(fv, c, node, st, spec, recv, closure)
    sub = type(fv)(E, c.qual, None, c, module=callee_module(fv, c))
    sub.binders = fv.binders
    sub.bound_env = fv.bound_env
    cst = State(dict(vals), st.heap, st.pc)
    if closure:
        # closure variables of nested functions are visible by name
        for k, v in st.env.items():
            cst.env.setdefault(k, v)
    for k, v in st.env.items():
        if k.startswith('glob:'):
            cst.env[k] = v
    sub.old_state = cst.copy()
    # preconditions
    if not spec:
        for pname, pe in c.requires:
            g = sub.truthy(sub.ev(pe, cst, True))
            if not fv.in_slice():
                fv.oblige(st, 'call[%s]/pre[%s]' % (c.qual.split('.')[-1], pname), g, node)
            if not fv.binders:
                fv.add_fact(st, g)
    fv.local_axioms.extend(sub.local_axioms)
    sub.local_axioms = []
    rty = E.parse_ty(c.ret) if c.ret else NONE
    if c.pure:
        ensure_pure_axiom(fv, c, closure_env={k: v for k, v in st.env.items()} if closure else None)
        f, ptys, rty = pure_symbol(fv, c)
        args = [coerce(vals[pn], pt).term for (pn, _), pt in zip(c.params, ptys)]
        app = f(*args)
        return SV(app, rty)
    if spec or fv.binders:
        fv.err(node, 'call of non-pure %s in a quantified/spec context' % c.qual)
    # the callee's frame must be within the caller's
    if fv.c is not None:
        mine = fv.modifies_keys(fv.c)
        for key in sorted(fv.modifies_keys(c)):
            if key not in mine and '*' not in mine:
                fv.oblige(st, 'frame[call %s modifies .%s]' % (c.qual.split('.')[-1], key), z3.BoolVal(False), node)
    # havoc what the callee may modify
    post = State(dict(cst.env), dict(st.heap), st.pc)
    for mname in c.modifies:
        havoc_target(fv, sub, mname, st, post, vals, closure)
    res = fv.fresh_typed(st, 'r_' + c.qual.split('.')[-1], rty)
    sub.result_sv = res
    if c.opts.get('allocates') or c.opts.get('slice') or contract_mentions(c, ('newobj', 'fresh', 'allocated')):
        from .heap import ALLOC0
        a0 = st.env['__alloc'].term if '__alloc' in st.env else ALLOC0
        if not z3.is_const(a0):
            named = z3.Const('alloc!%d' % next(E.counter), z3.ArraySort(P.V, z3.BoolSort()))
            fv.add_fact(st, named == a0)
            a0 = named
        a1 = z3.Const('alloc!%d' % next(E.counter), z3.ArraySort(P.V, z3.BoolSort()))
        o = z3.Const('o!al%d' % next(E.counter), P.V)
        fv.add_fact(st, z3.ForAll([o], z3.Implies(z3.Select(a0, o), z3.Select(a1, o)), patterns=[z3.Select(a0, o)]))
        sub.old_state.env['__alloc'] = SV(a0, ANY)
        post.env['__alloc'] = SV(a1, ANY)
        st.env['__alloc'] = SV(a1, ANY)
    for k in list(post.env):
        pass
    for ename, ee in c.ensures:
        g = sub.truthy(sub.ev(ee, post, True))
        fv.add_fact(st, g)
    fv.local_axioms.extend(sub.local_axioms)
    # propagate modified state back
    for mname in c.modifies:
        if mname.startswith('.'):
            continue
        gk = fv.global_key(mname) or sub.global_key(mname)
        pnames = [pn for pn, _ in c.params]
        if mname in post.env and closure and (gk is None or mname in st.env) and mname not in vals_from_args(c, node, recv):
            st.env[mname] = post.env[mname]
        elif mname in pnames and mname in post.env:
            # in-out parameter: the callee mutates the container passed by the caller (must be a plain variable)
            argnode = arg_node_for(c, node, recv, mname)
            if argnode is None and closure and mname in st.env:
                st.env[mname] = post.env[mname]
            elif isinstance(argnode, ast.Name):
                fv.bind(argnode.id, post.env[mname], st)
            else:
                fv.err(node, 'callee %s mutates its parameter %s: the argument must be a variable' % (c.qual, mname))
        elif gk is not None and ('glob:' + gk) in post.env:
            st.env['glob:' + gk] = post.env['glob:' + gk]
    if st.heap is not post.heap:
        changed = [k for k in post.heap if k not in st.heap or not st.heap[k].eq(post.heap[k])]
        if changed:
            st.heap = post.heap
            st.heap_version += 1
    if fv.in_slice() and c.opts.get('slice'):
        # the callee establishes the global invariants at its own sites: they hold again in the state after the call
        from .slicing import assume_global_invariants
        assume_global_invariants(fv, st)
    if c.opts.get('noreturn'):
        st.dead = True
        st.pc = z3.BoolVal(False)
    return res


def arg_node_for(c, node, recv, pname):
    pnames = [pn for pn, _ in c.params]
    if recv is not None:
        pnames = pnames[1:]
    if pname in pnames:
        i = pnames.index(pname)
        if i < len(node.args):
            return node.args[i]
    for k in node.keywords:
        if k.arg == pname:
            return k.value
    return None


def vals_from_args(c, node, recv):
    """names of the contract parameters that were passed explicitly at this call"""
    pnames = [pn for pn, _ in c.params]
    if recv is not None:
        pnames = pnames[1:]
    out = set(pnames[:len(node.args)])
    out.update(k.arg for k in node.keywords if k.arg)
    return out


def contract_mentions(c, names):
    key = '_mentions_' + '_'.join(names)
    if key not in c.opts:
        found = False
        for _, e in c.ensures + c.requires:
            for n in ast.walk(e):
                if isinstance(n, ast.Call) and isinstance(n.func, ast.Name) and n.func.id in names:
                    found = True
        c.opts[key] = found
    return c.opts[key]


def havoc_target(fv, sub, mname, st, post, vals, closure):
    E = fv.E
    if mname == '.*':
        frozen = set((fv.c.opts.get('immutable_fields', '') if fv.c else '').split(',')) | \
            set(sub.c.opts.get('immutable_fields', '').split(','))
        for attr in sorted(E.field_types):
            if attr in frozen:
                continue
            havoc_target(fv, sub, '.' + attr, st, post, vals, closure)
        return
    if mname.startswith('.'):
        attr = mname[1:].split('.')[-1]
        from .symexec import Contract_stub
        keys = fv.modifies_keys(Contract_stub([mname]))
        vs = [(k, t) for k, t in fv.field_variants(attr) if k in keys]
        if not vs:
            raise EngineError('modifies %s: undeclared field' % mname)
        # record objects built in this function that (syntactically) do not escape before the return statement cannot be
        # reached by the callee: their fields survive (same rule as for unknown callees, slicing.havoc_state); an unescaped
        # record is never an argument of the call, so this does not contradict the callee's frame
        keep = [st.env[n].term for n in sorted(getattr(fv, 'unescaped_records', ())) if n in st.env
                and st.env[n].ty.strip_opt().is_obj] if fv.in_slice() else []
        for key, fty in vs:
            old_arr = fv.heap_array(st, attr, fty)
            new_arr = z3.Const('H_%s!%d' % (key, next(E.counter)), z3.ArraySort(P.V, zsort(fty)))
            for o in keep:
                fv.add_fact(st, z3.Implies(o != P.none, z3.Select(new_arr, o) == z3.Select(old_arr, o)))
            post.heap[key] = new_arr
        return
    key = mname
    src = post.env
    if key not in src or not closure:
        gk = fv.global_key(mname) or sub.global_key(mname)
        if gk is not None:
            key = 'glob:' + gk
            if key not in src:
                src[key] = st.env[key] if key in st.env else (fv.global_value(mname, st) or sub.global_value(mname, st))
        elif key not in src:
            raise EngineError('modifies %s: not a visible variable' % mname)
    old = src[key]
    nv = fv.fresh_typed(st, mname.replace(':', '_'), old.ty)
    post.env[key] = nv


def construct(fv, q, cname, node, st, spec):
    from .heap import allocate
    return allocate(fv, q, cname, node, st, spec)


# ---------------------------------------------------------------- spec forms
def sf_forall(fv, node, st):
    return fv.quantifier(node, st, True)


def sf_exists(fv, node, st):
    return fv.quantifier(node, st, False)


def sf_implies(fv, node, st):
    a = fv.truthy(fv.ev(node.args[0], st, True))
    b = fv.truthy(fv.ev(node.args[1], st, True))
    return SV(z3.Implies(a, b), BOOL)


def sf_iff(fv, node, st):
    a = fv.truthy(fv.ev(node.args[0], st, True))
    b = fv.truthy(fv.ev(node.args[1], st, True))
    return SV(a == b, BOOL)


def sf_old(fv, node, st):
    return fv.ev_old(node.args[0], st)


def sf_keys(fv, node, st):
    m = fv.ev(node.args[0], st, True)
    return SV(P.keys(m.term), T.Seq(m.ty.strip_opt().args[0]))


def sf_seq_eq(fv, node, st):
    a, b = fv.ev(node.args[0], st, True), fv.ev(node.args[1], st, True)
    return SV(P.SeqEq(a.term, b.term), BOOL)


def sf_set_eq(fv, node, st):
    a, b = fv.ev(node.args[0], st, True), fv.ev(node.args[1], st, True)
    return SV(P.SetEq(a.term, b.term), BOOL)


def sf_map_eq(fv, node, st):
    a, b = fv.ev(node.args[0], st, True), fv.ev(node.args[1], st, True)
    return SV(P.MapEq(a.term, b.term), BOOL)


def sf_map_eqv(fv, node, st):
    a, b = fv.ev(node.args[0], st, True), fv.ev(node.args[1], st, True)
    return SV(P.MapEqv(a.term, b.term), BOOL)


def sf_same(fv, node, st):
    a, b = fv.ev(node.args[0], st, True), fv.ev(node.args[1], st, True)
    return SV(box(a) == box(b), BOOL)


def sf_nodup(fv, node, st):
    a = fv.ev(node.args[0], st, True)
    return SV(P.nodup(a.term), BOOL)


def sf_take(fv, node, st):
    a, n = fv.ev(node.args[0], st, True), fv.ev(node.args[1], st, True)
    return SV(P.take(a.term, coerce(n, INT).term), a.ty)


def sf_drop(fv, node, st):
    a, n = fv.ev(node.args[0], st, True), fv.ev(node.args[1], st, True)
    return SV(P.drop(a.term, coerce(n, INT).term), a.ty)


def sf_seq_remove(fv, node, st):
    a, x = fv.ev(node.args[0], st, True), fv.ev(node.args[1], st, True)
    return SV(P.seq_remove(a.term, box(x)), a.ty)


def sf_restrict(fv, node, st):
    a, m = fv.ev(node.args[0], st, True), fv.ev(node.args[1], st, True)
    return SV(P.restrict(a.term, m.term), a.ty)


def sf_index_of(fv, node, st):
    a, x = fv.ev(node.args[0], st, True), fv.ev(node.args[1], st, True)
    return SV(P.idx(a.term, box(x)), INT)


def sf_mupdate(fv, node, st):
    a, b = fv.ev(node.args[0], st, True), fv.ev(node.args[1], st, True)
    return SV(P.mupdate(a.term, b.term), a.ty)


def sf_put(fv, node, st):
    m, k, v = [fv.ev(a, st, True) for a in node.args]
    mt = m.ty.strip_opt()
    return SV(P.put(m.term, box(coerce(k, mt.args[0]) if not mt.args[0].is_any else k),
                    box(coerce(v, mt.args[1]) if not mt.args[1].is_any else v)), mt)


def sf_rem(fv, node, st):
    m, k = [fv.ev(a, st, True) for a in node.args]
    return SV(P.rem(m.term, box(k)), m.ty)


def sf_snoc(fv, node, st):
    s, x = [fv.ev(a, st, True) for a in node.args]
    return SV(P.snoc(s.term, box(x)), s.ty)


def sf_set_add(fv, node, st):
    s, x = [fv.ev(a, st, True) for a in node.args]
    ety = s.ty.args[0]
    return SV(P.sadd(s.term, box(coerce(x, ety) if not ety.is_any else x)), s.ty)


def sf_smem(fv, node, st):
    """smem(s, x): x is an element of the set s (identity of the stored value, not modulo __eq__)"""
    s, x = [fv.ev(a, st, True) for a in node.args]
    return SV(P.smem(s.term, box(x)), BOOL)


def sf_mem(fv, node, st):
    """mem(seq, x): x occurs in the sequence (identity of the stored value, not modulo __eq__)"""
    s, x = [fv.ev(a, st, True) for a in node.args]
    return SV(P.mem(s.term, box(x)), BOOL)


def sf_same_class(fv, node, st):
    a, b = [fv.ev(x, st, True) for x in node.args]
    return SV(P.cls(box(a)) == P.cls(box(b)), BOOL)


def sf_class_is(fv, node, st):
    """class_is(x, "Name"): the exact class of x"""
    x = fv.ev(node.args[0], st, True)
    return SV(P.cls(box(x)) == fv.E.class_id(fv.class_key(node.args[1].value)), BOOL)


def sf_set_of(fv, node, st):
    s = fv.ev(node.args[0], st, True)
    return SV(P.set_of_seq(s.term), T.Set(s.ty.elem()))


def sf_elems(fv, node, st):
    s = fv.ev(node.args[0], st, True)
    return SV(P.elems(s.term), T.Seq(s.ty.elem()))


def sf_empty_map(fv, node, st):
    return SV(P.map_empty, fv.E.parse_ty(node.args[0].value))


def sf_empty_seq(fv, node, st):
    return SV(P.seq_empty, fv.E.parse_ty(node.args[0].value))


def sf_empty_set(fv, node, st):
    return SV(P.set_empty, fv.E.parse_ty(node.args[0].value))


def sf_typed(fv, node, st):
    v = fv.ev(node.args[0], st, True)
    ty = fv.E.parse_ty(node.args[1].value)
    return SV(fv.typed_fact(box(v), ty), BOOL)


def sf_cast(fv, node, st):
    """cast(e, "Type"): static re-typing of a value (spec only); no run-time meaning"""
    v = fv.ev(node.args[0], st, True)
    ty = fv.E.parse_ty(node.args[1].value)
    if zsort(ty) != zsort(v.ty):
        return coerce(v, ty)
    return SV(v.term, ty)


def sf_isinstance(fv, node, st):
    return bi_isinstance(fv, node, st, True)


def sf_exceptional(fv, node, st):
    """exceptional(): this path went through an except handler of a try statement of the function (slice mode)"""
    v = st.env.get('__exc')
    return SV(v.term if v is not None else z3.BoolVal(False), BOOL)


def sf_truthy(fv, node, st):
    return SV(fv.truthy(fv.ev(node.args[0], st, True)), BOOL)


def sf_fresh(fv, node, st):
    from .heap import is_fresh
    v = fv.ev(node.args[0], st, True)
    return SV(is_fresh(fv, st, v), BOOL)


def sf_newobj(fv, node, st):
    """newobj(x): x was not allocated in the pre-state of this contract and is allocated now"""
    from .heap import ALLOC0
    v = fv.ev(node.args[0], st, True)
    pre = fv.old_state.env['__alloc'].term if (fv.old_state is not None and '__alloc' in fv.old_state.env) else ALLOC0
    cur = st.env['__alloc'].term if '__alloc' in st.env else ALLOC0
    return SV(z3.And(z3.Not(z3.Select(pre, box(v))), z3.Select(cur, box(v))), BOOL)


def sf_allocated_now(fv, node, st):
    from .heap import ALLOC0
    v = fv.ev(node.args[0], st, True)
    cur = st.env['__alloc'].term if '__alloc' in st.env else ALLOC0
    return SV(z3.Select(cur, box(v)), BOOL)


def sf_allocated(fv, node, st):
    from .heap import is_allocated_old
    v = fv.ev(node.args[0], st, True)
    return SV(is_allocated_old(fv, st, v), BOOL)


def sf_unchanged(fv, node, st):
    from .heap import unchanged
    return SV(unchanged(fv, node, st), BOOL)


def sf_ite(fv, node, st):
    c = fv.truthy(fv.ev(node.args[0], st, True))
    a, b = fv.ev(node.args[1], st, True), fv.ev(node.args[2], st, True)
    ty = T.join(a.ty, b.ty)
    return SV(z3.If(c, coerce(a, ty).term, coerce(b, ty).term), ty)


SPEC_FORMS = {
    'forall': sf_forall, 'exists': sf_exists, 'implies': sf_implies, 'iff': sf_iff, 'old': sf_old,
    'keys': sf_keys, 'seq_eq': sf_seq_eq, 'set_eq': sf_set_eq, 'map_eq': sf_map_eq, 'map_eqv': sf_map_eqv, 'same': sf_same,
    'nodup': sf_nodup, 'take': sf_take, 'drop': sf_drop, 'seq_remove': sf_seq_remove, 'index_of': sf_index_of, 'restrict': sf_restrict,
    'mupdate': sf_mupdate, 'put': sf_put, 'rem': sf_rem, 'snoc': sf_snoc, 'smem': sf_smem, 'mem': sf_mem, 'class_is': sf_class_is, 'same_class': sf_same_class, 'set_add': sf_set_add, 'set_of': sf_set_of, 'elems': sf_elems,
    'empty_map': sf_empty_map, 'empty_seq': sf_empty_seq, 'empty_set': sf_empty_set, 'typed': sf_typed,
    'cast': sf_cast, 'truthy': sf_truthy, 'exceptional': sf_exceptional, 'fresh': sf_fresh, 'newobj': sf_newobj, 'allocated': sf_allocated, 'allocated_now': sf_allocated_now,
    'unchanged': sf_unchanged, 'ite': sf_ite,
}


# ---------------------------------------------------------------- builtins
def bi_len(fv, node, st, spec):
    v = fv.ev(node.args[0], st, spec)
    t = v.ty
    if t.is_opt:
        fv.safety(st, 'none-deref', v.term != P.none, node, spec)
        t = t.strip_opt()
    if t.is_seq:
        return SV(P.slen(v.term), INT)
    if t.is_map:
        return SV(P.slen(P.keys(v.term)), INT)
    if t.is_set:
        return SV(P.slen(P.elems(v.term)), INT)
    if t.kind == 'str':
        f = z3.Function('strlen', P.V, z3.IntSort())
        return SV(f(v.term), INT)
    if t.is_any:
        return SV(P.alen(v.term), INT)
    fv.err(node, 'len of %r' % t)


def quant_over(fv, node, st, spec, is_all):
    arg = node.args[0]
    if isinstance(arg, (ast.GeneratorExp, ast.ListComp)):
        from .comps import quantify_comp
        return quantify_comp(fv, arg, st, spec, is_all)
    v = fv.ev(arg, st, spec)
    seq, ety = fv.iter_seq(v, node, st, spec)
    if not spec:
        fv.note_term(st, seq)
    i = z3.Int('i!q%d' % next(fv.E.counter))
    el = unbox(P.at(seq, i), ety)
    body = fv.truthy(el)
    rng = z3.And(0 <= i, i < P.slen(seq))
    if is_all:
        return SV(z3.ForAll([i], z3.Implies(rng, body), patterns=[P.at(seq, i)]), BOOL)
    return SV(z3.Exists([i], z3.And(rng, body)), BOOL)


def bi_any(fv, node, st, spec):
    return quant_over(fv, node, st, spec, False)


def bi_all(fv, node, st, spec):
    return quant_over(fv, node, st, spec, True)


def bi_set(fv, node, st, spec):
    if not node.args:
        return SV(P.set_empty, T.Set(ANY))
    v = fv.ev(node.args[0], st, spec)
    t = v.ty.strip_opt()
    if t.is_set:
        return SV(v.term, t)
    seq, ety = fv.iter_seq(v, node, st, spec)
    return SV(P.set_of_seq(seq), T.Set(ety))


def bi_list(fv, node, st, spec):
    if not node.args:
        return SV(P.seq_empty, T.Seq(ANY))
    v = fv.ev(node.args[0], st, spec)
    seq, ety = fv.iter_seq(v, node, st, spec)
    return SV(seq, T.Seq(ety))


def bi_tuple(fv, node, st, spec):
    if not node.args:
        return SV(P.seq_empty, T.Tuple(ANY))
    v = fv.ev(node.args[0], st, spec)
    seq, ety = fv.iter_seq(v, node, st, spec)
    return SV(seq, T.Tuple(ety))


def bi_dict(fv, node, st, spec):
    if not node.args:
        return SV(P.map_empty, T.Map(ANY, ANY))
    v = fv.ev(node.args[0], st, spec)
    t = v.ty
    if t.is_opt:
        fv.safety(st, 'none-deref', v.term != P.none, node, spec)
        t = t.strip_opt()
    if t.is_map:
        return SV(v.term, t)
    fv.err(node, 'dict() of %r' % t)


def bi_isinstance(fv, node, st, spec):
    v = fv.ev(node.args[0], st, spec)
    cn = node.args[1]
    if isinstance(cn, ast.Name) and fv.fn is not None and not (fv.module and (cn.id in fv.module.classes
                                                                              or cn.id in fv.module.imports)):
        # a local variable holding a tuple of classes: use its (unique) literal definition in this function
        defs = [n.value for n in ast.walk(fv.fn) if isinstance(n, ast.Assign) and len(n.targets) == 1
                and isinstance(n.targets[0], ast.Name) and n.targets[0].id == cn.id]
        if len(defs) == 1 and isinstance(defs[0], ast.Tuple):
            cn = defs[0]
        elif defs:
            fv.err(node, 'isinstance against a non-literal class tuple %s' % cn.id)
    names = []
    for e in (cn.elts if isinstance(cn, ast.Tuple) else [cn]):
        if isinstance(e, ast.Attribute) and isinstance(e.value, ast.Name):
            alias = e.value.id
            mod = fv.module.imports.get(alias) if (fv.module is not None and alias in fv.module.imports) else None
            names.append((mod.split('.')[-1] if mod else alias) + '.' + e.attr)
        else:
            names.append(e.id)
    vt = v.ty.strip_opt()
    if vt.kind in ('obj', 'any'):
        r = z3.And(P.tag(v.term) == P.TAG_OBJ, fv.isinstance_term(v.term, names))
        return SV(r, BOOL)
    if vt.kind == 'abs':
        # values of an abstract sort: class membership is an uninterpreted predicate per class
        rs = [z3.Function('isinst!' + n.split('.')[-1], P.V, z3.BoolSort())(v.term) for n in names]
        r = z3.And(v.term != P.none, z3.Or(*rs))
        return SV(r, BOOL)
    return SV(z3.BoolVal(False), BOOL)


def bi_min(fv, node, st, spec):
    if len(node.args) == 2:
        a, b = [coerce(fv.ev(x, st, spec), INT).term for x in node.args]
        return SV(z3.If(a <= b, a, b), INT)
    fv.err(node, 'min form')


def bi_max(fv, node, st, spec):
    if len(node.args) == 2:
        a, b = [coerce(fv.ev(x, st, spec), INT).term for x in node.args]
        return SV(z3.If(a >= b, a, b), INT)
    fv.err(node, 'max form')


def bi_str(fv, node, st, spec):
    v = fv.ev(node.args[0], st, spec)
    if v.ty.kind == 'str':
        return v
    return SV(P.str_of(box(v)), STR)


HASHFN = z3.Function('py_hash', P.V, z3.IntSort())


def bi_hash(fv, node, st, spec):
    """hash(x): an uninterpreted function of the value (the same value hashes alike; nothing else is known)"""
    v = fv.ev(node.args[0], st, spec)
    return SV(HASHFN(box(v)), INT)


def bi_print(fv, node, st, spec):
    for a in node.args:
        fv.ev(a, st, spec)
    fv.E.assumptions.add('print()/log() calls have no effect on tracked state')
    return SV(P.none, NONE)


def bi_bool(fv, node, st, spec):
    return SV(fv.truthy(fv.ev(node.args[0], st, spec)), BOOL)


def bi_copy(fv, node, st, spec):
    v = fv.ev(node.args[0], st, spec)
    if v.ty.strip_opt().kind in ('seq', 'map', 'set', 'tuple'):
        return v
    from .heap import deepcopy_obj
    return deepcopy_obj(fv, v, node, st, shallow=True)


def bi_deepcopy(fv, node, st, spec):
    v = fv.ev(node.args[0], st, spec)
    from .heap import deepcopy_obj
    return deepcopy_obj(fv, v, node, st, shallow=False)


def bi_hasattr(fv, node, st, spec):
    v = fv.ev(node.args[0], st, spec)
    attr = node.args[1].value
    # has a method/field of that name according to the class table
    fe = fv.E.fe
    names = [n for n, ci in fe.classes.items() if
             (fe.resolve_method(n, attr)[1] is not None or attr in fv.E.field_types and
              any(k in fv.E.field_types[attr] for k in fe.mro(n)))]
    r = z3.And(P.tag(v.term) == P.TAG_OBJ,
               z3.Or(*[P.cls(v.term) == fv.E.class_id(n) for n in names]) if names else z3.BoolVal(False))
    return SV(r, BOOL)


def bi_getattr(fv, node, st, spec):
    """getattr(obj, 'name'[, default]): an unknown value (it may be the attribute or the default); no side effect"""
    if spec or fv.binders or fv.bound_env:
        fv.err(node, 'getattr not supported in specifications')
    for a in node.args:
        fv.ev(a, st, spec)
    fv.E.assumptions.add('getattr(obj, name, default) has no side effect; its value is left unconstrained')
    return fv.E.fresh('getattr', ANY)


def bi_type(fv, node, st, spec):
    v = fv.ev(node.args[0], st, spec)
    if v.ty.strip_opt().is_obj:
        return SV(P.I(P.cls(box(v))), T.Abs('PyType'))     # class objects are represented by their class id
    f = z3.Function('type_of', P.V, P.V)
    return SV(f(box(v)), T.Abs('PyType'))


def bi_defaultdict(fv, node, st, spec):
    """defaultdict(list): a map whose missing keys read as the empty list"""
    if len(node.args) == 1 and isinstance(node.args[0], ast.Name) and node.args[0].id == 'list':
        return SV(P.map_empty, T.Ty('map', (ANY, T.Seq(ANY)), 'defaultlist'))
    fv.err(node, 'defaultdict form')


BUILTINS = {
    'defaultdict': bi_defaultdict,
    'len': bi_len, 'any': bi_any, 'all': bi_all, 'set': bi_set, 'list': bi_list, 'tuple': bi_tuple,
    'dict': bi_dict, 'OrderedDict': bi_dict, 'isinstance': bi_isinstance, 'min': bi_min, 'max': bi_max,
    'str': bi_str, 'hash': bi_hash, 'print': bi_print, 'bool': bi_bool, 'copy': bi_copy, 'deepcopy': bi_deepcopy,
    'hasattr': bi_hasattr, 'getattr': bi_getattr, 'type': bi_type,
}


# ---------------------------------------------------------------- methods
def call_method(fv, node, st, spec):
    f = node.func
    meth = f.attr
    recv = fv.ev(f.value, st, spec)
    rt = recv.ty
    if rt.is_opt and rt.strip_opt().kind != 'obj' or (rt.is_opt and True):
        if rt.is_opt:
            fv.safety(st, 'none-deref', recv.term != P.none, node, spec)
            rt = rt.strip_opt()
            recv = SV(recv.term, rt)
    if rt.is_seq:
        return seq_method(fv, node, st, spec, recv, meth)
    if rt.is_map:
        return map_method(fv, node, st, spec, recv, meth)
    if rt.is_set:
        return set_method(fv, node, st, spec, recv, meth)
    if rt.kind == 'str':
        return str_method(fv, node, st, spec, recv, meth)
    if rt.is_obj:
        c = receiver_family_contract(fv, rt.name, meth)
        if c is None:
            c = fv.E.find_contract('<any>.' + meth)
        if c is None:
            fv.err(node, 'no contract for method %s.%s' % (rt.name, meth))
        return apply_contract(fv, c, node, st, spec, recv)
    if rt.is_any and fv.E.find_contract('<any>.' + meth) is not None:
        # duck-typed call: a contract that every class providing this method is assumed to satisfy
        return apply_contract(fv, fv.E.find_contract('<any>.' + meth), node, st, spec, recv)
    if rt.is_any and meth in ('append', 'add') and len(node.args) == 1 and not node.keywords and not spec \
            and fv.in_slice() and not fv.binders and isinstance(node.func.value, ast.Name):
        # x.append(e) / x.add(e) on a local of unknown static type: afterwards x is some non-empty collection
        # (list / set / deque semantics; lists are values in this engine, aliases of x are not updated)
        a = node.args[0]
        no = len(fv.obligations)
        try:
            fv.ev(a, st, spec)
        except (Unsupported, EngineError) as e:
            del fv.obligations[no:]
            from .slicing import havoc_state, site_nodes
            if site_nodes(fv, ast.Expr(value=a)):
                raise
            fv.abstracted.append(dict(line=a.lineno, stmt='argument ' + ast.unparse(a)[:90], reason=str(e)[:160]))
            havoc_state(fv, st, set())
        nv = fv.E.fresh(node.func.value.id, ANY)
        fv.add_fact(st, P.truth(nv.term))
        fv.assign_into(node.func.value, nv, st)
        return SV(P.none, NONE)
    fv.err(node, 'method .%s on %r' % (meth, rt))


def store_back(fv, target_node, sv, st, spec, node):
    if spec:
        fv.err(node, 'mutation in spec context')
    if fv.binders:
        fv.err(node, 'mutation under binder')
    fv.assign_into(target_node, sv, st)


def seq_method(fv, node, st, spec, recv, meth):
    tgt = node.func.value
    s = recv.term
    ety = recv.ty.args[0]
    if meth == 'append':
        x = fv.ev_element(node.args[0], st, spec)
        nty = x.ty if ety.is_any else T.join(ety, x.ty)
        store_back(fv, tgt, SV(P.snoc(s, box(coerce(x, nty))), T.Seq(nty)), st, spec, node)
        return SV(P.none, NONE)
    if meth == 'extend':
        x = fv.ev(node.args[0], st, spec)
        seq, xty = fv.iter_seq(x, node, st, spec)
        nty = xty if ety.is_any else T.join(ety, xty)
        store_back(fv, tgt, SV(P.append(s, seq), T.Seq(nty)), st, spec, node)
        return SV(P.none, NONE)
    if meth == 'pop':
        fv.safety(st, 'index', P.slen(s) > 0, node, spec)
        if node.args:
            i = node.args[0]
            if not (isinstance(i, ast.Constant) and i.value == 0):
                fv.err(node, 'pop(i) only for i == 0')
            el = fv.extract(st, P.at(s, z3.IntVal(0)), ety)
            store_back(fv, tgt, SV(P.drop(s, z3.IntVal(1)), recv.ty), st, spec, node)
            return el
        el = fv.extract(st, P.at(s, P.slen(s) - 1), ety)
        store_back(fv, tgt, SV(P.take(s, P.slen(s) - 1), recv.ty), st, spec, node)
        return el
    if meth == 'copy':
        return recv
    if meth == 'index':
        x = fv.ev(node.args[0], st, spec)
        fv.safety(st, 'value', P.mem(s, box(x)), node, spec)
        fv.E.assumptions.add('list.index returns some index of the element (first occurrence not modelled)')
        return SV(P.idx(s, box(x)), INT)
    fv.err(node, 'list method %s' % meth)


def map_method(fv, node, st, spec, recv, meth):
    tgt = node.func.value
    m = recv.term
    kty, vty = recv.ty.args
    if meth == 'get':
        k = fv.ev(node.args[0], st, spec)
        kt = box(k)
        if len(node.args) > 1:
            d = fv.ev(node.args[1], st, spec)
        else:
            d = SV(P.none, NONE)
        rty = T.join(vty, d.ty) if not vty.is_any else (d.ty if not d.ty.is_none else ANY)
        val = P.get(m, kt)
        if zsort(rty) != P.V:
            # Int/Bool valued with same-typed default
            return SV(z3.If(P.has(m, kt), unbox(val, rty).term, coerce(d, rty).term), rty)
        res = SV(z3.If(P.has(m, kt), val, box(coerce(d, rty))), rty)
        tf = z3.Implies(P.has(m, kt), fv.typed_fact(val, vty))
        if not fv.binders and not z3.is_true(tf) and not spec and not fv.bound_env:
            fv.add_fact(st, tf)
        return res
    if meth == 'keys':
        return SV(P.keys(m), T.Seq(kty))
    if meth == 'values':
        fv.err(node, '.values() only supported in for / comprehensions')
    if meth == 'items':
        fv.err(node, '.items() only supported in for / comprehensions')
    if meth == 'update':
        o = fv.ev(node.args[0], st, spec)
        ot = o.ty
        if ot.is_opt:
            fv.safety(st, 'none-deref', o.term != P.none, node, spec)
            ot = ot.strip_opt()
        if not ot.is_map:
            fv.err(node, 'update with %r' % ot)
        nk = ot.args[0] if kty.is_any else T.join(kty, ot.args[0])
        nv = ot.args[1] if vty.is_any else T.join(vty, ot.args[1])
        store_back(fv, tgt, SV(P.mupdate(m, o.term), T.Map(nk, nv)), st, spec, node)
        return SV(P.none, NONE)
    if meth == 'pop':
        k = fv.ev(node.args[0], st, spec)
        kt = box(k)
        if len(node.args) == 1:
            fv.safety(st, 'key', P.has(m, kt), node, spec)
            el = fv.extract(st, P.get(m, kt), vty)
        else:
            d = fv.ev(node.args[1], st, spec)
            rty = T.join(vty, d.ty)
            el = SV(z3.If(P.has(m, kt), box(unbox(P.get(m, kt), vty)), box(coerce(d, rty))), rty) \
                if zsort(rty) == P.V else SV(z3.If(P.has(m, kt), unbox(P.get(m, kt), rty).term, coerce(d, rty).term), rty)
        store_back(fv, tgt, SV(P.rem(m, kt), recv.ty), st, spec, node)
        return el
    if meth == 'copy':
        return recv
    fv.err(node, 'dict method %s' % meth)


def set_method(fv, node, st, spec, recv, meth):
    tgt = node.func.value
    s = recv.term
    ety = recv.ty.args[0]
    if meth == 'add':
        x = fv.ev(node.args[0], st, spec)
        nty = x.ty if ety.is_any else T.join(ety, x.ty)
        store_back(fv, tgt, SV(P.sadd(s, box(coerce(x, nty))), T.Set(nty)), st, spec, node)
        return SV(P.none, NONE)
    if meth == 'update':
        x = fv.ev(node.args[0], st, spec)
        xt = x.ty.strip_opt()
        if xt.is_set:
            other, oty = x.term, xt.args[0]
        else:
            seq, oty = fv.iter_seq(x, node, st, spec)
            other = P.set_of_seq(seq)
        nty = oty if ety.is_any else T.join(ety, oty)
        store_back(fv, tgt, SV(P.sunion(s, other), T.Set(nty)), st, spec, node)
        return SV(P.none, NONE)
    if meth == 'discard':
        # the identical element is removed.  For objects with a user-defined __eq__ Python also removes an equal element
        # and `add` keeps an equal element that is already present: the modelled set is a SUPERSET of the run-time set,
        # which is sound for universal and negative membership statements (the only ones contracts may make about sets
        # of such objects; positive membership must be stated modulo ==)
        x = fv.ev(node.args[0], st, spec)
        store_back(fv, tgt, SV(P.sdiff(s, P.sadd(P.set_empty, box(x))), recv.ty), st, spec, node)
        return SV(P.none, NONE)
    if meth in ('intersection', 'union', 'difference'):
        x = fv.ev(node.args[0], st, spec)
        xt = x.ty.strip_opt()
        if xt.is_set:
            other = x.term
        else:
            seq, oty = fv.iter_seq(x, node, st, spec)
            other = P.set_of_seq(seq)
        f = {'intersection': P.sinter, 'union': P.sunion, 'difference': P.sdiff}[meth]
        return SV(f(s, other), recv.ty)
    fv.err(node, 'set method %s' % meth)


def str_method(fv, node, st, spec, recv, meth):
    if meth == 'startswith':
        x = fv.ev(node.args[0], st, spec)
        return SV(P.startswith(recv.term, box(x)), BOOL)
    if meth in ('format', 'join', 'strip', 'lstrip', 'rstrip', 'replace', 'lower', 'upper', 'center'):
        args = [fv.ev(a, st, spec) for a in node.args]
        return fv.opaque_str(st, [recv] + args, '%s%d' % (meth, node.lineno))
    fv.err(node, 'str method %s' % meth)


def exec_with(fv, s, st):
    """with open(path, mode) as f: body  -- body executed; file object opaque"""
    item = s.items[0]
    ce = item.context_expr
    if isinstance(ce, ast.Call) and isinstance(ce.func, ast.Name) and ce.func.id == 'open':
        c = fv.E.find_contract('builtins.open')
        if c is None:
            fv.err(s, 'with open(...) needs an @external("builtins.open") contract')
        res = apply_contract(fv, c, ce, st, False, None)
        if item.optional_vars is not None:
            fv.assign_into(item.optional_vars, res, st)
        fv.exec_block(s.body, st)
        return
    fv.err(s, 'with statement form')
