"""Whole-function verification and proof hints."""
import ast
import z3

from . import prelude as P
from . import ty as T
from .ty import INT, BOOL, NONE, ANY
from .symexec import SV, box, unbox, coerce, zsort, EngineError, Unsupported, State, simp_and

Trig = z3.Function('Trig', P.V, z3.BoolSort())
TrigI = z3.Function('TrigI', z3.IntSort(), z3.BoolSort())
TrigB = z3.Function('TrigB', z3.BoolSort(), z3.BoolSort())


def run_hint(fv, h, st):
    if not (isinstance(h, ast.Call) and isinstance(h.func, ast.Name)):
        raise EngineError('bad hint')
    name = h.func.id
    if name == 'induct':
        induct(fv, h, st)
    elif name in ('prove', 'lemma'):
        if name == 'lemma':
            lname, e = h.args[0].value, h.args[1]
        else:
            lname, e = 'l%d' % h.lineno, h.args[0]
        g = fv.truthy(fv.ev(e, st, True))
        fv.oblige(st, 'lemma[%s]' % lname, g, h)
        fv.add_fact(st, g)
    elif name == 'use':
        for a in h.args:
            sv = fv.ev(a, st, True)
            if sv.ty.kind == 'int':
                fv.add_fact(st, TrigI(sv.term))
            elif sv.ty.kind == 'bool':
                fv.add_fact(st, TrigB(sv.term))
            else:
                fv.add_fact(st, Trig(sv.term))
    elif name == 'assign':
        # ghost assignment: assign("name", spec-expression)
        gname = h.args[0].value
        if not (fv.c and gname in fv.c.ghost_locals):
            raise EngineError('assign() hint to %s which is not a ghost_local' % gname)
        sv = fv.ev(h.args[1], st, True)
        ty = fv.E.parse_ty(fv.c.ghost_locals[gname])
        st.env[gname] = coerce(sv, ty) if sv.ty != ty else sv
    else:
        raise EngineError('unknown hint ' + name)


def induct(fv, h, st):
    """least-fixpoint induction: if S is closed under every rule of ghost G then G(args) ==> S(args).

    induct("G", lambda a, b, c: S)    adds the fact   closed(S) ==> forall args. G(args) ==> S(args)
    Sound because G is interpreted as the least relation closed under its rules (DESIGN 2.9)."""
    gname = h.args[0].value
    lam = h.args[1]
    f, ptys, rty, g = fv.E.ghost_sym(gname)
    if not g.least_fixpoint:
        raise EngineError('induct on ghost %s which is not declared least_fixpoint' % gname)
    fv.E.ensure_ghost_axioms(gname)
    pnames = [a.arg for a in lam.args.args]
    if len(pnames) != len(ptys):
        raise EngineError('induct lambda arity')

    def S(arg_svs):
        d = {n: coerce(a, t) for n, a, t in zip(pnames, arg_svs, ptys)}
        fv.bound_env.append(d)
        try:
            return fv.truthy(fv.ev(lam.body, st, True))
        finally:
            fv.bound_env.pop()

    closed = []
    for rname, rexpr in g.rules:
        closed.append(rule_closed(fv, g, gname, rexpr, S, st))
    vars_ = [z3.Const('%s!ind%d' % (n, next(fv.E.counter)), zsort(t)) for n, t in zip(pnames, ptys)]
    svs = [SV(v, t) for v, t in zip(vars_, ptys)]
    app = f(*vars_)
    concl = z3.ForAll(vars_, z3.Implies(app, S(svs)), patterns=[app])
    # (no typing guard: the conclusion is wanted for every argument tuple on which G holds)
    fv.add_fact(st, z3.Implies(z3.And(*closed), concl))


def rule_closed(fv, g, gname, rexpr, S, st):
    """rule: forall(lambda xs: implies(premises, G(args)))  ->  forall xs: premises[G := G /\\ S] ==> S(args)"""
    if not (isinstance(rexpr, ast.Call) and isinstance(rexpr.func, ast.Name) and rexpr.func.id == 'forall'):
        raise EngineError('rule of %s is not of the form forall(lambda ..: implies(P, %s(..)))' % (gname, gname))
    lam = rexpr.args[0]
    names = [a.arg for a in lam.args.args]
    sub = type(fv)(fv.E, None, None, None, ghost=g)
    tys = []
    for n in names:
        t = sub.bound_type(n)
        if t is None:
            raise EngineError('no bound type for %s in rule of %s' % (n, gname))
        tys.append(t)
    body = lam.body
    if isinstance(body, ast.Call) and isinstance(body.func, ast.Name) and body.func.id == 'implies':
        prem, concl = body.args
    else:
        prem, concl = None, body
    if not (isinstance(concl, ast.Call) and isinstance(concl.func, ast.Name) and concl.func.id == gname):
        raise EngineError('rule conclusion must be an application of ' + gname)
    vars_ = [z3.Const('%s!rc%d' % (n, next(fv.E.counter)), zsort(t)) for n, t in zip(names, tys)]
    d = {n: SV(v, t) for n, v, t in zip(names, vars_, tys)}
    sub.bound_env.append(d)
    rst = State()
    if prem is not None:
        sub.induct_hook = (gname, lambda app, args: z3.And(app, S(args)))
        p = sub.truthy(sub.ev(prem, rst, True))
        sub.induct_hook = None
    else:
        p = z3.BoolVal(True)
    cargs = [sub.ev(a, rst, True) for a in concl.args]
    c = S(cargs)
    return z3.ForAll(vars_, z3.Implies(p, c))


def closure_params(fv):
    """parameters of the sidecar contract that are not parameters of the real def: closure variables"""
    real = [a.arg for a in fv.fn.args.args]
    return [(n, t) for n, t in fv.c.params if n not in real]


def verify_function(fv):
    c = fv.c
    E = fv.E
    st = State()
    real = [a.arg for a in fv.fn.args.args]
    declared = {n: t for n, t in c.params}
    for n in real:
        if n not in declared or declared[n] is None:
            if fv.in_slice():
                c.params = list(c.params) + [(n, 'Any')]       # slice mode: unannotated parameters are arbitrary values
                continue
            raise Unsupported('%s: parameter %s has no type in the contract' % (fv.qual, n))
    for n, t in c.params:
        ty = E.parse_ty(t)
        sv = E.fresh(n, ty)
        st.env[n] = sv
        fv.add_fact(st, fv.typed_fact(sv.term, ty))
        for f in fv.deep_facts(sv.term, ty):
            fv.add_fact(st, f)
        from .heap import ALLOC0
        if ty.strip_opt().is_obj:
            fv.add_fact(st, z3.Implies(sv.term != P.none, z3.Select(ALLOC0, sv.term)))
        else:
            # objects stored in a container argument exist before the call
            tt = ty.strip_opt()
            if tt.kind in ('seq', 'tuple', 'set') and tt.args[0].strip_opt().is_obj:
                i = z3.Int('i!pa%d' % next(E.counter))
                if tt.kind == 'set':
                    x = z3.Const('x!pa%d' % next(E.counter), P.V)
                    fv.add_fact(st, z3.ForAll([x], z3.Implies(z3.And(P.smem(sv.term, x), x != P.none), z3.Select(ALLOC0, x)),
                                              patterns=[P.smem(sv.term, x)]))
                else:
                    e = P.at(sv.term, i)
                    fv.add_fact(st, z3.ForAll([i], z3.Implies(z3.And(0 <= i, i < P.slen(sv.term), e != P.none),
                                                              z3.Select(ALLOC0, e)), patterns=[e]))
            elif tt.kind == 'map':
                x = z3.Const('k!pa%d' % next(E.counter), P.V)
                conj = []
                if tt.args[0].strip_opt().is_obj:
                    conj.append(z3.Implies(x != P.none, z3.Select(ALLOC0, x)))
                if tt.args[1].strip_opt().is_obj:
                    conj.append(z3.Implies(P.get(sv.term, x) != P.none, z3.Select(ALLOC0, P.get(sv.term, x))))
                if conj:
                    fv.add_fact(st, z3.ForAll([x], z3.Implies(P.has(sv.term, x), z3.And(*conj)),
                                              patterns=[P.has(sv.term, x), P.get(sv.term, x)]))
    # closure variables: parameters and locals of the enclosing functions that this nested function reads are arbitrary
    # values fixed for the duration of the call (typed by a local(...) declaration of the contract, else Any)
    import ast as _ast
    own = set(st.env) | {n.id for n in _ast.walk(fv.fn) if isinstance(n, _ast.Name) and isinstance(n.ctx, _ast.Store)}
    for outer in (fv.enclosing or []):
        if not isinstance(outer, (_ast.FunctionDef, _ast.AsyncFunctionDef)):
            continue
        names = [a.arg for a in outer.args.args] + [
            n.id for n in _ast.walk(outer) if isinstance(n, _ast.Name) and isinstance(n.ctx, _ast.Store)]
        used = {n.id for n in _ast.walk(fv.fn) if isinstance(n, _ast.Name) and isinstance(n.ctx, _ast.Load)}
        for n in names:
            if n in own or n in st.env:
                continue        # (bound even if the body does not read it: the contract may talk about it)
            dt = fv.declared_local(n)
            sv = E.fresh(n, dt if dt is not None else ANY)
            st.env[n] = sv
            tf = fv.typed_fact(sv.term, sv.ty)
            if not z3.is_true(tf):
                fv.add_fact(st, tf)
    if fv.cls is not None and real and real[0] == 'self' and 'self' in st.env and fv.cls.key in E.fe.classes:
        # the receiver's dynamic class is one that inherits exactly this implementation
        fe = E.fe
        ks = [k for k in fe.subclasses(fv.cls.key) if fe.resolve_method(k, fv.fn.name)[1] is fv.fn]
        if ks:
            fv.add_fact(st, z3.Or(*[P.cls(st.env['self'].term) == E.class_id(k) for k in ks]))
    if fv.fn.args.vararg or fv.fn.args.kwarg:
        raise Unsupported('%s: *args/**kwargs' % fv.qual)
    fv.old_state = st.copy()
    fv.ret_ty = E.parse_ty(c.ret) if c.ret else NONE
    for pname, pe in c.requires:
        fv.add_fact(st, fv.truthy(fv.ev(pe, st, True)))
    for gname, ge in c.global_invariants:
        fv.add_fact(st, fv.truthy(fv.ev(ge, st, True)))
    for gname, gty in c.ghost_locals.items():
        ty = E.parse_ty(gty)
        init = {'set': P.set_empty, 'seq': P.seq_empty, 'map': P.map_empty}.get(ty.kind)
        if init is None:
            raise EngineError('ghost_local of type %r' % ty)
        st.env[gname] = SV(init, ty)
    fv.oblige(st, 'cover[entry]', z3.BoolVal(False), fv.fn, kind='cover')
    from .loops import run_hints
    run_hints(fv, c.entry_hints, st)
    fv.exec_block(fv.fn.body, st)
    if not st.dead:
        fv.returns.append((st.copy(), SV(P.none, NONE), fv.fn))
    if not fv.returns and not c.raises:
        raise EngineError('%s: no return path' % fv.qual)
    for rst, rsv, rnode in fv.returns:
        try:
            res = coerce(rsv, fv.ret_ty) if rsv.ty != fv.ret_ty else rsv
        except EngineError:
            raise Unsupported('%s:%d: returned %r but contract says %r' % (fv.qual, rnode.lineno, rsv.ty, fv.ret_ty))
        fv.result_sv = res
        run_hints(fv, c.return_hints, rst)
        for ename, ee in c.ensures:
            g = fv.truthy(fv.ev(ee, rst, True))
            fv.oblige(rst, 'post[%s]' % ename, g, rnode)
            fv.add_fact(rst, g)
    return fv.obligations
