"""./check <id> [--tier quick|thorough] [--replay path] [--update-ledger]

exit 0 held / 1 VIOLATION / 2 undecided / 3 checker error        (DESIGN.md section 3)
"""
import argparse
import hashlib
import importlib
import json
import os
import sys
import time
import traceback

HERE = os.path.dirname(os.path.dirname(os.path.abspath(__file__)))
sys.path.insert(0, HERE)

from pyvc import driver, solver  # noqa: E402

LEDGER = os.path.join(HERE, 'baseline', 'ledger.json')
KNOWN = os.path.join(HERE, 'known_findings.json')
REPLAYS = os.path.join(HERE, 'replays')
EVIDENCE = os.path.join(HERE, 'evidence')

COMMON_TRUSTED = [
    "pyvc's encoding of the Python subset (DESIGN.md 2.2-2.4): mathematical integers, value semantics of local "
    "containers under the non-escape rule, static types of sidecar annotations hold by construction",
    "collection axioms of pyvc/prelude.py (sequences, insertion-ordered maps, sets, boxing): TRUSTED, not proved; on every "
    "run each of them is evaluated in its intended model (Python tuples / association lists / frozensets) with all "
    "quantifiers ranging over a small universe (pyvc/axiom_model.py: a bounded sanity check of the trusted base)",
    "least-fixpoint induction schema for ghosts declared least_fixpoint (DESIGN.md 2.9): the rule set is read as an "
    "inductive definition; trusted",
    "partial correctness: recursive calls and pure-function axioms assume the callee contract (termination not proved "
    "unless a decreases clause is listed)",
    "z3 5.1 (E-matching, mbqi off) decides the obligations; cvc5 1.0 takes the obligations on which z3's E-matching gives up "
    "(an unsat of either is a proof) and, in the thorough tier, re-checks every obligation z3 proved (coverage.cvc5_second_opinion)",
    "the class table / function bodies read from the source tree are what runs (no monkey patching)",
]


def load_json(path, default):
    if os.path.exists(path):
        with open(path) as f:
            return json.load(f)
    return default


def agg(obls):
    d = {}
    for o in obls:
        if o['kind'] == 'proof':
            d[o['name']] = d.get(o['name'], 0) + 1
    return d


def write_replay(pid, payload):
    os.makedirs(REPLAYS, exist_ok=True)
    h = hashlib.sha256(json.dumps(payload, sort_keys=True, default=str).encode()).hexdigest()[:12]
    path = os.path.join(REPLAYS, '%s-%s.json' % (pid, h))
    with open(path, 'w') as f:
        json.dump(payload, f, indent=1, default=str)
    return path


def match_known(known, pid, name, replay):
    """a known finding matches one named obligation (or bounded check).  The name of a bounded check encodes the class of
    the failing input; an entry may instead give `obligation_regex` (a family of input classes with one recorded root
    cause) and / or `witness_match` (fields of the failing input that must be equal: the finding is then that very input)"""
    import re
    for k in known.get('findings', []):
        if k.get('property') != pid or k.get('status') != 'known':
            continue
        if 'obligation_regex' in k:
            if not re.search(k['obligation_regex'], name):
                continue
        elif k.get('obligation') != name:
            continue
        wm = k.get('witness_match')
        if wm:
            if not isinstance(replay, dict) or any(replay.get(a) != b for a, b in wm.items()):
                continue
        wa = k.get('witness_any')
        if wa:
            # the finding is a list of concrete inputs: the reported (first) failing input of this class must be one of them
            if not isinstance(replay, dict) or not any(all(replay.get(a) == b for a, b in w.items()) for w in wa):
                continue
        return k
    return None


def run(pid, tier, seed, update_ledger=False):
    t0 = time.time()
    prop = importlib.import_module('props.' + pid)
    known = load_json(KNOWN, {'findings': []})
    ledger = load_json(LEDGER, {})
    timeout_ms = 30000 if tier == "quick" else 90000
    violations = []       # (name, replay path, found_input)
    known_hits = []
    undecided = []
    errors = []
    E = None
    results = []
    axioms_checked = None
    if getattr(prop, 'FUNCTIONS', None):
        # the trusted base first: every prelude axiom must hold in its intended model on the small universe
        from . import axiom_model
        ck, sk, fl = axiom_model.check_axioms()
        axioms_checked = dict(validated=len(ck), skipped=[n for n, _ in sk], failed=[n for n, _ in fl])
        for n, m in fl:
            errors.append('prelude axiom %s is %s: proofs that use it cannot be trusted' % (n, m))
        driver.LOCALS_AT_LEDGER = ledger.get('__locals__', {})
        E, results = driver.verify(prop.FUNCTIONS, prop.SIDECARS, timeout_ms=timeout_ms, second_opinion=(tier == 'thorough'))
    n_obl = n_dis = 0
    second = {}
    solver_s = 0.0
    per_func = []
    failed = []
    timed_out = []
    backends = {}
    unanalysable = []
    unreachable_returns = []
    for fr in results:
        if fr.error:
            led_names = sorted(n for n in ledger.get(pid, {}).get(fr.qual, {}) if '/cover' not in n)
            if fr.error_kind == 'unsupported' and led_names:
                # every obligation of this function was discharged on the unchanged tree (ledger); the function as it is now
                # uses a construct outside the verified subset, so none of them can be discharged any more: reported as a
                # violation of those obligations (DESIGN 10.7), with the engine's reason and, if the replay search finds one,
                # a concrete failing input
                unanalysable.append((fr, led_names))
                per_func.append(dict(function=fr.qual, status='unanalysable', error=fr.error.strip().split('\n')[-1],
                                     obligations_proved_on_the_unchanged_tree=len(led_names)))
                continue
            (undecided if fr.error_kind == 'unsupported' else errors).append(
                '%s: %s' % (fr.qual, fr.error.strip().split('\n')[-1]))
            if fr.error_kind != 'unsupported':
                sys.stderr.write(fr.error + '\n')
            per_func.append(dict(function=fr.qual, status=fr.error_kind, error=fr.error.strip().split('\n')[-1]))
            continue
        a = agg(fr.obligations)
        nf = sum(a.values())
        if nf == 0:
            led_names = sorted(n for n in ledger.get(pid, {}).get(fr.qual, {}) if '/cover' not in n)
            if led_names:
                # the sites / clauses that carried this function's obligations on the unchanged tree are gone from its body
                # (moved into a helper that has no contract, or deleted): none of them can be discharged any more (10.7)
                fr.error = 'no obligation is generated for this function any more (its sites are gone from the body)'
                unanalysable.append((fr, led_names))
                per_func.append(dict(function=fr.qual, status='unanalysable', error=fr.error,
                                     obligations_proved_on_the_unchanged_tree=len(led_names)))
                continue
            errors.append('%s: zero obligations generated (vacuity guard)' % fr.qual)
        nd = 0
        rc = [o for o in fr.obligations if o['kind'] == 'cover' and '/site[return ' in o['name']]
        if rc and all(o['status'] == 'vacuous' for o in rc):
            errors.append('%s: no return statement is reachable under the contract (assumptions contradictory)' % fr.qual)
        for i, o in enumerate(fr.obligations):
            solver_s += o['secs']
            if any(__import__('re').search(rx, o['name']) for rx in getattr(prop, 'IGNORE_OBLIGATIONS', ())):
                continue        # a clause of a shared contract that belongs to another property (decided by that property's check)
            if o['kind'] == 'cover':
                if o['status'] == 'vacuous':
                    if '/site[return ' in o['name']:
                        # a return statement that cannot be reached under the contract's assumptions (dead code under the
                        # validity precondition): its clauses hold vacuously; listed, and an error only if NO return
                        # statement of the function is reachable (checked below)
                        unreachable_returns.append('%s (line %s)' % (o['name'], o.get('lineno')))
                    else:
                        errors.append('%s: assumptions are contradictory (cover proved False)' % o['name'])
                continue
            n_obl += 1
            if o.get('cvc5') is not None:
                second[o['cvc5'] if o['cvc5'] in ('unsat', 'sat', 'unknown', 'timeout') else 'no-answer'] = \
                    second.get(o['cvc5'] if o['cvc5'] in ('unsat', 'sat', 'unknown', 'timeout') else 'no-answer', 0) + 1
                if o['cvc5'] == 'sat':
                    errors.append('%s: z3 proves the obligation but cvc5 answers sat (back ends disagree)' % o['name'])
            if o['status'] == 'proved':
                n_dis += 1
                nd += 1
                if str(o.get('backend', '')).startswith('cvc5'):
                    backends['cvc5 (after z3 gave up)'] = backends.get('cvc5 (after z3 gave up)', 0) + 1
            elif o['status'] == 'failed':
                failed.append((fr, i, o))
            elif o['status'] == 'undecided':
                timed_out.append((fr, i, o))
            else:
                errors.append('%s: solver error %s' % (o['name'], o['reason']))
        led = ledger.get(pid, {}).get(fr.qual, {})
        missing = [n for n in led if n not in a]
        per_func.append(dict(function=fr.qual, source_sha=fr.source_hash, obligations=nf, discharged=nd,
                             callee_contracts_used=fr.used_contracts, ledger_names_missing=missing))
    # obligations generated by a property-specific generator (e.g. state-reset / syntactic frame obligations of C11)
    if hasattr(prop, 'custom_proof') or getattr(prop, 'HIDDEN_STATE_MODULES', None):
        t1 = time.time()
        try:
            customs = prop.custom_proof(tier) if hasattr(prop, 'custom_proof') else []
            if getattr(prop, 'HIDDEN_STATE_MODULES', None):
                # the functions the property speaks about must be functions of their arguments: no memo tables / registries
                # at module level, no mutable default argument that is written (syntactic, from the real AST)
                from . import frontend as _fe, statecheck as _sc
                fe_ = _fe.Frontend(os.environ.get('HEPH_REPO', '/repo'))
                for spec_ in prop.HIDDEN_STATE_MODULES:
                    mod_, allowed_ = (spec_, ()) if isinstance(spec_, str) else spec_
                    customs = customs + _sc.hidden_state_census(fe_, mod_, allowed_)
        except Exception:
            customs = []
            errors.append('custom obligation generator crashed: ' + traceback.format_exc().strip().split('\n')[-1])
            sys.stderr.write(traceback.format_exc())
        byfn = {}
        for o in customs:
            byfn.setdefault(o['function'], []).append(o)
        for fn, lst in byfn.items():
            fr = driver.FuncResult(fn)
            fr.obligations = lst
            nd = 0
            for i, o in enumerate(lst):
                solver_s += o.get('secs', 0)
                n_obl += 1
                if o['status'] == 'proved':
                    n_dis += 1
                    nd += 1
                    backends[o.get('backend', '?')] = backends.get(o.get('backend', '?'), 0) + 1
                elif o['status'] == 'failed':
                    failed.append((fr, i, o))
                elif o['name'] in ledger.get(pid, {}).get(fn, {}) and 'cannot evaluate' in str(o.get('reason', '')):
                    # proved on the unchanged tree, and now the generator cannot even state it (the expressions use a
                    # construct outside its subset, e.g. a call where a literal stood): no longer verifiable (10.7)
                    o = dict(o, status='failed', reason='no longer verifiable -- %s' % o.get('reason', ''))
                    lst[i] = o
                    failed.append((fr, i, o))
                else:
                    undecided.append('%s: %s' % (o['name'], o.get('reason', '')))
            per_func.append(dict(function=fn, obligations=len(lst), discharged=nd, generator='pyvc.statecheck'))
            results.append(fr)
    # failed proof obligations -> violation candidates (replay on the real code)
    by_name = {}
    for fr, i, o in failed:
        by_name.setdefault(o['name'], []).append((fr, i, o))
    for name, lst in by_name.items():
        fr, i, o = lst[0]
        replay = None
        try:
            replay = prop.replay_search(name, fr.qual, seed, tier) if hasattr(prop, 'replay_search') else None
        except Exception:
            replay = None
            errors.append('replay search for %s crashed: %s' % (name, traceback.format_exc().strip().split('\n')[-1]))
        k = match_known(known, pid, name, replay)
        if k is not None:
            known_hits.append((k, name))
            n_obl -= len(lst)           # reported separately (coverage.known_findings), not as a proof obligation of this run
            continue
        payload = dict(property=pid, obligation=name, function=fr.qual, line=o['lineno'],
                       solver=dict(backend=o.get('backend'), result='sat/unknown', reason=o.get('reason'),
                                   model=o.get('model', '')[:6000]),
                       failing_input=replay, smt2_sha=hashlib.sha256(fr.smt.get(i, '').encode()).hexdigest()[:16],
                       note='obligation proved on the unchanged tree (ledger) but not on this tree'
                       if name in ledger.get(pid, {}).get(fr.qual, {}) else 'obligation not in the ledger')
        path = write_replay(pid, payload)
        violations.append((name, path, replay is not None))
    for fr, led_names in unanalysable:
        name = '%s/no-longer-verifiable[%d obligations proved on the unchanged tree]' % (fr.qual, len(led_names))
        replay = None
        try:
            replay = prop.replay_search(led_names[0], fr.qual, seed, tier) if hasattr(prop, 'replay_search') else None
        except Exception:
            errors.append('replay search for %s crashed: %s' % (name, traceback.format_exc().strip().split('\n')[-1]))
        k = match_known(known, pid, name, replay)
        if k is not None:
            known_hits.append((k, name))
            continue
        n_obl += len(led_names)
        payload = dict(property=pid, obligation=name, function=fr.qual, obligations=led_names,
                       solver=dict(backend='pyvc VC generator', result='no verification condition',
                                   reason=fr.error.strip().split('\n')[-1]),
                       failing_input=replay,
                       note='the function was verified on the unchanged tree; as it is now it uses a construct outside the '
                            'verified Python subset, so its contract can no longer be discharged')
        violations.append((name, write_replay(pid, payload), replay is not None))
    # obligations the solver could not decide in time: a violation only if a concrete failing input is found on the
    # real code (replay search); otherwise undecided (exit 2)
    seen_to = set()
    for fr, i, o in timed_out:
        if o['name'] in seen_to or o['name'] in by_name:
            continue
        seen_to.add(o['name'])
        replay = None
        try:
            replay = prop.replay_search(o['name'], fr.qual, seed, tier) if hasattr(prop, 'replay_search') else None
        except Exception:
            errors.append('replay search for %s crashed: %s' % (o['name'], traceback.format_exc().strip().split('\n')[-1]))
        if replay is None:
            undecided.append('%s: %s' % (o['name'], o['reason']))
            continue
        payload = dict(property=pid, obligation=o['name'], function=fr.qual, line=o['lineno'],
                       solver=dict(backend=o['backend'], result='timeout', reason=o['reason']),
                       failing_input=replay,
                       note='solver timed out on this obligation; the violation is established by the replayed input')
        violations.append((o['name'], write_replay(pid, payload), True))
    # bounded stand-ins / engine cross-check
    bounded = None
    if hasattr(prop, 'bounded'):
        try:
            bounded = prop.bounded(tier, seed)
        except Exception:
            errors.append('bounded stand-in crashed: ' + traceback.format_exc())
            bounded = None
        if bounded:
            for v in bounded.get('violations', []):
                name = v.get('check', 'bounded')
                k = match_known(known, pid, name, v)
                if k is not None:
                    known_hits.append((k, name))
                    continue
                path = write_replay(pid, dict(property=pid, obligation=name, function=v.get('function'),
                                              failing_input=v, note='bounded stand-in / run-time contract evaluation'))
                violations.append((name, path, True))
    # ledger
    if update_ledger:
        if violations or undecided or errors:
            print('not updating ledger: run is not clean')
        else:
            ledger[pid] = {fr.qual: agg(fr.obligations) for fr in results}
            # the local names of each verified function as they are now: lets a later run recognise a renamed local
            # (driver.rename_tolerance) instead of failing to bind the sidecar contract
            loc = ledger.setdefault('__locals__', {})
            for fr in results:
                names = driver.function_locals(E, fr.qual) if E is not None else None
                if names is not None:
                    loc[fr.qual] = names
            with open(LEDGER, 'w') as f:
                json.dump(ledger, f, indent=1, sort_keys=True)
    # fixed findings are only listed
    fixed = [k for k in known.get('findings', []) if k.get('property') == pid and k.get('status') == 'fixed']
    wall = time.time() - t0
    level = getattr(prop, 'LEVEL', 'proof')
    cov = dict(
        renamed_locals={q: dict(now=v[0], verified_as=v[1]) for q, v in getattr(driver, 'RENAMED', {}).items()},
        unreachable_returns=unreachable_returns,
        obligations=n_obl, discharged=n_dis,
        checker_cmd='cd /verif && ./check %s --tier %s   (pyvc VC generator over %s; z3 %s, E-matching, per-obligation timeout %d ms)'
                    % (pid, tier, os.environ.get('HEPH_REPO', '/repo'), __import__('z3').get_version_string(), timeout_ms),
        trusted_base=COMMON_TRUSTED + list(getattr(prop, 'TRUSTED', [])),
        prelude_axioms=axioms_checked,
        cvc5_second_opinion=(second if tier == 'thorough' else 'thorough tier only'),
        functions_under_contract=per_func,
        functions_not_under_contract=list(getattr(prop, 'NOT_UNDER_CONTRACT', [])),
        solver_seconds=round(solver_s, 2),
        backends=dict(backends, **{'z3': n_dis - sum(backends.values())}),
        known_findings=[dict(obligation=n, what=k.get('what')) for k, n in known_hits],
        fixed_findings=[dict(obligation=k.get('obligation'), commit=k.get('commit'), what=k.get('what')) for k in fixed],
        undecided=undecided, engine_errors=errors,
        samples=[o['name'] for fr in results for o in fr.obligations[:3]][:12],
    )
    if bounded:
        cov['bounded'] = {k: v for k, v in bounded.items() if k != 'violations'}
        if level != 'proof' or n_obl == 0:
            for k in ('evaluations', 'distinct_nontrivial', 'rule', 'samples'):
                if k in bounded:
                    cov[k] = bounded[k]
    ev = dict(property_id=pid, tier=tier, seed=seed, level=level, coverage=cov,
              assumptions=list(getattr(prop, 'ASSUMPTIONS', [])) + sorted(E.assumptions if E else []),
              wall_s=round(wall, 2), violations=len(violations))
    os.makedirs(EVIDENCE, exist_ok=True)
    with open(os.path.join(EVIDENCE, pid + '.json'), 'w') as f:
        json.dump(ev, f, indent=1, default=str)
    # report
    print('%s: %d/%d proof obligations discharged over %d functions; solver %.1fs; wall %.1fs'
          % (pid, n_dis, n_obl, len(results), solver_s, wall))
    if bounded:
        print('%s: bounded stand-in: %s evaluations (%s)' % (pid, bounded.get('evaluations'), bounded.get('rule', '')[:100]))
    for k, n in known_hits:
        print('KNOWN-FINDING: property=%s %s -- %s' % (pid, n, k.get('what', '')))
    for name, path, found in violations:
        print('failed obligation: %s' % name)
        print('VIOLATION property=%s replay=%s%s' % (pid, path, '' if found else ' no-failing-input-found'))
    for u in undecided:
        print('UNDECIDED: ' + u)
    for e in errors:
        print('ENGINE-ERROR: ' + e)
    if violations:
        return 1
    if errors:
        return 3
    if undecided:
        return 2
    return 0


def main():
    ap = argparse.ArgumentParser()
    ap.add_argument('pid')
    ap.add_argument('--tier', default=os.environ.get('VERIF_TIER', 'quick'))
    ap.add_argument('--replay')
    ap.add_argument('--update-ledger', action='store_true')
    a = ap.parse_args()
    seed = int(os.environ.get('VERIF_SEED', '0') or 0)
    if a.replay:
        prop = importlib.import_module('props.' + a.pid)
        with open(a.replay) as f:
            payload = json.load(f)
        ok = prop.replay(payload)
        print('replay %s: %s' % (a.replay, 'property holds on this input' if ok else 'VIOLATION reproduced'))
        if not ok:
            print('VIOLATION property=%s replay=%s' % (a.pid, a.replay))
        sys.exit(0 if ok else 1)
    try:
        rc = run(a.pid, a.tier, seed, a.update_ledger)
    except SystemExit:
        raise
    except Exception:
        traceback.print_exc()
        rc = 3
    sys.exit(rc)


if __name__ == '__main__':
    main()
