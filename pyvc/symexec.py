"""Symbolic executor / VC generator for a Python subset (DESIGN.md section 2).

Passive-form VC generation: one append-only list of facts (each guarded by the
path condition under which it was learnt); an obligation is
    axioms /\ facts[:n] /\ pc  ==>  goal .
Control flow joins merge variable values with if-then-else terms, loops are cut
by invariants, calls use contracts only.
"""
import ast
import itertools
import re
import z3

from . import prelude as P
from . import ty as T
from .ty import Ty, INT, BOOL, STR, NONE, ANY


class EngineError(Exception):
    pass


class Unsupported(EngineError):
    pass


class SV:
    __slots__ = ('term', 'ty', 'truth')

    def __init__(self, term, ty, truth=None):
        self.term = term
        self.ty = ty
        self.truth = truth      # precomputed truthiness (values produced by and/or on mixed types)

    def __repr__(self):
        return 'SV(%s : %r)' % (self.term, self.ty)


def zsort(ty):
    if ty.kind == 'int':
        return z3.IntSort()
    if ty.kind == 'bool':
        return z3.BoolSort()
    return P.V


def box(sv):
    if sv.ty.kind == 'int':
        return P.I(sv.term)
    if sv.ty.kind == 'bool':
        return P.Bx(sv.term)
    return sv.term


def unbox(term, ty):
    if ty.kind == 'int':
        return SV(P.unI(term), ty)
    if ty.kind == 'bool':
        return SV(P.unB(term), ty)
    return SV(term, ty)


def coerce(sv, ty):
    """change representation of sv to static type ty (ty must be a supertype in the join order)"""
    if sv.ty == ty:
        return sv
    if ty.kind == 'int':
        if sv.ty.kind == 'bool':
            return SV(z3.If(sv.term, z3.IntVal(1), z3.IntVal(0)), ty)
        if sv.ty.kind in ('any', 'opt'):
            return SV(P.unI(sv.term), ty)
    if ty.kind == 'bool':
        if getattr(sv, 'truth', None) is not None:
            # `a and b` / `a or b` on non-boolean operands read as a Bool: its truthiness (the value itself is opaque)
            return SV(sv.truth, ty)
        if sv.ty.kind in ('any', 'opt'):
            return SV(P.unB(sv.term), ty)
    if zsort(ty) == P.V:
        return SV(box(sv), ty)
    raise EngineError('cannot coerce %r to %r' % (sv, ty))


class State:
    def __init__(self, env=None, heap=None, pc=None, globs=None):
        self.env = env if env is not None else {}
        self.heap = heap if heap is not None else {}
        self.pc = pc if pc is not None else z3.BoolVal(True)
        self.dead = False
        self.heap_version = 0

    def copy(self, extra=None):
        s = State(dict(self.env), dict(self.heap), self.pc if extra is None else simp_and(self.pc, extra))
        s.dead = self.dead
        s.heap_version = self.heap_version
        return s


def simp_and(a, b):
    if z3.is_true(a):
        return b
    if z3.is_true(b):
        return a
    if z3.is_false(a) or z3.is_false(b):
        return z3.BoolVal(False)
    return z3.And(a, b)


def simp_or(a, b):
    if z3.is_false(a):
        return b
    if z3.is_false(b):
        return a
    if z3.is_true(a) or z3.is_true(b):
        return z3.BoolVal(True)
    return z3.Or(a, b)


def simp_not(a):
    if z3.is_true(a):
        return z3.BoolVal(False)
    if z3.is_false(a):
        return z3.BoolVal(True)
    if z3.is_not(a):
        return a.arg(0)
    return z3.Not(a)


class Obligation:
    def __init__(self, name, func, nfacts, pc, goal, kind='proof', lineno=0, detail=''):
        self.name = name
        self.func = func
        self.nfacts = nfacts
        self.pc = pc
        self.goal = goal
        self.kind = kind       # proof | cover
        self.lineno = lineno
        self.detail = detail
        self.facts = None
        self.axioms = None


class Engine:
    """Shared across the functions verified in one run."""

    def __init__(self, sidecar, frontend):
        self.sc = sidecar
        self.fe = frontend
        self.tyenv = T.TyEnv()
        self.tyenv.aliases.update(sidecar.aliases)
        self.tyenv.abstract.update(sidecar.sorts)
        frontend.finalize()
        self.tyenv.resolver = lambda nm: frontend.resolve(nm, None, strict=False)
        self.strconsts = {}
        self.ghost_syms = {}
        self.pure_syms = {}
        self.global_axioms = []       # (name, formula)
        self._ghost_axioms_done = set()
        self.field_types = {}
        self.counter = itertools.count()
        self.abs_consts = {}
        for cname, d in sidecar.fields.items():
            key = frontend.resolve(cname, None, strict=False) or cname
            for a, t in d.items():
                self.field_types.setdefault(a, {})[key] = t
        self.prelude = P.axioms()
        self.assumptions = set()      # textual list of assumptions used (for evidence)
        self.class_ids = {}

    # ----- helpers
    def fresh(self, base, ty):
        n = '%s!%d' % (base, next(self.counter))
        return SV(z3.Const(n, zsort(ty)), ty)

    def strconst(self, s):
        if s not in self.strconsts:
            self.strconsts[s] = z3.Const('str!%d' % len(self.strconsts), P.V)
        return self.strconsts[s]

    def str_axioms(self):
        cs = list(self.strconsts.values())
        out = []
        if len(cs) > 1:
            out.append(z3.Distinct(*cs))
        for c in cs:
            out.append(P.tag(c) == P.TAG_STR)
        return out

    def parse_ty(self, text):
        return self.tyenv.parse(text)

    def class_id(self, cname):
        if cname not in self.class_ids:
            self.class_ids[cname] = len(self.class_ids) + 1
        return self.class_ids[cname]

    def ghost_sym(self, name):
        if name in self.ghost_syms:
            return self.ghost_syms[name]
        g = self.sc.ghosts[name]
        ptys = [self.parse_ty(t) for _, t in g.params]
        rty = self.parse_ty(g.ret)
        f = z3.Function('G_' + name, *([zsort(t) for t in ptys] + [zsort(rty)]))
        self.ghost_syms[name] = (f, ptys, rty, g)
        return self.ghost_syms[name]

    def ensure_ghost_axioms(self, name):
        if name in self._ghost_axioms_done:
            return
        self._ghost_axioms_done.add(name)
        f, ptys, rty, g = self.ghost_sym(name)
        ev = FuncVerifier(self, None, None, None, ghost=g)
        if zsort(rty) == P.V and ptys and g.typed_result:
            # opt-in (@ghost(typed_result=True)): the result has its declared type for all arguments
            vs = [z3.Const('gt_%d' % i, zsort(t)) for i, t in enumerate(ptys)]
            tfact = ev.typed_fact(f(*vs), rty)
            if not z3.is_true(tfact):
                self.global_axioms.append(('ghost:%s/result-type' % name, z3.ForAll(vs, tfact, patterns=[f(*vs)])))
        for rn, rexpr in g.rules + g.axioms:
            st = State()
            sv = ev.ev(rexpr, st, spec=True)
            self.global_axioms.append(('ghost:%s/%s' % (name, rn), ev.truthy(sv)))
        if g.define is not None:
            st = State()
            names = []
            for (pn, pt), pty in zip(g.params, ptys):
                c = z3.Const('gp_' + pn, zsort(pty))
                st.env[pn] = SV(c, pty)
                names.append(c)
            body = ev.ev(g.define, st, spec=True)
            body = coerce(body, rty) if body.ty != rty else body
            app = f(*names)
            recursive = any(d.eq(f) for d in _decls_in(body.term))
            # a recursive definition unfolds itself: a positive weight makes deep unfoldings expensive, so that E-matching
            # gives up (unknown) on an unprovable goal instead of unfolding until the timeout
            self.global_axioms.append(('ghost:%s/def' % name, z3.ForAll(names, app == body.term, patterns=[app],
                                                                         weight=(6 if recursive else 1))))
            if not hasattr(self, 'ghost_defs'):
                self.ghost_defs = {}
            self.ghost_defs[f.name()] = (names, body.term)

    def find_contract(self, qual):
        return self.sc.contracts.get(qual)


def _decls_in(t, seen=None, out=None):
    seen = set() if seen is None else seen
    out = [] if out is None else out
    if t.get_id() in seen:
        return out
    seen.add(t.get_id())
    if z3.is_quantifier(t):
        _decls_in(t.body(), seen, out)
    elif z3.is_app(t):
        if t.decl().kind() == z3.Z3_OP_UNINTERPRETED:
            out.append(t.decl())
        for c in t.children():
            _decls_in(c, seen, out)
    return out


BUILTIN_EXC = ('KeyError', 'IndexError', 'Exception', 'KeyboardInterrupt', 'ValueError', 'TypeError',
               'AssertionError', 'NotImplementedError', 'AttributeError')


class ObligationList(list):
    """the obligations of one function.  Slice mode retracts the obligations of a statement it could not execute
    (`del obligations[mark:]`); the facts ASSUMED after those obligations (a callee precondition that was asserted and then
    assumed, the callee's postcondition, `cond` after a safety check) must go with them -- otherwise the site inside the
    statement, re-evaluated on its own, is "proved" from the assumption of the very obligation that was retracted."""

    def __init__(self, fv):
        super().__init__()
        self._fv = fv

    def __delitem__(self, idx):
        if isinstance(idx, slice):
            gone = self[idx]
            if gone:
                n = min(getattr(o, 'nfacts', len(self._fv.facts)) for o in gone)
                if n < len(self._fv.facts):
                    del self._fv.facts[n:]
        super().__delitem__(idx)


class Contract_stub:
    def __init__(self, modifies):
        self.modifies = modifies


class LoopCtl:
    def __init__(self):
        self.breaks = []
        self.continues = []


class FuncVerifier:
    def __init__(self, engine, qual, fn, contract, module=None, cls=None, enclosing=None, ghost=None):
        self.E = engine
        self.qual = qual
        self.fn = fn
        self.c = contract
        self.module = module
        self.cls = cls
        self.enclosing = enclosing or []
        self.ghost = ghost
        self.facts = []
        self.obligations = ObligationList(self)
        self.binders = []            # stack of (vars, guard) for quantified contexts
        self.bound_env = []          # stack of dict name -> SV
        self.old_state = None
        self.result_sv = None
        self.returns = []            # (state, SV)
        self.loop_stack = []
        self.local_funcs = {}
        self.induct_hook = None
        self.abstracted = []
        self.used_contracts = set()
        self.local_axioms = []
        self._local_pure_done = set()
        self.comp_counter = 0
        self.ret_ty = None
        self._deep_done = set()

    # ------------------------------------------------------------ utilities
    def err(self, node, msg):
        ln = getattr(node, 'lineno', 0)
        raise Unsupported('%s:%s: %s' % (self.qual or (self.ghost and self.ghost.name), ln, msg))

    def bound_type(self, name):
        for src in ((self.c.bound if self.c else {}), (self.ghost.bound if self.ghost else {}), self.E.sc.bound):
            if name in src:
                return self.E.parse_ty(src[name])
        return None

    def add_fact(self, st, f):
        if z3.is_true(f):
            return
        if self.binders:
            raise EngineError('fact added under binder')
        if not z3.is_true(st.pc):
            f = z3.Implies(st.pc, f)
        self.facts.append(f)

    def oblige(self, st, name, goal, node=None, kind='proof', detail=''):
        pc = st.pc
        for vars_, guard in reversed(self.binders):
            goal = z3.ForAll(vars_, z3.Implies(guard, goal)) if vars_ else z3.Implies(guard, goal)
        if z3.is_true(goal) and kind == 'proof':
            # still counted: trivially discharged
            pass
        ob = Obligation('%s/%s' % (self.qual, name), self.qual, len(self.facts), pc, goal, kind,
                        getattr(node, 'lineno', 0), detail)
        self.obligations.append(ob)

    def safety(self, st, what, cond, node, spec):
        if spec:
            return
        from .loops import SAFETY_EXC
        handler = self.find_handler(SAFETY_EXC.get(what)) if getattr(self, 'handlers', None) else None
        if handler is not None:
            if self.binders:
                self.err(node, 'exception handler reached from a quantified context')
            handler.append(st.copy(simp_not(cond)))
            st.pc = simp_and(st.pc, cond)
            return
        if not self.in_slice():
            # (slice mode decides site obligations only: run-time-error freedom of the enclosing code is not its subject)
            self.oblige(st, 'safety[%s]' % what, cond, node)
        # after a safety check passes, execution continues only if cond holds
        if not self.binders:
            self.add_fact(st, cond)

    def typed_fact(self, term, ty):
        k = ty.kind
        if k in ('int', 'bool', 'any'):
            return z3.BoolVal(True)
        if k == 'none':
            return term == P.none
        if k == 'str':
            return P.tag(term) == P.TAG_STR
        if k == 'abs':
            return P.tag(term) == P.TAG_ABS
        if k in ('seq', 'tuple'):
            return P.tag(term) == P.TAG_SEQ
        if k == 'map':
            return P.tag(term) == P.TAG_MAP
        if k == 'set':
            return P.tag(term) == P.TAG_SET
        if k == 'obj':
            return z3.And(P.tag(term) == P.TAG_OBJ, self.isinstance_term(term, ty.name.split('|')))
        if k == 'opt':
            inner = ty.args[0]
            if inner.kind == 'int':
                return z3.Or(term == P.none, P.tag(term) == P.TAG_INT)
            if inner.kind == 'bool':
                return z3.Or(term == P.none, P.tag(term) == P.TAG_BOOL)
            return z3.Or(term == P.none, self.typed_fact(term, inner))
        return z3.BoolVal(True)

    def class_key(self, name):
        k = self.E.fe.resolve(name, self.module, strict=False)
        return k if k is not None else name

    def isinstance_term(self, term, cnames):
        ids = set()
        for cn in [self.class_key(c) for c in cnames]:
            subs = self.E.fe.subclasses(cn) if cn in self.E.fe.classes else []
            if cn in self.E.sc.classdecl or not subs:
                subs = list(subs) + [cn] + [k for k, bs in self.E.sc.classdecl.items() if cn in self._decl_mro(k)]
            for s in subs:
                ids.add(self.E.class_id(s))
        return z3.Or(*[P.cls(term) == i for i in sorted(ids)]) if ids else z3.BoolVal(False)

    def _decl_mro(self, k):
        out = []
        todo = [k]
        while todo:
            x = todo.pop()
            if x in out:
                continue
            out.append(x)
            todo.extend(self.E.sc.classdecl.get(x, []))
            if x in self.E.fe.classes:
                todo.extend(self.E.fe.classes[x].bases)
        return out

    @staticmethod
    def pattern_unsafe(t, depth=0):
        if depth > 8 or not z3.is_app(t):
            return False
        k = t.decl().kind()
        if k in (z3.Z3_OP_ITE, z3.Z3_OP_AND, z3.Z3_OP_OR, z3.Z3_OP_NOT, z3.Z3_OP_IMPLIES, z3.Z3_OP_EQ):
            return True
        return any(FuncVerifier.pattern_unsafe(c, depth + 1) for c in t.children())

    def pattern_safe(self, st, sv):
        """terms used in quantifier patterns must not contain if-then-else / connectives: name them"""
        bad = self.pattern_unsafe
        if self.binders or not bad(sv.term):
            return sv
        c = self.E.fresh('nm', sv.ty)
        self.add_fact(st, c.term == sv.term)
        return c

    def note_term(self, st, term):
        """make a ground term visible to E-matching (adds the harmless fact Trig(term))"""
        if self.binders:
            return
        from .funcs import Trig
        self.add_fact(st, Trig(term))

    def fresh_typed(self, st, base, ty):
        sv = self.E.fresh(base, ty)
        self.add_fact(st, self.typed_fact(sv.term, ty))
        for f in self.deep_facts(sv.term, ty):
            self.add_fact(st, f)
        return sv

    def elem_typed(self, term, ety):
        """typing of a boxed element"""
        if ety.kind == 'int':
            return P.tag(term) == P.TAG_INT
        if ety.kind == 'bool':
            return P.tag(term) == P.TAG_BOOL
        return self.typed_fact(term, ety)

    def deep_facts(self, term, ty, depth=3):
        """quantified typing facts about the contents of a container value (types hold by construction)"""
        out = []
        if depth == 0:
            return out
        k = ty.kind
        n = next(self.E.counter)
        if k == 'opt':
            inner = self.deep_facts(term, ty.args[0], depth)
            return [z3.Implies(term != P.none, f) for f in inner]
        if k in ('seq', 'tuple', 'set'):
            ety = ty.args[0]
            if k == 'set':
                x = z3.Const('x!dt%d' % n, P.V)
                inner = [self.elem_typed(x, ety)] + self.deep_facts(x, ety, depth - 1)
                inner = [f for f in inner if not z3.is_true(f)]
                if inner:
                    out.append(z3.ForAll([x], z3.Implies(P.smem(term, x), z3.And(*inner)), patterns=[P.smem(term, x)]))
            else:
                i = z3.Int('i!dt%d' % n)
                e = P.at(term, i)
                inner = [self.elem_typed(e, ety)] + self.deep_facts(e, ety, depth - 1)
                inner = [f for f in inner if not z3.is_true(f)]
                if inner:
                    out.append(z3.ForAll([i], z3.Implies(z3.And(0 <= i, i < P.slen(term)), z3.And(*inner)),
                                         patterns=[e]))
        elif k == 'map':
            kty, vty = ty.args
            x = z3.Const('k!dt%d' % n, P.V)
            v = P.get(term, x)
            inner = [self.elem_typed(x, kty), self.elem_typed(v, vty)] + self.deep_facts(v, vty, depth - 1)
            inner = [f for f in inner if not z3.is_true(f)]
            if inner:
                out.append(z3.ForAll([x], z3.Implies(P.has(term, x), z3.And(*inner)),
                                     patterns=[P.has(term, x), v]))
        return out

    # ------------------------------------------------------------ truthiness / equality
    def truthy(self, sv):
        if sv.truth is not None:
            return sv.truth
        k = sv.ty.kind
        t = sv.term
        if k == 'bool':
            return t
        if k == 'int':
            return t != 0
        if k == 'none':
            return z3.BoolVal(False)
        if k in ('seq', 'tuple'):
            return P.slen(t) > 0
        if k == 'map':
            return P.slen(P.keys(t)) > 0
        if k == 'set':
            return P.slen(P.elems(t)) > 0
        if k == 'str':
            return t != self.E.strconst('')
        if k in ('obj', 'abs'):
            return z3.BoolVal(True)
        if k == 'opt':
            inner = sv.ty.args[0]
            return z3.And(t != P.none, self.truthy(unbox(t, inner)))
        if k == 'any':
            return P.truth(t)
        raise EngineError('truthiness of %r unknown' % (sv,))

    def py_eq(self, a, b, node=None, st=None, spec=False):
        ta, tb = a.ty, b.ty
        if ta.kind in ('int', 'bool') and tb.kind in ('int', 'bool'):
            if ta.kind != tb.kind:
                a, b = coerce(a, INT), coerce(b, INT)
            elif ta.kind == 'bool':
                for x, y in ((a.term, b.term), (b.term, a.term)):
                    if z3.is_true(x):
                        return y
                    if z3.is_false(x):
                        return simp_not(y)
            return a.term == b.term
        if ta.is_none or tb.is_none:
            return box(a) == box(b)
        sa, sb = ta.strip_opt(), tb.strip_opt()
        if sa.is_any or sb.is_any:
            if T.is_flat(sa) or T.is_flat(sb):
                return box(a) == box(b)
            # values of unknown static type: the answer of == is an unconstrained function of the two values (no side
            # effect, same answer for the same two values during the call -- as for PyEq)
            if '__anyeq' not in self.E.pure_syms:
                self.E.pure_syms['__anyeq'] = z3.Function('AnyEq', P.V, P.V, z3.BoolSort())
            self.E.assumptions.add('== between values of unknown static type is an unconstrained pure function of the two values')
            return self.E.pure_syms['__anyeq'](box(a), box(b))
        if sa.kind in ('int', 'bool', 'str', 'abs') or sb.kind in ('int', 'bool', 'str', 'abs'):
            if sa.kind in ('int', 'bool') and sb.kind in ('int', 'bool') and sa.kind != sb.kind:
                return coerce(coerce(a, sa), INT).term == coerce(coerce(b, sb), INT).term
            return box(a) == box(b)
        if sa.is_seq and sb.is_seq:
            if T.is_flat(sa) and T.is_flat(sb):
                e = P.SeqEq(box(a), box(b))
                if ta.is_opt or tb.is_opt:
                    return z3.Or(z3.And(box(a) == P.none, box(b) == P.none),
                                 z3.And(box(a) != P.none, box(b) != P.none, e))
                return e
            return self.seq_obj_eq(a, b, st, spec)
        if sa.is_set and sb.is_set:
            return P.SetEq(box(a), box(b))
        if sa.is_map and sb.is_map:
            return P.MapEq(box(a), box(b))
        if sa.is_obj and sb.is_obj:
            return self.obj_eq(a, b, st, spec, node)
        if sa.kind != sb.kind:
            # values of different kinds are never equal in Python (for the kinds modelled)
            return z3.BoolVal(False) if not (ta.is_opt and tb.is_opt) else z3.And(box(a) == P.none, box(b) == P.none)
        raise EngineError('equality between %r and %r' % (ta, tb))

    def eq_family(self, cname):
        """does == on a value of static class cname dispatch to a user __eq__ (own, inherited, or of a subclass)?"""
        fe = self.E.fe
        for c in cname.split('|'):
            if c not in fe.classes:
                continue
            if fe.resolve_method(c, '__eq__')[1] is not None:
                return True
            for sub in fe.subclasses(c):
                if '__eq__' in fe.classes[sub].methods:
                    return True
        return False

    def obj_eq(self, a, b, st, spec, node=None):
        sa = a.ty.strip_opt()
        if not self.eq_family(sa.name):
            return box(a) == box(b)
        f = self.py_eq_sym()
        return f(box(a), box(b))

    def py_eq_sym(self):
        if 'PyEq' in self.E.sc.ghosts:
            self.E.ensure_ghost_axioms('PyEq')
            return self.E.ghost_sym('PyEq')[0]
        if '__pyeq' not in self.E.pure_syms:
            self.E.pure_syms['__pyeq'] = z3.Function('PyEq', P.V, P.V, z3.BoolSort())
        return self.E.pure_syms['__pyeq']

    def seq_obj_eq(self, a, b, st, spec):
        f = self.py_eq_sym()
        i = z3.Int('i!seqeq')
        ta, tb = box(a), box(b)
        return z3.And(P.slen(ta) == P.slen(tb),
                      z3.ForAll([i], z3.Implies(z3.And(0 <= i, i < P.slen(ta)),
                                                z3.Or(P.at(ta, i) == P.at(tb, i), f(P.at(ta, i), P.at(tb, i)))),
                                patterns=[P.at(ta, i), P.at(tb, i)]))

    def member(self, x, c, node, st, spec):
        ct = c.ty.strip_opt()
        if c.ty.is_opt:
            self.safety(st, 'none-deref', c.term != P.none, node, spec)
        if ct.is_seq:
            et = ct.args[0]
            if T.is_flat(et) or et.is_any and T.is_flat(x.ty) or (et.is_obj and not self.eq_family(et.name)):
                return P.mem(c.term, box(x))
            if et.is_obj or x.ty.strip_opt().is_obj:
                f = self.py_eq_sym()
                i = z3.Int('i!mem%d' % next(self.E.counter))
                xt = box(x)
                return z3.Exists([i], z3.And(0 <= i, i < P.slen(c.term),
                                             z3.Or(P.at(c.term, i) == xt, f(P.at(c.term, i), xt))))
            return P.mem(c.term, box(x))
        if ct.is_map:
            return P.has(c.term, box(x))
        if ct.is_set:
            et = ct.args[0]
            if et.is_obj and self.eq_family(et.name):
                f = self.py_eq_sym()
                y = z3.Const('y!smem%d' % next(self.E.counter), P.V)
                xt = box(x)
                return z3.Exists([y], z3.And(P.smem(c.term, y), z3.Or(y == xt, f(y, xt))))
            return P.smem(c.term, box(x))
        if ct.kind == 'str':
            return P.contains_str(c.term, box(x))
        raise EngineError('membership in %r (line %s)' % (c.ty, getattr(node, 'lineno', '?')))

    # ------------------------------------------------------------ expressions
    def lookup(self, name, st, node, spec):
        for d in reversed(self.bound_env):
            if name in d:
                return d[name]
        if name in st.env:
            return st.env[name]
        if spec and name == 'result' and self.result_sv is not None:
            return self.result_sv
        # module-level / declared globals
        sv = self.global_value(name, st)
        if sv is not None:
            return sv
        # a class used as a value (type(x) in (A, B), isinstance handled elsewhere)
        if self.module is not None:
            ck = self.E.fe.resolve(name, self.module, strict=False)
            if ck is not None and (name in self.module.classes or name in self.module.imports):
                return SV(P.I(z3.IntVal(self.E.class_id(ck))), T.Abs('PyType'))
        if spec and self.in_slice():
            # a site clause may mention a declared local that is not bound yet on this path: an arbitrary value of its type
            dt = self.declared_local(name)
            if dt is not None:
                sv = self.E.fresh(name, dt)
                st.env[name] = sv
                return sv
        self.err(node, 'unknown name %r' % name)

    def global_key(self, name):
        mod = self.module.name if self.module else None
        for cand in ((mod + '.' + name) if mod else None, name):
            if cand and cand in self.E.sc.globals:
                return cand
        if self.module and name in self.module.imports and self.module.imports[name] in self.E.sc.globals:
            return self.module.imports[name]
        # sidecar context (ghost axioms, contract clauses): a declared global with that last component
        cands = [k for k in self.E.sc.globals if k.endswith('.' + name)]
        if len(cands) == 1 and (self.module is None or name not in self.module.functions):
            return cands[0]
        return None

    def global_value(self, name, st):
        key = self.global_key(name)
        if key is None:
            return None
        gname = 'glob:' + key
        if gname in st.env:
            return st.env[gname]
        ty = self.E.parse_ty(self.E.sc.globals[key])
        if key not in self.E.abs_consts:
            self.E.abs_consts[key] = z3.Const('g_' + key.replace('.', '_'), zsort(ty))
        sv = SV(self.E.abs_consts[key], ty)
        tf = self.typed_fact(sv.term, ty)
        if not z3.is_true(tf):
            self.local_axioms.append(tf)
        return sv

    def ev(self, node, st, spec=False):
        m = getattr(self, 'ev_' + type(node).__name__, None)
        if m is None:
            self.err(node, 'expression %s not in subset' % type(node).__name__)
        return m(node, st, spec)

    def ev_Constant(self, node, st, spec):
        v = node.value
        if v is None:
            return SV(P.none, NONE)
        if isinstance(v, bool):
            return SV(z3.BoolVal(v), BOOL)
        if isinstance(v, int):
            return SV(z3.IntVal(v), INT)
        if isinstance(v, str):
            return SV(self.E.strconst(v), STR)
        self.err(node, 'constant %r' % (v,))

    def ev_Name(self, node, st, spec):
        return self.lookup(node.id, st, node, spec)

    def ev_element(self, e, st, spec):
        """an element of a list / tuple display; in slice mode an element outside the subset (a bound method, a lambda, a call
        of unknown code without sites) is an arbitrary value -- the display still has its length"""
        if spec or not self.in_slice() or self.binders:
            return self.ev(e, st, spec)
        has_call = any(isinstance(n, ast.Call) for n in ast.walk(e))
        no, snap_env, snap_heap, snap_pc = len(self.obligations), dict(st.env), dict(st.heap), st.pc
        try:
            return self.ev(e, st, spec)
        except (Unsupported, EngineError) as exc:
            del self.obligations[no:]
            if has_call:
                # the element may have called unknown code before it failed: arbitrary heap afterwards; a site inside it
                # must be evaluable on its own (probe_sites raises otherwise)
                st.env, st.heap, st.pc = snap_env, snap_heap, snap_pc
                from .slicing import havoc_after_partial, probe_sites
                probe_sites(self, ast.Expr(value=e), st, 'element / appended value: %s' % str(exc)[:100])
                self.abstracted.append(dict(line=getattr(e, 'lineno', 0), stmt='element ' + ast.unparse(e)[:80],
                                            reason=str(exc)[:160]))
                havoc_after_partial(self, st, e)
            return self.E.fresh('elt', ANY)

    def ev_Tuple(self, node, st, spec):
        elts = [self.ev_element(e, st, spec) for e in node.elts]
        ety = None
        for e in elts:
            ety = e.ty if ety is None else T.join(ety, e.ty)
        t = P.seq_empty
        for e in elts:
            t = P.snoc(t, box(coerce(e, ety)))
        return SV(t, T.Tuple(ety if ety is not None else ANY))

    def ev_List(self, node, st, spec):
        sv = self.ev_Tuple(node, st, spec)
        return SV(sv.term, T.Seq(sv.ty.args[0]))

    def ev_Set(self, node, st, spec):
        elts = [self.ev(e, st, spec) for e in node.elts]
        ety = None
        for e in elts:
            ety = e.ty if ety is None else T.join(ety, e.ty)
        t = P.set_empty
        for e in elts:
            t = P.sadd(t, box(coerce(e, ety)))
        return SV(t, T.Set(ety or ANY))

    def ev_Dict(self, node, st, spec):
        t = P.map_empty
        kty = vty = None
        items = []
        for k, v in zip(node.keys, node.values):
            ks, vs = self.ev(k, st, spec), self.ev(v, st, spec)
            kty = ks.ty if kty is None else T.join(kty, ks.ty)
            vty = vs.ty if vty is None else T.join(vty, vs.ty)
            items.append((ks, vs))
        for ks, vs in items:
            t = P.put(t, box(coerce(ks, kty)), box(coerce(vs, vty)))
        return SV(t, T.Map(kty or ANY, vty or ANY))

    def ev_JoinedStr(self, node, st, spec):
        return self.opaque_str(st, [self.ev(v.value, st, spec) for v in node.values if isinstance(v, ast.FormattedValue)],
                               'fstr%d' % node.lineno)

    def opaque_str(self, st, args, tagname):
        tagname = re.sub(r'^(join|format|mod|strip|lstrip|rstrip|replace|lower|upper|center)\d+$', r'\1', tagname) \
            + ('_%d' % len(args) if args else '')
        f = z3.Function('fmt!' + tagname, *([P.V] * len(args) + [P.V])) if args else None
        t = f(*[box(a) for a in args]) if args else self.E.fresh(tagname, STR).term
        sv = SV(t, STR)
        if not self.binders:
            self.add_fact(st, P.tag(t) == P.TAG_STR)
        return sv

    def ev_UnaryOp(self, node, st, spec):
        v = self.ev(node.operand, st, spec)
        if isinstance(node.op, ast.Not):
            return SV(simp_not(self.truthy(v)), BOOL)
        if isinstance(node.op, ast.USub):
            return SV(-coerce(v, INT).term, INT)
        self.err(node, 'unary op')

    def ev_BoolOp(self, node, st, spec):
        is_and = isinstance(node.op, ast.And)
        vals = []
        saved_pc = st.pc
        guards = []
        try:
            for i, e in enumerate(node.values):
                v = self.ev(e, st, spec)
                vals.append(v)
                if i < len(node.values) - 1:
                    tv = self.truthy(v)
                    g = tv if is_and else simp_not(tv)
                    guards.append(g)
                    if self.binders:
                        self.binders.append(([], g))
                    else:
                        st.pc = simp_and(st.pc, g)
        finally:
            if self.binders:
                for _ in guards:
                    if self.binders and self.binders[-1][0] == []:
                        self.binders.pop()
            st.pc = saved_pc
        if all(v.ty.kind == 'bool' for v in vals) or spec:
            ts = [self.truthy(v) for v in vals]
            return SV(z3.And(*ts) if is_and else z3.Or(*ts), BOOL)
        # value semantics
        ts = [self.truthy(v) for v in vals]
        truth = z3.And(*ts) if is_and else z3.Or(*ts)
        ty = vals[0].ty
        for v in vals[1:]:
            ty = T.join(ty, v.ty)
        if ty.is_any:
            # mixed operand types: only the truthiness of the result is tracked
            return SV(self.E.fresh('boolop', ANY).term, ANY, truth)
        res = coerce(vals[-1], ty)
        for v in reversed(vals[:-1]):
            tv = self.truthy(v)
            cv = coerce(v, ty)
            res = SV(z3.If(tv, res.term, cv.term) if is_and else z3.If(tv, cv.term, res.term), ty)
        return res

    @staticmethod
    def _none_test(test):
        """(name, True) for `name is not None`, (name, False) for `name is None`"""
        if isinstance(test, ast.Compare) and len(test.ops) == 1 and isinstance(test.left, ast.Name) \
                and isinstance(test.comparators[0], ast.Constant) and test.comparators[0].value is None:
            if isinstance(test.ops[0], ast.IsNot):
                return test.left.id, True
            if isinstance(test.ops[0], ast.Is):
                return test.left.id, False
        return None, None

    def _ifexp_strip(self, node, a, b):
        """`x if x is not None else e`: the first branch is x known to be non-None"""
        nm, pos = self._none_test(node.test)
        if nm is not None:
            if pos and isinstance(node.body, ast.Name) and node.body.id == nm and a.ty.is_opt:
                a = SV(a.term, a.ty.strip_opt())
            if not pos and isinstance(node.orelse, ast.Name) and node.orelse.id == nm and b.ty.is_opt:
                b = SV(b.term, b.ty.strip_opt())
        return a, b

    def ev_IfExp(self, node, st, spec):
        c = self.truthy(self.ev(node.test, st, spec))
        if not spec and not self.binders and not self.bound_env:
            # branches may have effects (calls): evaluate them on separate states and join
            s1, s2 = st.copy(c), st.copy(simp_not(c))
            a = self.ev(node.body, s1, spec)
            b = self.ev(node.orelse, s2, spec)
            self.merge_into(st, [s1, s2], conds=[c, simp_not(c)])
            a, b = self._ifexp_strip(node, a, b)
            ty = T.join(a.ty, b.ty)
            return SV(z3.If(c, coerce(a, ty).term, coerce(b, ty).term), ty)
        saved = st.pc
        if self.binders:
            self.binders.append(([], c))
        else:
            st.pc = simp_and(saved, c)
        a = self.ev(node.body, st, spec)
        if self.binders:
            self.binders.pop()
            self.binders.append(([], simp_not(c)))
        else:
            st.pc = simp_and(saved, simp_not(c))
        b = self.ev(node.orelse, st, spec)
        if self.binders:
            self.binders.pop()
        st.pc = saved
        a, b = self._ifexp_strip(node, a, b)
        ty = T.join(a.ty, b.ty)
        return SV(z3.If(c, coerce(a, ty).term, coerce(b, ty).term), ty)

    def ev_Compare(self, node, st, spec):
        left = self.ev(node.left, st, spec)
        res = []
        for op, rn in zip(node.ops, node.comparators):
            right = self.ev(rn, st, spec)
            res.append(self.compare(op, left, right, node, st, spec))
            left = right
        return SV(z3.And(*res) if len(res) > 1 else res[0], BOOL)

    def compare(self, op, a, b, node, st, spec):
        if isinstance(op, ast.Eq):
            return self.py_eq(a, b, node, st, spec)
        if isinstance(op, ast.NotEq):
            return simp_not(self.py_eq(a, b, node, st, spec))
        if isinstance(op, (ast.Is, ast.IsNot)):
            if a.ty.kind in ('int', 'bool') and b.ty.kind in ('int', 'bool'):
                r = coerce(a, INT).term == coerce(b, INT).term if a.ty != b.ty else a.term == b.term
            else:
                r = box(a) == box(b)
            return r if isinstance(op, ast.Is) else simp_not(r)
        if isinstance(op, (ast.In, ast.NotIn)):
            r = self.member(a, b, node, st, spec)
            return r if isinstance(op, ast.In) else simp_not(r)
        x, y = coerce(a, INT), coerce(b, INT)
        if isinstance(op, ast.Lt):
            return x.term < y.term
        if isinstance(op, ast.LtE):
            return x.term <= y.term
        if isinstance(op, ast.Gt):
            return x.term > y.term
        if isinstance(op, ast.GtE):
            return x.term >= y.term
        self.err(node, 'comparison operator')

    def ev_BinOp(self, node, st, spec):
        a = self.ev(node.left, st, spec)
        b = self.ev(node.right, st, spec)
        op = node.op
        for side in (a, b):
            if side.ty.is_opt and side.ty.args[0].kind == 'int':
                self.safety(st, 'none-deref', side.term != P.none, node, spec)
        if a.ty.is_opt and a.ty.args[0].kind == 'int':
            a = coerce(a, INT)
        if b.ty.is_opt and b.ty.args[0].kind == 'int':
            b = coerce(b, INT)
        ka, kb = a.ty.kind, b.ty.kind
        if isinstance(op, ast.Add) and (ka == 'str' or kb == 'str'):
            for side in (a, b):
                if side.ty.is_opt:
                    self.safety(st, 'none-deref', side.term != P.none, node, spec)
        if ka in ('int', 'bool') and kb in ('int', 'bool'):
            x, y = coerce(a, INT).term, coerce(b, INT).term
            if isinstance(op, ast.Add):
                return SV(x + y, INT)
            if isinstance(op, ast.Sub):
                return SV(x - y, INT)
            if isinstance(op, ast.Mult):
                return SV(x * y, INT)
            if isinstance(op, ast.FloorDiv):
                self.safety(st, 'div-zero', y != 0, node, spec)
                return SV(x / y, INT) if False else SV(z3.If(y > 0, x / y, -((-x) / (-y)) if False else x / y), INT)
            if isinstance(op, ast.Mod):
                self.safety(st, 'div-zero', y != 0, node, spec)
                return SV(x % y, INT)
        if isinstance(op, ast.Add):
            if a.ty.is_seq and b.ty.is_seq:
                ety = T.join(a.ty.args[0], b.ty.args[0])
                kind = T.Tuple if a.ty.kind == 'tuple' and b.ty.kind == 'tuple' else T.Seq
                return SV(P.append(a.term, b.term), kind(ety))
            if ka == 'str' or kb == 'str':
                return SV(P.sconcat(box(a), box(b)), STR)
        if isinstance(op, ast.Mod) and ka == 'str':
            return self.opaque_str(st, [a, b], 'mod%d' % node.lineno)
        if isinstance(op, ast.Sub) and a.ty.is_set and b.ty.is_set:
            return SV(P.sdiff(a.term, b.term), a.ty)
        if isinstance(op, ast.BitOr) and a.ty.is_set and b.ty.is_set:
            return SV(P.sunion(a.term, b.term), T.join(a.ty, b.ty))
        if isinstance(op, ast.BitAnd) and a.ty.is_set and b.ty.is_set:
            return SV(P.sinter(a.term, b.term), T.join(a.ty, b.ty))
        self.err(node, 'binary op %s on %r, %r' % (type(op).__name__, a.ty, b.ty))

    # ---- subscripts
    def norm_index(self, seq_term, idx_node, st, spec):
        i = coerce(self.ev(idx_node, st, spec), INT).term
        if isinstance(idx_node, ast.UnaryOp) and isinstance(idx_node.op, ast.USub):
            return P.slen(seq_term) + i
        if isinstance(idx_node, ast.Constant):
            return i
        if spec:
            return i
        return z3.If(i < 0, P.slen(seq_term) + i, i)

    def slice_bound(self, seq_term, node, default, st, spec):
        if node is None:
            return default
        v = coerce(self.ev(node, st, spec), INT).term
        n = P.slen(seq_term)
        if isinstance(node, ast.Constant) and node.value >= 0:
            return z3.If(v > n, n, v)
        if isinstance(node, ast.UnaryOp) and isinstance(node.op, ast.USub) and isinstance(node.operand, ast.Constant):
            w = n + v
            return z3.If(w < 0, 0, w)
        w = z3.If(v < 0, n + v, v)
        return z3.If(w < 0, 0, z3.If(w > n, n, w))

    def ev_Subscript(self, node, st, spec):
        base = self.ev(node.value, st, spec)
        bt = base.ty
        if self.is_record(bt.strip_opt()) and isinstance(node.slice, ast.Constant) and isinstance(node.slice.value, str):
            fake = ast.copy_location(ast.Attribute(value=node.value, attr=node.slice.value, ctx=ast.Load()), node)
            return self.ev_Attribute(fake, st, spec)
        if bt.is_opt:
            self.safety(st, 'none-deref', base.term != P.none, node, spec)
            bt = bt.strip_opt()
            base = SV(base.term, bt)
        if bt.is_seq:
            if isinstance(node.slice, ast.Slice):
                if node.slice.step is not None:
                    self.err(node, 'slice step')
                n = P.slen(base.term)
                lo = self.slice_bound(base.term, node.slice.lower, z3.IntVal(0), st, spec)
                hi = self.slice_bound(base.term, node.slice.upper, n, st, spec)
                if node.slice.lower is None and node.slice.upper is None:
                    return SV(base.term, bt)
                if node.slice.lower is None:
                    return SV(P.slice_to(base.term, coerce(self.ev(node.slice.upper, st, spec), INT).term), bt)
                if node.slice.upper is None:
                    return SV(P.slice_from(base.term, coerce(self.ev(node.slice.lower, st, spec), INT).term), bt)
                hi2 = z3.If(hi < lo, lo, hi)
                if not self.binders and not spec:
                    # the clamped bounds contain if-then-else: name them, so that the slice can occur in quantifier patterns
                    lo = self.pattern_safe(st, SV(lo, INT)).term
                    hi2 = self.pattern_safe(st, SV(hi2, INT)).term
                    self.note_term(st, P.drop(P.take(base.term, hi2), lo))
                return SV(P.drop(P.take(base.term, hi2), lo), bt)
            i = self.norm_index(base.term, node.slice, st, spec)
            self.safety(st, 'index', z3.And(0 <= i, i < P.slen(base.term)), node, spec)
            return self.extract(st, P.at(base.term, i), bt.args[0], spec)
        if bt.is_map:
            k = self.ev(node.slice, st, spec)
            kt = box(k)
            if bt.name == 'defaultlist':
                # defaultdict(list): a missing key reads as [] (the insertion it causes is not observable through
                # the read itself; stores go through assign_into)
                return SV(z3.If(P.has(base.term, kt), P.get(base.term, kt), P.seq_empty), bt.args[1])
            self.safety(st, 'key', P.has(base.term, kt), node, spec)
            return self.extract(st, P.get(base.term, kt), bt.args[1], spec)
        self.err(node, 'subscript on %r' % bt)

    def extract(self, st, term, ety, spec=False):
        """value taken out of a container/field: static type ety holds by construction"""
        sv = unbox(term, ety)
        if spec or self.bound_env:
            return sv
        tf = self.typed_fact(term, ety) if zsort(ety) == P.V else (
            P.tag(term) == (P.TAG_INT if ety.kind == 'int' else P.TAG_BOOL))
        if not z3.is_true(tf):
            if self.binders:
                pass
            else:
                self.add_fact(st, tf)
        return sv

    # ---- attributes
    def field_type(self, cname, attr, node=None):
        d = self.E.field_types.get(attr)
        if d is None:
            self.err(node, 'no field type declared for .%s' % attr)
        for c in cname.split('|'):
            for k in self._decl_mro(c) if (c in self.E.sc.classdecl or c in self.E.fe.classes) else [c]:
                if k in d:
                    return self.E.parse_ty(d[k])
        if '*' in d:
            return self.E.parse_ty(d['*'])
        self.err(node, 'class %s has no declared field %s' % (cname, attr))

    def subclass_field(self, cname, attr, node):
        d = self.E.field_types.get(attr) or {}
        fe = self.E.fe
        owners, tys = [], set()
        for c in cname.split('|'):
            subs = fe.subclasses(c) if c in fe.classes else []
            for owner, t in d.items():
                if owner in subs or c in self._decl_mro(owner):
                    owners.append(owner)
                    tys.add(t)
        if not owners or len(tys) != 1:
            self.err(node, 'class %s has no declared field %s (and no unique subclass field)' % (cname, attr))
        return self.E.parse_ty(tys.pop()), owners

    @staticmethod
    def heap_key(attr, fty):
        k = fty.kind
        return attr if k not in ('int', 'bool') else attr + ('#i' if k == 'int' else '#b')

    def heap_array(self, st, attr, fty):
        key = self.heap_key(attr, fty)
        if key not in st.heap:
            st.heap[key] = z3.Const('H_%s!0' % key, z3.ArraySort(P.V, zsort(fty)))
        return st.heap[key]

    def field_variants(self, attr):
        """the distinct (heap key, type) variants under which attribute `attr` is declared"""
        d = self.E.field_types.get(attr) or {}
        out = {}
        for t in d.values():
            ty = self.E.parse_ty(t)
            out.setdefault(self.heap_key(attr, ty), ty)
        return list(out.items())

    def modifies_keys(self, contract):
        """heap keys a contract may modify.  '.attr' = every variant of attr; '.Class.attr' = that class's variant"""
        out = set()
        for m in contract.modifies:
            if not m.startswith('.'):
                continue
            parts = m[1:].split('.')
            if len(parts) == 1:
                if parts[0] == '*':
                    out.add('*')
                    for a in self.E.field_types:
                        for key, _ in self.field_variants(a):
                            out.add(key)
                    continue
                for key, _ in self.field_variants(parts[0]):
                    out.add(key)
            else:
                cname, attr = parts
                t = (self.E.field_types.get(attr) or {}).get(cname)
                if t is None:
                    raise EngineError('modifies %s: class %s has no declared field %s' % (m, cname, attr))
                out.add(self.heap_key(attr, self.E.parse_ty(t)))
        return out

    def is_record(self, ty):
        return ty.is_obj and any(c in self.E.sc.dict_records for c in ty.name.split('|'))

    def ev_Attribute(self, node, st, spec):
        if node.attr == '__class__' and not (isinstance(node.value, ast.Name) and self.module
                                              and node.value.id in self.module.imports and node.value.id not in st.env):
            # x.__class__ : the class of the object, as a value that can be compared with == / another __class__
            base = self.ev(node.value, st, spec)
            if base.ty.strip_opt().kind in ('obj', 'any'):
                return SV(P.I(P.cls(base.term)), T.Abs('PyType'))
        # module constant e.g. ast.ClassDeclaration handled by callers; here: object field read
        if isinstance(node.value, ast.Name) and self.module and node.value.id in self.module.imports \
                and node.value.id not in st.env and not any(node.value.id in d for d in self.bound_env):
            sv = self.global_value(self.module.imports[node.value.id] + '.' + node.attr, st)
            if sv is not None:
                return sv
            if self.module.imports[node.value.id] not in self.E.fe.modules and \
                    not self.module.imports[node.value.id].startswith('src'):
                # a constant of a library module (re.MULTILINE, ...): an opaque value
                return SV(z3.Const('ext!%s.%s' % (self.module.imports[node.value.id], node.attr), P.V), ANY)
        if isinstance(node.value, ast.Name):
            sv = self.global_value(node.value.id + '.' + node.attr, st)
            if sv is not None and node.value.id not in st.env:
                return sv
        # a class of another module used as a value (tp.TypeParameter in a tuple of classes)
        if isinstance(node.value, ast.Name) and self.module is not None and node.value.id in self.module.imports \
                and node.value.id not in st.env:
            mod = self.module.imports[node.value.id]
            if mod in self.E.fe.modules and node.attr in self.E.fe.modules[mod].classes:
                ck = self.E.fe.modules[mod].classes[node.attr].key
                return SV(P.I(z3.IntVal(self.E.class_id(ck))), T.Abs('PyType'))
        # class attribute constant, e.g. ast.ClassDeclaration.REGULAR or Variance.INVARIANT
        cref = None
        if isinstance(node.value, ast.Name) and self.module is not None and node.value.id not in st.env:
            cref = self.E.fe.resolve(node.value.id, self.module, strict=False) \
                if (node.value.id in self.module.classes or node.value.id in self.module.imports) else None
        elif isinstance(node.value, ast.Attribute) and isinstance(node.value.value, ast.Name) and self.module is not None \
                and node.value.value.id in self.module.imports and node.value.value.id not in st.env:
            mod = self.module.imports[node.value.value.id]
            if mod in self.E.fe.modules and node.value.attr in self.E.fe.modules[mod].classes:
                cref = self.E.fe.modules[mod].classes[node.value.attr].key
        if cref is not None and cref in self.E.fe.classes and node.attr in self.E.fe.classes[cref].class_attrs:
            cv = self.E.fe.classes[cref].class_attrs[node.attr]
            if isinstance(cv, ast.Constant):
                return self.ev_Constant(cv, st, spec)
        base = self.ev(node.value, st, spec)
        bt = base.ty
        if bt.is_opt:
            self.safety(st, 'none-deref', base.term != P.none, node, spec)
            bt = bt.strip_opt()
        if bt.is_any and node.attr in self.E.field_types:
            # duck-typed attribute access: the object must be of a class that declares the field (unique field type)
            d = self.E.field_types[node.attr]
            tys = set(d.values())
            if len(tys) == 1:
                fty = self.E.parse_ty(tys.pop())
                self.safety(st, 'attr', z3.And(P.tag(base.term) == P.TAG_OBJ, self.isinstance_term(base.term, list(d))),
                            node, spec)
                arr = self.heap_array(st, node.attr, fty)
                return SV(z3.Select(arr, base.term), fty)
        if not bt.is_obj:
            self.err(node, 'attribute .%s on %r' % (node.attr, bt))
        try:
            fty = self.field_type(bt.name, node.attr, node)
        except Unsupported:
            # the static class does not declare the field: it must be one of the subclasses that do
            fty, owners = self.subclass_field(bt.name, node.attr, node)
            self.safety(st, 'attr', self.isinstance_term(base.term, owners), node, spec)
        arr = self.heap_array(st, node.attr, fty)
        val = z3.Select(arr, base.term)
        sv = SV(val, fty)
        tf = self.typed_fact(val, fty)
        if not z3.is_true(tf) and not self.binders and not spec and not self.bound_env:
            self.add_fact(st, tf)
        if not spec and not self.binders and not self.bound_env and self.c is not None \
                and (self.c.opts.get('frame') or self.c.opts.get('heap_closed')):
            # well-formed heaps: whatever an allocated object refers to is allocated (objects cannot point to the future)
            from .heap import ALLOC0
            acur = st.env['__alloc'].term if '__alloc' in st.env else ALLOC0
            k = fty.strip_opt().kind
            if k == 'obj':
                self.add_fact(st, z3.Implies(z3.And(z3.Select(acur, base.term), val != P.none), z3.Select(acur, val)))
            elif k in ('seq', 'tuple') and fty.strip_opt().args[0].strip_opt().is_obj:
                i = z3.Int('i!al%d' % next(self.E.counter))
                self.add_fact(st, z3.Implies(z3.Select(acur, base.term), z3.ForAll(
                    [i], z3.Implies(z3.And(0 <= i, i < P.slen(val), P.at(val, i) != P.none), z3.Select(acur, P.at(val, i))),
                    patterns=[P.at(val, i)])))
        if not self.binders and not self.bound_env and fty.kind in ('map', 'seq', 'set', 'tuple', 'opt', 'obj'):
            key = val.get_id()
            if key not in self._deep_done and not self.pattern_unsafe(val):
                self._deep_done.add(key)
                # static typing of a heap term is path independent: recorded unguarded
                base_ok = z3.And(base.term != P.none) if True else None
                for f in [tf] + self.deep_facts(val, fty):
                    if not z3.is_true(f):
                        self.local_axioms.append(z3.Implies(base_ok, f))
        return sv

    # ---- quantifiers & spec forms
    def with_binder(self, names, tys, fn, guard_fn=None):
        vars_ = []
        d = {}
        for n, t in zip(names, tys):
            c = z3.Const('%s!b%d' % (n, next(self.E.counter)), zsort(t))
            vars_.append(c)
            d[n] = SV(c, t)
        self.bound_env.append(d)
        try:
            return vars_, fn(d)
        finally:
            self.bound_env.pop()

    def quantifier(self, node, st, is_forall):
        lam = node.args[0]
        if not isinstance(lam, ast.Lambda):
            self.err(node, 'forall/exists expect a lambda')
        names = [a.arg for a in lam.args.args]
        tys = []
        for n in names:
            t = self.bound_type(n)
            if t is None:
                self.err(node, 'no bound() type for quantified variable %s' % n)
            tys.append(t)
        kws = {k.arg: k.value for k in node.keywords}

        def body(d):
            b = self.truthy(self.ev(lam.body, st, True))
            pats = []
            if 'triggers' in kws:
                for pe in kws['triggers'].elts:
                    if isinstance(pe, ast.Tuple):
                        pats.append(z3.MultiPattern(*[self.pattern_term(x, st) for x in pe.elts]))
                    else:
                        pats.append(self.pattern_term(pe, st))
            return b, pats
        vars_, (b, pats) = self.with_binder(names, tys, body)
        guards = [self.typed_fact(v, t) for v, t in zip(vars_, tys) if zsort(t) == P.V]
        guards = [g for g in guards if not z3.is_true(g)]
        if self.ghost is not None:
            guards = []      # ghost declarations are total: their axioms range over all values
        if guards:
            b = z3.Implies(z3.And(*guards), b) if is_forall else z3.And(*(guards + [b]))
        q = z3.ForAll if is_forall else z3.Exists
        try:
            return SV(q(vars_, b, patterns=pats) if pats else q(vars_, b), BOOL)
        except z3.Z3Exception as e:
            raise EngineError('%s: invalid trigger %s (line %s): triggers must not contain if-then-else or connectives'
                              % (self.qual, [str(p)[:200] for p in pats], getattr(node, 'lineno', '?')))

    def pattern_term(self, node, st):
        sv = self.ev(node, st, True)
        return sv.term

    def ghost_app(self, name, args, st, node):
        f, ptys, rty, g = self.E.ghost_sym(name)
        self.E.ensure_ghost_axioms(name)
        if len(args) != len(ptys):
            self.err(node, 'ghost %s arity' % name)
        ts = [coerce(a, pt).term for a, pt in zip(args, ptys)]
        app = f(*ts)
        if self.induct_hook and self.induct_hook[0] == name:
            return SV(self.induct_hook[1](app, args), rty)
        return SV(app, rty)

    # ---- calls
    def ev_Call(self, node, st, spec):
        from .calls import eval_call
        if not (self.in_slice() and not spec and not self.binders and not self.bound_env):
            return eval_call(self, node, st, spec)
        # slice mode: a call that cannot be resolved / has no contract is an unknown callee: arbitrary result, arbitrary
        # effect on the heap (subject to the global invariants), after its arguments have been evaluated
        no, snap_env, snap_heap, snap_pc = len(self.obligations), dict(st.env), dict(st.heap), st.pc
        try:
            return eval_call(self, node, st, spec)
        except (Unsupported, EngineError) as e:
            del self.obligations[no:]
            st.env, st.heap, st.pc = snap_env, snap_heap, snap_pc
            from .slicing import havoc_state, site_nodes
            if any(n is node for _, _, n in site_nodes(self, ast.Expr(value=node))):
                raise            # the call itself is a site: it must be executable
            f = node.func
            if isinstance(f, ast.Attribute) and not (isinstance(f.value, ast.Name) and self.module is not None
                                                    and f.value.id in self.module.imports and f.value.id not in st.env):
                self.ev(f.value, st, spec)
            for a in node.args:
                self.ev(a.value if isinstance(a, ast.Starred) else a, st, spec)
            for k in node.keywords:
                self.ev(k.value, st, spec)
            self.abstracted.append(dict(line=node.lineno, stmt='call ' + ast.unparse(node)[:90], reason=str(e)[:160]))
            # the unknown callee may mutate, in place, any container it can reach through its arguments / receiver: locals
            # holding container values that are passed to it are havocked too (object references stay: heap havoc covers them)
            from .slicing import NameSet
            roots = set()
            for a in list(node.args) + [k.value for k in node.keywords] + (
                    [f.value] if isinstance(f, ast.Attribute) else []):
                r = a.value if isinstance(a, ast.Starred) else a
                while isinstance(r, (ast.Attribute, ast.Subscript)):
                    r = r.value
                if isinstance(r, ast.Name):
                    roots.add(r.id)
            names = NameSet(roots)
            names.mutated_only = frozenset(roots)
            havoc_state(self, st, names)
            return self.E.fresh('unk', ANY)

    def ev_Lambda(self, node, st, spec):
        self.err(node, 'lambda only as argument of known callee')

    def ev_ListComp(self, node, st, spec):
        from .comps import eval_comp
        return eval_comp(self, node, st, spec, 'list')

    def ev_SetComp(self, node, st, spec):
        from .comps import eval_comp
        return eval_comp(self, node, st, spec, 'set')

    def ev_DictComp(self, node, st, spec):
        from .comps import eval_comp
        return eval_comp(self, node, st, spec, 'dict')

    def ev_GeneratorExp(self, node, st, spec):
        from .comps import eval_comp
        return eval_comp(self, node, st, spec, 'list')

    # ------------------------------------------------------------ iteration helper
    def iter_seq(self, sv, node, st, spec):
        """sequence view of an iterable: returns (seq term, element type)"""
        t = sv.ty
        if t.is_opt:
            self.safety(st, 'none-deref', sv.term != P.none, node, spec)
            t = t.strip_opt()
        if t.is_seq:
            return sv.term, t.args[0]
        if t.is_map:
            return P.keys(sv.term), t.args[0]
        if t.is_set:
            return P.elems(sv.term), t.args[0]
        raise EngineError('cannot iterate over %r (line %s)' % (t, getattr(node, 'lineno', '?')))

    # ------------------------------------------------------------ statements
    def exec_block_strict(self, stmts, st):
        for s in stmts:
            m = getattr(self, 'ex_' + type(s).__name__, None)
            if m is None:
                self.err(s, 'statement %s not in subset' % type(s).__name__)
            m(s, st)

    def in_slice(self):
        return bool(self.c is not None and self.c.opts.get('slice'))

    def exec_block(self, stmts, st):
        for s in stmts:
            if st.dead:
                return
            m = getattr(self, 'ex_' + type(s).__name__, None)
            if not self.in_slice():
                if m is None:
                    self.err(s, 'statement %s not in subset' % type(s).__name__)
                m(s, st)
                continue
            # slice mode (DESIGN 2.7): a statement outside the subset is abstracted -- everything it can assign and the
            # whole heap are havocked subject to the global invariants; site obligations inside it are still generated
            if isinstance(s, (ast.If, ast.For, ast.While, ast.Try, ast.With, ast.Return)) and m is not None:
                m(s, st)        # compound statements handle their unsupported parts themselves
                continue
            snap_env, snap_heap, snap_pc = dict(st.env), dict(st.heap), st.pc
            nf, no = len(self.facts), len(self.obligations)
            try:
                if m is None:
                    raise Unsupported('statement %s not in subset' % type(s).__name__)
                m(s, st)
            except (Unsupported, EngineError, z3.Z3Exception) as e:
                st.env, st.heap, st.pc = snap_env, snap_heap, snap_pc
                st.dead = False
                del self.obligations[no:]
                # facts learnt before the failure stay valid (they are guarded by the path condition)
                from .slicing import abstract_statement
                abstract_statement(self, s, st, str(e))

    def ex_Pass(self, s, st):
        pass

    def ex_Global(self, s, st):
        pass

    def ex_Nonlocal(self, s, st):
        pass

    def ex_Import(self, s, st):
        pass

    def ex_ImportFrom(self, s, st):
        for a in s.names:
            self.module.imports.setdefault(a.asname or a.name, (s.module or '') + '.' + a.name)

    def ex_Expr(self, s, st):
        if isinstance(s.value, ast.Constant):
            return
        self.ev(s.value, st, False)

    def ex_FunctionDef(self, s, st):
        self.local_funcs[s.name] = s

    def declared_local(self, name):
        if self.c and name in self.c.locals:
            return self.E.parse_ty(self.c.locals[name])
        return None

    def bind(self, name, sv, st):
        dt = self.declared_local(name)
        if dt is not None and sv.ty != dt:
            sv = coerce(sv, dt)
            if self.in_slice() and not self.binders:
                # a value of (declared) object type is an object that exists
                tf = self.typed_fact(sv.term, dt)
                if not z3.is_true(tf):
                    self.add_fact(st, tf)
                if dt.strip_opt().is_obj:
                    from .heap import ALLOC0
                    acur = st.env['__alloc'].term if '__alloc' in st.env else ALLOC0
                    self.add_fact(st, z3.Implies(sv.term != P.none, z3.Select(acur, sv.term)))
        st.env[name] = sv

    def assign_into(self, target, sv, st):
        if isinstance(target, ast.Name):
            self.bind(target.id, sv, st)
            return
        if isinstance(target, (ast.Tuple, ast.List)):
            if sv.ty.is_opt and sv.ty.strip_opt().is_seq:
                # unpacking None raises TypeError: a safety obligation; afterwards the value is the tuple
                self.safety(st, 'none-deref', sv.term != P.none, target, False)
                sv = SV(sv.term, sv.ty.strip_opt())
            if not sv.ty.is_seq:
                self.err(target, 'unpack of %r' % sv.ty)
            self.safety(st, 'unpack', P.slen(sv.term) == len(target.elts), target, False)
            for i, e in enumerate(target.elts):
                self.assign_into(e, self.extract(st, P.at(sv.term, z3.IntVal(i)), sv.ty.args[0]), st)
            return
        if isinstance(target, ast.Subscript):
            base = self.ev(target.value, st, False)
            bt = base.ty
            if self.is_record(bt.strip_opt()) and isinstance(target.slice, ast.Constant) \
                    and isinstance(target.slice.value, str):
                fake = ast.copy_location(ast.Attribute(value=target.value, attr=target.slice.value, ctx=ast.Store()), target)
                self.assign_into(fake, sv, st)
                return
            if bt.is_opt:
                self.safety(st, 'none-deref', base.term != P.none, target, False)
                bt = bt.strip_opt()
            if bt.is_map:
                k = self.ev(target.slice, st, False)
                kty = k.ty if bt.args[0].is_any else T.join(bt.args[0], k.ty)
                vty = sv.ty if bt.args[1].is_any else T.join(bt.args[1], sv.ty)
                if vty.is_any and not bt.args[1].is_any:
                    vty = bt.args[1]
                new = SV(P.put(base.term, box(coerce(k, kty)), box(coerce(sv, vty))), T.Ty('map', (kty, vty), bt.name))
                self.assign_into(target.value, new, st)
                return
            if bt.is_seq:
                i = self.norm_index(base.term, target.slice, st, False)
                self.safety(st, 'index', z3.And(0 <= i, i < P.slen(base.term)), target, False)
                ety = sv.ty if bt.args[0].is_any else T.join(bt.args[0], sv.ty)
                new = SV(P.upd(base.term, i, box(coerce(sv, ety))), T.Seq(ety))
                self.assign_into(target.value, new, st)
                return
            self.err(target, 'subscript store on %r' % bt)
        if isinstance(target, ast.Attribute):
            # path-global  (e.g. STATS['x'] handled as Subscript; cli_args.x read-only)
            base = self.ev(target.value, st, False)
            bt = base.ty
            if bt.is_opt:
                self.safety(st, 'none-deref', base.term != P.none, target, False)
                bt = bt.strip_opt()
            if not bt.is_obj:
                self.err(target, 'attribute store on %r' % bt)
            try:
                fty = self.field_type(bt.name, target.attr, target)
            except Unsupported:
                fty, owners = self.subclass_field(bt.name, target.attr, target)
                self.safety(st, 'attr', self.isinstance_term(base.term, owners), target, False)
            self.heap_write(st, base, target.attr, fty, coerce(sv, fty) if sv.ty != fty else sv, target)
            return
        self.err(target, 'assignment target')

    def heap_write(self, st, base, attr, fty, sv, node):
        from .heap import frame_check
        frame_check(self, st, base, attr, node)
        mk = self.modifies_keys(self.c) if self.c is not None else {'*'}
        if self.heap_key(attr, fty) not in mk and '*' not in mk:
            # a write to a field the contract does not list: callers would not havoc it
            from .heap import ALLOC0
            self.oblige(st, 'frame[modifies .%s]' % attr, z3.Not(z3.Select(ALLOC0, base.term)), node)
        arr = self.heap_array(st, attr, fty)
        st.heap[self.heap_key(attr, fty)] = z3.Store(arr, base.term, sv.term)
        st.heap_version += 1
        if self.c is not None and self.c.site_stores:
            for sattr, sname, sexpr in self.c.site_stores:
                if sattr == attr:
                    self.bound_env.append({'target': base, 'value': sv})
                    try:
                        g = self.truthy(self.ev(sexpr, st, True))
                    finally:
                        self.bound_env.pop()
                    from .heap import site_ordinal
                    stmt = getattr(self, '_cur_stmt', node)
                    self.oblige(st, 'site[store .%s@%s]/inv[%s]' % (attr, site_ordinal(self, stmt, 'store .' + attr), sname),
                                g, node)

    def record_display(self, s, st, rty):
        """name = {'field': value, ...} where `name` is declared with a dict_record type: a fresh record object whose fields
        are the values of the display.  In slice mode a value outside the subset is an arbitrary value (after a heap havoc
        if evaluating it may have called unknown code); the other fields keep their values."""
        from .heap import new_object
        vals = []
        for k, v in zip(s.value.keys, s.value.values):
            if self.in_slice():
                no, snap_env, snap_heap, snap_pc = len(self.obligations), dict(st.env), dict(st.heap), st.pc
                try:
                    vals.append((k.value, self.ev(v, st, False)))
                except (Unsupported, EngineError, z3.Z3Exception) as e:
                    del self.obligations[no:]
                    st.env, st.heap, st.pc = snap_env, snap_heap, snap_pc
                    from .slicing import havoc_after_partial, probe_sites, reads_only
                    probe_sites(self, ast.Expr(value=v), st, 'value of a record display: %s' % str(e)[:120])
                    self.abstracted.append(dict(line=v.lineno, stmt='record field %r = %s' % (k.value, ast.unparse(v)[:70]),
                                                reason=str(e)[:160]))
                    if not reads_only(v):
                        havoc_after_partial(self, st, v)
                    vals.append((k.value, None))
            else:
                vals.append((k.value, self.ev(v, st, False)))
        o = new_object(self, st, rty.name, base='rec')
        self.note_unescaped_record(s.targets[0].id)
        tmp = '__rec%d' % next(self.E.counter)
        st.env[tmp] = o
        for fname, sv in vals:
            fty = self.field_type(rty.name, fname, s)
            if sv is None:
                sv = self.E.fresh('fld_' + fname, fty)
                tf = self.typed_fact(sv.term, fty)
                if not z3.is_true(tf):
                    self.add_fact(st, tf)
            fake = ast.copy_location(ast.Attribute(value=ast.copy_location(ast.Name(id=tmp, ctx=ast.Load()), s),
                                                   attr=fname, ctx=ast.Store()), s)
            self.assign_into(fake, sv, st)
        del st.env[tmp]
        return o

    def note_unescaped_record(self, name):
        """the local `name` holds record objects built from dict displays; it does not escape before the function returns if
        every occurrence of the name in the function is (a) the target of such a display, (b) the base of a subscript
        (read or store of a field), or (c) inside a return statement.  Then unknown callees cannot reach the record."""
        if not hasattr(self, 'unescaped_records'):
            self.unescaped_records = set()
        if self.fn is None:
            return
        parents = {}
        for p_ in ast.walk(self.fn):
            for ch in ast.iter_child_nodes(p_):
                parents[ch] = p_
        ok = True
        for n in ast.walk(self.fn):
            if isinstance(n, ast.Name) and n.id == name:
                par = parents.get(n)
                if isinstance(par, ast.Subscript) and par.value is n:
                    continue
                if isinstance(par, ast.Assign) and n in par.targets and isinstance(par.value, ast.Dict):
                    continue
                q = par
                inside_return = False
                while q is not None:
                    if isinstance(q, ast.Return):
                        inside_return = True
                        break
                    q = parents.get(q)
                if inside_return:
                    continue
                ok = False
            elif isinstance(n, (ast.FunctionDef, ast.Lambda)) and n is not self.fn:
                # a nested function could capture the name
                if any(isinstance(x, ast.Name) and x.id == name for x in ast.walk(n)):
                    ok = False
        if ok:
            self.unescaped_records.add(name)
        else:
            self.unescaped_records.discard(name)

    def ex_Assign(self, s, st):
        self._cur_stmt = s
        if len(s.targets) == 1 and isinstance(s.targets[0], ast.Name) and isinstance(s.value, ast.Dict) \
                and s.value.keys and all(isinstance(k, ast.Constant) and isinstance(k.value, str) for k in s.value.keys):
            dt = self.declared_local(s.targets[0].id)
            if dt is not None and self.is_record(dt.strip_opt()):
                self.assign_into(s.targets[0], self.record_display(s, st, dt.strip_opt()), st)
                return
        sv = self.ev(s.value, st, False)
        if len(s.targets) == 1 and isinstance(s.targets[0], ast.Name) and sv.term.sort() == P.V \
                and self.pattern_unsafe(sv.term):
            # a container / object value built from a conditional: name it, so that invariants may use it in triggers
            sv = self.pattern_safe(st, sv)
        for t in s.targets:
            self.assign_into(t, sv, st)

    def ex_AnnAssign(self, s, st):
        if s.value is not None:
            self.assign_into(s.target, self.ev(s.value, st, False), st)

    def ex_AugAssign(self, s, st):
        load = ast.copy_location(ast.BinOp(left=self.as_load(s.target), op=s.op, right=s.value), s)
        ast.fix_missing_locations(load)
        sv = self.ev(load, st, False)
        self.assign_into(s.target, sv, st)

    def as_load(self, t):
        t2 = ast.parse(ast.unparse(t), mode='eval').body
        ast.copy_location(t2, t)
        for n in ast.walk(t2):
            if not hasattr(n, 'lineno'):
                n.lineno = t.lineno
                n.col_offset = 0
        return t2

    def ex_Delete(self, s, st):
        for t in s.targets:
            if isinstance(t, ast.Subscript):
                base = self.ev(t.value, st, False)
                bt = base.ty.strip_opt()
                if bt.is_map:
                    k = self.ev(t.slice, st, False)
                    self.safety(st, 'key', P.has(base.term, box(k)), t, False)
                    self.assign_into(t.value, SV(P.rem(base.term, box(k)), bt), st)
                    continue
            self.err(s, 'del target')

    def ex_Assert(self, s, st):
        c = self.truthy(self.ev(s.test, st, False))
        if not self.in_slice():
            self.oblige(st, 'safety[assert]', c, s)
        self.add_fact(st, c)

    def ex_Raise(self, s, st):
        exc = None
        if s.exc is not None:
            e = s.exc
            if isinstance(e, ast.Call):
                e = e.func
            exc = e.id if isinstance(e, ast.Name) else getattr(e, 'attr', None)
        handler = self.find_handler(exc)
        if handler is not None:
            handler.append(st.copy())
        else:
            allowed = None
            if self.c:
                for name, cond in self.c.raises:
                    if name == exc or name == '*':
                        allowed = z3.BoolVal(True) if cond is None else self.truthy(self.ev_old(cond, st))
            if allowed is None:
                self.oblige(st, 'safety[raise]', z3.BoolVal(False), s, detail=str(exc))
            else:
                self.oblige(st, 'raises[%s]' % exc, allowed, s)
        st.dead = True
        st.pc = z3.BoolVal(False)

    def find_handler(self, exc):
        for names, lst in reversed(getattr(self, 'handlers', [])):
            if exc in names or 'Exception' in names or None in names:
                return lst
        return None

    def ev_old(self, expr, st):
        saved = (st.env, st.heap)
        st.env, st.heap = dict(self.old_state.env), dict(self.old_state.heap)
        try:
            return self.ev(expr, st, True)
        finally:
            st.env, st.heap = saved

    def ex_Return(self, s, st):
        if self.in_slice():
            from .slicing import slice_return
            return slice_return(self, s, st)
        pre = st.copy() if (self.c is not None and getattr(self.c, 'site_returns', None)) else None
        if s.value is None:
            sv = SV(P.none, NONE)
        else:
            sv = self.ev(s.value, st, False)
        from .calls import site_return_obligations
        site_return_obligations(self, s, st, sv, pre)
        self.returns.append((st.copy(), sv, s))
        st.dead = True
        st.pc = z3.BoolVal(False)

    def ex_Break(self, s, st):
        self.loop_stack[-1].breaks.append(st.copy())
        st.dead = True
        st.pc = z3.BoolVal(False)

    def ex_Continue(self, s, st):
        self.loop_stack[-1].continues.append(st.copy())
        st.dead = True
        st.pc = z3.BoolVal(False)

    def narrow_isinstance(self, test, st):
        """flow typing for the true branch of `if isinstance(x, C) [and ...]`: the local x, whose static type is Any or a
        superclass, gets the static type C there (the path condition already carries the class fact)"""
        tests = test.values if isinstance(test, ast.BoolOp) and isinstance(test.op, ast.And) else [test]
        for t in tests:
            if not (isinstance(t, ast.Call) and isinstance(t.func, ast.Name) and t.func.id == 'isinstance'
                    and len(t.args) == 2 and isinstance(t.args[0], ast.Name) and t.args[0].id in st.env):
                continue
            cn = t.args[1]
            if isinstance(cn, ast.Attribute) and isinstance(cn.value, ast.Name):
                alias = cn.value.id
                mod = self.module.imports.get(alias) if (self.module is not None and alias in self.module.imports) else None
                name = (mod.split('.')[-1] if mod else alias) + '.' + cn.attr
            elif isinstance(cn, ast.Name):
                name = cn.id
            else:
                continue
            try:
                key = self.class_key(name)
            except Exception:
                continue
            if key not in self.E.fe.classes and key not in self.E.sc.classdecl:
                continue
            cur = st.env[t.args[0].id]
            k = cur.ty.strip_opt().kind
            if k == 'any' or (k == 'obj' and cur.ty.strip_opt().name != key):
                st.env[t.args[0].id] = SV(cur.term, T.Obj(key))

    def ex_If(self, s, st):
        if self.in_slice():
            from .slicing import slice_if
            return slice_if(self, s, st)
        c = self.truthy(self.ev(s.test, st, False))
        s1 = st.copy(c)
        s2 = st.copy(simp_not(c))
        self.narrow_isinstance(s.test, s1)
        self.exec_block(s.body, s1)
        self.exec_block(s.orelse, s2)
        self.merge_into(st, [s1, s2], conds=[c, simp_not(c)])

    def merge_into(self, st, states, conds=None):
        if conds is not None:
            # two-way join of an if: select on the (small) branch condition instead of the full path conditions
            sel = {id(x): cnd for x, cnd in zip(states, conds)}
        else:
            sel = {}
        live = [x for x in states if not x.dead]
        if not live:
            st.dead = True
            st.pc = z3.BoolVal(False)
            return
        if len(live) == 1:
            x = live[0]
            st.env, st.heap, st.pc, st.dead, st.heap_version = x.env, x.heap, x.pc, False, x.heap_version
            return
        names = []
        for x in live:
            for n in x.env:
                if n not in names:
                    names.append(n)
        env = {}
        for n in names:
            have = [(x, x.env[n]) for x in live if n in x.env]
            if len(have) < len(live) and n.startswith('glob:'):
                # a global first touched inside one branch: the other paths still hold its value at function entry
                key = n[len('glob:'):]
                gty = self.E.parse_ty(self.E.sc.globals[key])
                init = SV(self.E.abs_consts[key], gty)
                have = [(x, x.env.get(n, init)) for x in live]
            ty = have[0][1].ty
            for _, v in have[1:]:
                ty = T.join(ty, v.ty)
            dt = self.declared_local(n)
            if dt is not None:
                ty = dt
            terms = [coerce(v, ty).term for _, v in have]
            if all(t.eq(terms[0]) for t in terms[1:]):
                env[n] = SV(terms[0], ty)
                continue
            res = terms[-1]
            for (x, _), t in reversed(list(zip(have[:-1], terms[:-1]))):
                res = z3.If(sel.get(id(x), x.pc), t, res)
            env[n] = SV(res, ty)
        heap = {}
        fields = []
        for x in live:
            for f in x.heap:
                if f not in fields:
                    fields.append(f)
        for f in fields:
            arrs = [(x, x.heap.get(f)) for x in live]
            base = next(a for _, a in arrs if a is not None)
            # a state that never touched this field still sees the array of the function's pre-state
            init = z3.Const('H_%s!0' % f, base.sort())
            arrs = [(x, a if a is not None else init) for x, a in arrs]
            if all(a.eq(arrs[0][1]) for _, a in arrs[1:]):
                heap[f] = arrs[0][1]
                continue
            res = arrs[-1][1]
            for x, a in reversed(arrs[:-1]):
                res = z3.If(sel.get(id(x), x.pc), a, res)
            heap[f] = res
        pc = live[0].pc
        for x in live[1:]:
            pc = simp_or(pc, x.pc)
        st.env, st.heap, st.pc, st.dead = env, heap, pc, False
        st.heap_version = max(x.heap_version for x in live) + 1

    # ---- loops
    def loop_key(self):
        return '.'.join(str(k) for k in self._loop_path)

    def ex_While(self, s, st):
        if self.in_slice():
            from .slicing import slice_loop
            return slice_loop(self, s, st)
        from .loops import exec_while
        exec_while(self, s, st)

    def ex_For(self, s, st):
        if self.in_slice():
            from .slicing import slice_loop
            return slice_loop(self, s, st)
        from .loops import exec_for
        exec_for(self, s, st)

    def ex_Try(self, s, st):
        if self.in_slice():
            from .slicing import slice_try
            return slice_try(self, s, st)
        from .loops import exec_try
        exec_try(self, s, st)

    def ex_With(self, s, st):
        if self.in_slice():
            from .slicing import slice_with
            return slice_with(self, s, st)
        from .calls import exec_with
        exec_with(self, s, st)

    # ------------------------------------------------------------ whole function
    def run(self):
        from .funcs import verify_function
        return verify_function(self)
