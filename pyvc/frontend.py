"""Reads the real source from the repository tree on every run."""
import ast
import hashlib
import os

REPO = os.environ.get('HEPH_REPO', '/repo')


class ClassInfo:
    def __init__(self, name, module, node, cid):
        self.name = name
        self.module = module
        self.node = node
        self.bases = []        # names
        self.methods = {}      # name -> FunctionDef
        self.cid = cid
        self.class_attrs = {}  # name -> ast expr


class Module:
    def __init__(self, name, path, tree, src):
        self.name = name
        self.path = path
        self.tree = tree
        self.src = src
        self.functions = {}    # name -> FunctionDef (top level)
        self.classes = {}      # name -> ClassInfo
        self.imports = {}      # local name -> qualified name
        self.globals = {}      # name -> ast value expr


class Frontend:
    def __init__(self, repo=None):
        self.repo = repo or REPO
        self.modules = {}
        self.classes = {}      # simple class name -> ClassInfo (first wins; qualified also stored)
        self._next_cid = 1

    def module(self, name):
        if name in self.modules:
            return self.modules[name]
        rel = name.replace('.', '/') + '.py'
        path = os.path.join(self.repo, rel)
        if not os.path.exists(path):
            path2 = os.path.join(self.repo, name.replace('.', '/'), '__init__.py')
            if os.path.exists(path2):
                path = path2
            else:
                raise KeyError('no module ' + name)
        src = open(path).read()
        tree = ast.parse(src, filename=path)
        m = Module(name, path, tree, src)
        self.modules[name] = m
        for st in tree.body:
            if isinstance(st, ast.FunctionDef):
                m.functions[st.name] = st
            elif isinstance(st, ast.ClassDef):
                ci = ClassInfo(st.name, name, st, self._next_cid)
                self._next_cid += 1
                for b in st.bases:
                    if isinstance(b, ast.Name):
                        ci.bases.append(b.id)
                    elif isinstance(b, ast.Attribute):
                        ci.bases.append(b.attr)
                for it in st.body:
                    if isinstance(it, ast.FunctionDef):
                        ci.methods[it.name] = it
                    elif isinstance(it, ast.Assign) and len(it.targets) == 1 and isinstance(it.targets[0], ast.Name):
                        ci.class_attrs[it.targets[0].id] = it.value
                m.classes[st.name] = ci
                self.classes.setdefault(st.name, ci)
                self.classes[name + '.' + st.name] = ci
            elif isinstance(st, ast.Import):
                for a in st.names:
                    m.imports[a.asname or a.name.split('.')[0]] = a.name if a.asname else a.name.split('.')[0]
            elif isinstance(st, ast.ImportFrom):
                for a in st.names:
                    m.imports[a.asname or a.name] = (st.module or '') + '.' + a.name
            elif isinstance(st, ast.Assign) and len(st.targets) == 1 and isinstance(st.targets[0], ast.Name):
                m.globals[st.targets[0].id] = st.value
        return m

    def find_function(self, qual):
        """qual: module.func | module.Class.method | ... .outer.inner (nested def)
        returns (module, class-or-None, FunctionDef, [enclosing FunctionDefs])"""
        parts = qual.split('.')
        for cut in range(len(parts) - 1, 0, -1):
            mname = '.'.join(parts[:cut])
            try:
                m = self.module(mname)
            except KeyError:
                continue
            rest = parts[cut:]
            cls = None
            if rest[0] in m.classes:
                cls = m.classes[rest[0]]
                fn = cls.methods.get(rest[1]) if len(rest) > 1 else None
                rest = rest[2:]
            else:
                fn = m.functions.get(rest[0])
                rest = rest[1:]
            if fn is None:
                raise KeyError('function not found: ' + qual)
            enclosing = []
            while rest:
                inner = None
                for node in ast.walk(fn):
                    if isinstance(node, ast.FunctionDef) and node is not fn and node.name == rest[0]:
                        inner = node
                        break
                if inner is None:
                    raise KeyError('nested function not found: ' + qual)
                enclosing.append(fn)
                fn = inner
                rest = rest[1:]
            return m, cls, fn, enclosing
        raise KeyError('function not found: ' + qual)

    def source_hash(self, fn, m):
        seg = ast.get_source_segment(m.src, fn) or ''
        return hashlib.sha256(seg.encode()).hexdigest()[:16]

    # ---- class table helpers
    def mro(self, cname):
        """linearised bases by simple DFS (sufficient: single inheritance mostly)"""
        out = []
        seen = set()

        def go(n):
            if n in seen or n not in self.classes:
                return
            seen.add(n)
            out.append(n)
            for b in self.classes[n].bases:
                go(b)
        go(cname)
        return out

    def subclasses(self, cname):
        """all loaded classes whose mro contains cname (including itself)"""
        res = []
        for n, ci in self.classes.items():
            if '.' in n:
                continue
            if cname in self.mro(n):
                res.append(n)
        return res

    def resolve_method(self, cname, meth):
        for c in self.mro(cname):
            ci = self.classes[c]
            if meth in ci.methods:
                return ci, ci.methods[meth]
        return None, None
