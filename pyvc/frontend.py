"""Reads the real source from the repository tree on every run."""
import ast
import hashlib
import os

REPO = os.environ.get('HEPH_REPO', '/repo')


class ClassInfo:
    def __init__(self, name, module, node, cid):
        self.name = name       # simple name
        self.module = module
        self.node = node
        self.raw_bases = []    # ('name', id) | ('attr', alias, attr)
        self.bases = []        # keys of the base classes (after Frontend.finalize)
        self.methods = {}      # name -> FunctionDef
        self.cid = cid
        self.class_attrs = {}  # name -> ast expr
        self.key = name        # canonical name: the simple name if unique among the loaded modules, else '<modtail>.<name>'


class Module:
    def __init__(self, name, path, tree, src):
        self.name = name
        self.path = path
        self.tree = tree
        self.src = src
        self.functions = {}    # name -> FunctionDef (top level)
        self.classes = {}      # name -> ClassInfo
        self.imports = {}      # local name -> qualified name
        self.globals = {}      # name -> ast value expr


class Frontend:
    def __init__(self, repo=None):
        self.repo = repo or REPO
        self.modules = {}
        self.classes = {}      # canonical key -> ClassInfo (see finalize)
        self.all_classes = []
        self.by_simple = {}
        self._mro_cache = {}
        self._sub_cache = {}
        self.finalized = True
        self._next_cid = 1

    def module(self, name):
        if name in self.modules:
            return self.modules[name]
        rel = name.replace('.', '/') + '.py'
        path = os.path.join(self.repo, rel)
        if not os.path.exists(path):
            path2 = os.path.join(self.repo, name.replace('.', '/'), '__init__.py')
            if os.path.exists(path2):
                path = path2
            else:
                raise KeyError('no module ' + name)
        src = open(path).read()
        tree = ast.parse(src, filename=path)
        m = Module(name, path, tree, src)
        self.modules[name] = m
        for st in tree.body:
            if isinstance(st, ast.FunctionDef):
                m.functions[st.name] = st
            elif isinstance(st, ast.ClassDef):
                ci = ClassInfo(st.name, name, st, self._next_cid)
                self._next_cid += 1
                for b in st.bases:
                    if isinstance(b, ast.Name):
                        ci.raw_bases.append(('name', b.id))
                    elif isinstance(b, ast.Attribute) and isinstance(b.value, ast.Name):
                        ci.raw_bases.append(('attr', b.value.id, b.attr))
                for it in st.body:
                    if isinstance(it, ast.FunctionDef):
                        ci.methods[it.name] = it
                    elif isinstance(it, ast.Assign) and len(it.targets) == 1 and isinstance(it.targets[0], ast.Name):
                        ci.class_attrs[it.targets[0].id] = it.value
                m.classes[st.name] = ci
                self.all_classes.append(ci)
                self.finalized = False
            elif isinstance(st, ast.Import):
                for a in st.names:
                    m.imports[a.asname or a.name.split('.')[0]] = a.name if a.asname else a.name.split('.')[0]
            elif isinstance(st, ast.ImportFrom):
                for a in st.names:
                    m.imports[a.asname or a.name] = (st.module or '') + '.' + a.name
            elif isinstance(st, ast.Assign) and len(st.targets) == 1 and isinstance(st.targets[0], ast.Name):
                m.globals[st.targets[0].id] = st.value
        return m

    def find_function(self, qual):
        """qual: module.func | module.Class.method | ... .outer.inner (nested def)
        returns (module, class-or-None, FunctionDef, [enclosing FunctionDefs])"""
        parts = qual.split('.')
        for cut in range(len(parts) - 1, 0, -1):
            mname = '.'.join(parts[:cut])
            try:
                m = self.module(mname)
            except KeyError:
                continue
            rest = parts[cut:]
            cls = None
            if rest[0] in m.classes:
                cls = m.classes[rest[0]]
                fn = cls.methods.get(rest[1]) if len(rest) > 1 else None
                rest = rest[2:]
            else:
                fn = m.functions.get(rest[0])
                rest = rest[1:]
            if fn is None:
                raise KeyError('function not found: ' + qual)
            enclosing = []
            while rest:
                inner = None
                for node in ast.walk(fn):
                    if isinstance(node, ast.FunctionDef) and node is not fn and node.name == rest[0]:
                        inner = node
                        break
                if inner is None:
                    raise KeyError('nested function not found: ' + qual)
                enclosing.append(fn)
                fn = inner
                rest = rest[1:]
            return m, cls, fn, enclosing
        raise KeyError('function not found: ' + qual)

    def source_hash(self, fn, m):
        seg = ast.get_source_segment(m.src, fn) or ''
        return hashlib.sha256(seg.encode()).hexdigest()[:16]

    # ---- class table helpers
    def finalize(self):
        """compute canonical keys (simple name if unique among loaded modules, else '<modtail>.<name>') and resolve bases"""
        if self.finalized:
            return
        by_simple = {}
        for ci in self.all_classes:
            by_simple.setdefault(ci.name, []).append(ci)
        self.classes = {}
        self.by_simple = by_simple
        for ci in self.all_classes:
            ci.key = ci.name if len(by_simple[ci.name]) == 1 else ci.module.split('.')[-1] + '.' + ci.name
            self.classes[ci.key] = ci
        self.finalized = True
        self._mro_cache = {}
        self._sub_cache = {}
        for ci in self.all_classes:
            ci.bases = []
            m = self.modules[ci.module]
            for rb in ci.raw_bases:
                k = None
                if rb[0] == 'name':
                    k = self.resolve(rb[1], m, strict=False)
                else:
                    target = m.imports.get(rb[1])
                    if target and target in self.modules and rb[2] in self.modules[target].classes:
                        k = self.modules[target].classes[rb[2]].key
                if k is not None:
                    ci.bases.append(k)
        self.finalized = True
        self._mro_cache = {}
        self._sub_cache = {}

    def resolve(self, name, module=None, strict=True):
        """canonical key of a class named `name` as seen from `module` (None: sidecar context)"""
        if not self.finalized:
            self.finalize()
        if name in self.classes:
            return name
        if module is not None:
            if name in module.classes:
                return module.classes[name].key
            q = module.imports.get(name)
            if q:
                mod, _, cn = q.rpartition('.')
                if mod in self.modules and cn in self.modules[mod].classes:
                    return self.modules[mod].classes[cn].key
        if '.' in name:
            tail, _, cn = name.rpartition('.')
            for ci in self.by_simple.get(cn, []):
                if ci.module == tail or ci.module.endswith('.' + tail):
                    return ci.key
        cands = self.by_simple.get(name, [])
        if len(cands) == 1:
            return cands[0].key
        if len(cands) > 1:
            for ci in cands:
                if ci.module == 'src.ir.types':
                    return ci.key
            if strict:
                raise KeyError('ambiguous class name %s: %s' % (name, [c.key for c in cands]))
        return None

    def mro(self, key):
        """linearised bases by DFS (sufficient for the hierarchies here)"""
        if not self.finalized:
            self.finalize()
        if key in self._mro_cache:
            return self._mro_cache[key]
        out = []
        seen = set()

        def go(n):
            if n in seen or n not in self.classes:
                return
            seen.add(n)
            out.append(n)
            for b in self.classes[n].bases:
                go(b)
        go(key)
        self._mro_cache[key] = out
        return out

    def subclasses(self, key):
        """all loaded classes whose mro contains key (including itself)"""
        if not self.finalized:
            self.finalize()
        if key not in self._sub_cache:
            self._sub_cache[key] = [n for n in self.classes if key in self.mro(n)]
        return self._sub_cache[key]

    def resolve_method(self, key, meth):
        for c in self.mro(key):
            ci = self.classes[c]
            if meth in ci.methods:
                return ci, ci.methods[meth]
        return None, None
