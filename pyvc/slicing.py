"""Slice mode (DESIGN.md 2.7): statements outside the subset are abstracted by havoc; obligations are generated only at
*sites* (constructions of / stores to the objects a global invariant talks about).  Sound for invariants that are
asserted at ALL sites: whatever unmodelled code does to the heap it does through sites that are themselves checked."""
import ast
import z3

from . import prelude as P
from . import ty as T
from .ty import ANY, BOOL
from .symexec import SV, EngineError, Unsupported, State, zsort, simp_and, simp_not


class NameSet(set):
    """names a piece of code may change; `mutated_only`: names that are only the receiver of a method call (the local keeps
    its value when that value is an object reference -- the object's fields are havocked with the heap)"""
    mutated_only = frozenset()


def assigned_names(stmts):
    out = set()
    mut = set()
    passed = {}
    for s in stmts:
        for n in ast.walk(s):
            tg = []
            if isinstance(n, ast.Assign):
                tg = n.targets
            elif isinstance(n, (ast.AugAssign, ast.AnnAssign)):
                tg = [n.target]
            elif isinstance(n, (ast.For, ast.comprehension)):
                tg = [n.target]
            elif isinstance(n, ast.With):
                tg = [i.optional_vars for i in n.items if i.optional_vars is not None]
            elif isinstance(n, ast.ExceptHandler) and n.name:
                out.add(n.name)
            elif isinstance(n, ast.Call):
                if isinstance(n.func, ast.Attribute):
                    # in-place mutation of a local container
                    r = n.func.value
                    while isinstance(r, (ast.Attribute, ast.Subscript)):
                        r = r.value
                    if isinstance(r, ast.Name):
                        mut.add(r.id)
                # a local handed to a callee may be changed in place by it (an in-out parameter of a contract, or an
                # unknown callee): loop-carried like a method receiver -- the container VALUE it holds is arbitrary at
                # the loop head; an object reference stays (its fields are havocked with the heap)
                if not (isinstance(n.func, ast.Name) and n.func.id in PURE_BUILTINS):
                    for a in list(n.args) + [k.value for k in n.keywords]:
                        a = a.value if isinstance(a, ast.Starred) else a
                        if isinstance(a, ast.Name):
                            passed.setdefault(a.id, []).append(n)
            elif isinstance(n, (ast.Import, ast.ImportFrom)):
                for a in n.names:
                    out.add((a.asname or a.name).split('.')[0])
            for t in tg:
                stack = [t]
                while stack:
                    e = stack.pop()
                    if isinstance(e, ast.Name):
                        out.add(e.id)
                    elif isinstance(e, (ast.Tuple, ast.List)):
                        stack.extend(e.elts)
                    elif isinstance(e, ast.Starred):
                        stack.append(e.value)
                    elif isinstance(e, (ast.Subscript, ast.Attribute)):
                        # x[k] = v / x.a = v: the container value held by x changes (an object reference does not); names in
                        # the index expression are only read
                        r = e.value
                        while isinstance(r, (ast.Attribute, ast.Subscript)):
                            r = r.value
                        if isinstance(r, ast.Name):
                            mut.add(r.id)
    res = NameSet(out | mut)
    res.mutated_only = frozenset(mut - out)
    res.passed = {k: v for k, v in passed.items() if k not in res}      # only handed to callees: see add_passed_names
    return res


def add_passed_names(fv, names):
    """locals that the loop body only hands to callees: such a local is loop-carried (arbitrary container value at the loop
    head) unless EVERY callee it is handed to has a contract that does not list the corresponding parameter under
    `modifies` (an external like random.choice, a query under contract)"""
    extra = set()
    for name, calls in getattr(names, 'passed', {}).items():
        for node in calls:
            c = None
            f = node.func
            try:
                txt = ast.unparse(f)
            except Exception:
                txt = ''
            cands = []
            parts = txt.split('.')
            if fv.module is not None and parts and parts[0] in fv.module.imports:
                cands.append('.'.join([fv.module.imports[parts[0]]] + parts[1:]))
            if fv.module is not None and len(parts) == 1:
                cands.append(fv.module.name + '.' + parts[0])
                if fv.qual:
                    cands.append(fv.qual + '.' + parts[0])
            for q in cands:
                c = fv.E.find_contract(q)
                if c is not None:
                    break
            if c is None:
                extra.add(name)
                break
            pnames = [pn for pn, _ in c.params]
            idx = [i for i, a in enumerate(node.args) if isinstance(a, ast.Name) and a.id == name]
            kws = [k.arg for k in node.keywords if isinstance(k.value, ast.Name) and k.value.id == name]
            bound_to = [pnames[i] for i in idx if i < len(pnames)] + [k for k in kws if k]
            if len(bound_to) != len(idx) + len(kws) or any(pn in c.modifies for pn in bound_to) \
                    or any(m in ('*',) for m in c.modifies):
                extra.add(name)
                break
    if extra:
        new = NameSet(set(names) | extra)
        new.mutated_only = frozenset(set(names.mutated_only) | (extra - set(names)))
        new.passed = {}
        return new
    return names


PURE_BUILTINS = {'isinstance', 'len', 'enumerate', 'range', 'zip', 'getattr', 'hasattr', 'str', 'int', 'bool', 'type', 'id',
                 'min', 'max', 'abs', 'tuple', 'list', 'dict', 'set', 'frozenset', 'sorted', 'reversed', 'any', 'all', 'sum',
                 'repr'}


def reads_only(node):
    """the code contains no call (except side-effect-free builtins applied to values), no store through an attribute or a
    subscript, no deletion: executing it cannot change the heap (attribute reads are assumed free of side effects)"""
    for n in ast.walk(node):
        if isinstance(n, ast.Call):
            if not (isinstance(n.func, ast.Name) and n.func.id in PURE_BUILTINS):
                return False
        elif isinstance(n, (ast.Delete, ast.Await, ast.Yield, ast.YieldFrom, ast.Lambda, ast.FunctionDef, ast.ClassDef,
                            ast.Import, ast.ImportFrom, ast.With, ast.Raise, ast.Try)):
            return False
        elif isinstance(n, (ast.Assign, ast.AugAssign, ast.AnnAssign)):
            tg = n.targets if isinstance(n, ast.Assign) else [n.target]
            stack = list(tg)
            while stack:
                t = stack.pop()
                if isinstance(t, (ast.Tuple, ast.List)):
                    stack.extend(t.elts)
                elif isinstance(t, ast.Starred):
                    stack.append(t.value)
                elif not isinstance(t, ast.Name):
                    return False
    return True


def havoc_names(fv, st, names):
    """the abstracted code only reads the heap: the locals it assigns get unconstrained values, nothing else changes"""
    from .heap import ALLOC0
    a1 = st.env['__alloc'].term if '__alloc' in st.env else ALLOC0
    for n in sorted(names):
        if n == 'self' or n.startswith('__'):
            continue
        if n in getattr(names, 'mutated_only', ()):
            continue        # nothing is mutated by read-only code
        if n not in st.env and fv.module is not None and (n in fv.module.imports or n in fv.module.functions
                                                          or n in fv.module.classes or n in fv.module.globals):
            continue
        dt = fv.declared_local(n)
        if dt is None and n in st.env and not st.env[n].ty.is_any and n in (fv.old_state.env if fv.old_state else {}):
            dt = st.env[n].ty
        ty = dt if dt is not None else ANY
        sv = fv.E.fresh(n, ty)
        tf = fv.typed_fact(sv.term, ty)
        if not z3.is_true(tf):
            fv.add_fact(st, tf)
        if ty.strip_opt().is_obj:
            fv.add_fact(st, z3.Implies(sv.term != P.none, z3.Select(a1, sv.term)))
        st.env[n] = sv
    fv.E.assumptions.add('attribute reads and the builtins isinstance/len/getattr/str/... have no side effect on tracked state')


def havoc_state(fv, st, names, why=''):
    """everything the abstracted code may have changed gets an unconstrained value (objects it refers to exist)"""
    from .heap import ALLOC0
    E = fv.E
    a0 = st.env['__alloc'].term if '__alloc' in st.env else ALLOC0
    if not z3.is_const(a0):
        named = z3.Const('alloc!%d' % next(E.counter), z3.ArraySort(P.V, z3.BoolSort()))
        fv.add_fact(st, named == a0)
        a0 = named
    a1 = z3.Const('alloc!%d' % next(E.counter), z3.ArraySort(P.V, z3.BoolSort()))
    o = z3.Const('o!hv%d' % next(E.counter), P.V)
    fv.add_fact(st, z3.ForAll([o], z3.Implies(z3.Select(a0, o), z3.Select(a1, o)), patterns=[z3.Select(a0, o)]))
    st.env['__alloc'] = SV(a1, ANY)
    for n in sorted(names):
        if n == 'self' or n.startswith('__'):
            continue
        if n in getattr(names, 'mutated_only', ()) and n in st.env and st.env[n].ty.strip_opt().is_obj:
            continue        # receiver of a method call: the reference itself cannot change
        if n not in st.env and fv.module is not None and (n in fv.module.imports or n in fv.module.functions
                                                          or n in fv.module.classes or n in fv.module.globals):
            continue        # a module-level name (import alias, function, class), not a local
        dt = fv.declared_local(n)
        if dt is None and n in st.env and not st.env[n].ty.is_any and n in (fv.old_state.env if fv.old_state else {}):
            dt = st.env[n].ty            # parameters keep their declared type
        ty = dt if dt is not None else ANY
        sv = fv.E.fresh(n, ty)
        tf = fv.typed_fact(sv.term, ty)
        if not z3.is_true(tf):
            fv.add_fact(st, tf)
        if ty.strip_opt().is_obj:
            fv.add_fact(st, z3.Implies(sv.term != P.none, z3.Select(a1, sv.term)))
        st.env[n] = sv
    frozen = set((fv.c.opts.get('immutable_fields', '') if fv.c else '').split(','))
    # record objects built in this function from a dict display and (syntactically) never handed to anything before the
    # return statement cannot be reached by unknown code: their fields survive the havoc
    keep = [st.env[n].term for n in sorted(getattr(fv, 'unescaped_records', ())) if n in st.env
            and st.env[n].ty.strip_opt().is_obj]
    for attr in sorted(E.field_types):
        if attr in frozen:
            continue
        for key, fty in fv.field_variants(attr):
            old_arr = st.heap.get(key)
            new_arr = z3.Const('H_%s!%d' % (key, next(E.counter)), z3.ArraySort(P.V, zsort(fty)))
            if old_arr is not None:
                for o in keep:
                    fv.add_fact(st, z3.Implies(o != P.none, z3.Select(new_arr, o) == z3.Select(old_arr, o)))
            st.heap[key] = new_arr
    for k in list(st.env):
        if k.startswith('glob:') and not fv.E.sc.globals.get(k[5:], '').startswith('const:'):
            gty = st.env[k].ty
            if k[5:] in getattr(fv.c, 'opts', {}).get('immutable_globals', '').split(','):
                continue
            st.env[k] = fv.E.fresh(k.replace(':', '_'), gty)
    st.heap_version += 1
    assume_global_invariants(fv, st)


def assume_global_invariants(fv, st):
    for name, e in (fv.c.global_invariants if fv.c else []):
        fv.add_fact(st, fv.truthy(fv.ev(e, st, True)))


def site_nodes(fv, s):
    """constructor calls / attribute stores inside statement s that some site clause of the contract talks about"""
    classes = {c for c, _, _ in fv.c.sites}
    attrs = {a for a, _, _ in fv.c.site_stores}
    found = []
    call_texts = [t for t, _, _ in fv.c.site_calls]
    for n in ast.walk(s):
        if isinstance(n, ast.Call):
            f = n.func
            nm = f.id if isinstance(f, ast.Name) else (f.attr if isinstance(f, ast.Attribute) else None)
            if nm in classes:
                found.append(('new', nm, n))
            elif call_texts:
                txt = ast.unparse(f)
                if any(t == txt or txt.endswith('.' + t) or t == txt.split('.')[-1] for t in call_texts):
                    found.append(('call', txt, n))
        tg = []
        if isinstance(n, ast.Assign):
            tg = n.targets
        elif isinstance(n, (ast.AugAssign, ast.AnnAssign)):
            tg = [n.target]
        for t in tg:
            for e in (t.elts if isinstance(t, (ast.Tuple, ast.List)) else [t]):
                if isinstance(e, ast.Attribute) and e.attr in attrs:
                    found.append(('store', e.attr, n))
    return found


def probe_sites(fv, s, st, reason):
    """statement / expression s cannot be executed as a whole; the sites it contains are evaluated each on its own, in a copy
    of the state in which the names bound inside s (comprehension / loop variables) are arbitrary.  A site that cannot be
    evaluated on its own either makes the function unanalysable (never silently dropped)."""
    sites = site_nodes(fv, s)
    if sites:
        for kind, what, node in sites:
            probe = st.copy()
            for n in assigned_names([s]):
                if n not in probe.env and not (fv.module is not None and (
                        n in fv.module.imports or n in fv.module.functions or n in fv.module.classes
                        or n in fv.module.globals)):
                    probe.env[n] = fv.E.fresh(n, ANY)
            for comp in [c for c in ast.walk(s) if isinstance(c, ast.comprehension)]:
                for e in ast.walk(comp.target):
                    if isinstance(e, ast.Name):
                        probe.env[e.id] = fv.E.fresh(e.id, ANY)
                # when the iterable can be evaluated, the targets are an arbitrary ELEMENT of it (not arbitrary values)
                no = len(fv.obligations)
                try:
                    from .comps import iter_source
                    src = iter_source(fv, comp.target, comp.iter, probe, False)
                    idx = z3.Int('it!%d' % next(fv.E.counter))
                    fv.add_fact(probe, z3.And(0 <= idx, idx < src.length))
                    for n2, sv in src.bind(idx).items():
                        probe.env[n2] = sv
                        if zsort(sv.ty) == P.V:
                            tf = fv.typed_fact(sv.term, sv.ty)
                            if not z3.is_true(tf):
                                fv.add_fact(probe, tf)
                except (Unsupported, EngineError, z3.Z3Exception):
                    del fv.obligations[no:]
            try:
                if kind == 'new':
                    fv.ev(node, probe, False)
                elif kind == 'call':
                    from .calls import site_call_obligations
                    site_call_obligations(fv, node, probe)
                else:
                    fv.exec_block_strict([node], probe)
            except (Unsupported, EngineError) as e:
                raise Unsupported('%s:%d: a site (%s %s) lies inside a statement that cannot be executed (%s) and cannot be '
                                  'evaluated on its own (%s)' % (fv.qual, node.lineno, kind, what, reason, e))


def abstract_statement(fv, s, st, reason):
    probe_sites(fv, s, st, reason)
    fv.abstracted.append(dict(line=s.lineno, stmt=ast.unparse(s).split('\n')[0][:100], reason=reason[:160]))
    if reads_only(s):
        havoc_names(fv, st, assigned_names([s]))
    else:
        havoc_state(fv, st, assigned_names([s]))


def havoc_after_partial(fv, st, expr):
    """an expression that could be evaluated only in part may have called unknown code with any of the locals it mentions:
    arbitrary heap, and every local it mentions that holds a container VALUE is arbitrary too (object references stay)"""
    roots = {n.id for n in ast.walk(expr) if isinstance(n, ast.Name)}
    names = NameSet(roots)
    names.mutated_only = frozenset(roots)
    havoc_state(fv, st, names)


def fresh_bool(fv):
    return z3.Const('nd!%d' % next(fv.E.counter), z3.BoolSort())


def slice_cond(fv, test, st):
    """truth value of a condition; parts outside the subset become nondeterministic (with a heap havoc, since they may
    call unknown code) while the supported conjuncts / disjuncts keep their meaning"""
    if isinstance(test, ast.BoolOp):
        is_and = isinstance(test.op, ast.And)
        saved = st.pc
        parts = []
        for v in test.values:
            c = slice_cond(fv, v, st)
            parts.append(c)
            st.pc = simp_and(st.pc, c if is_and else simp_not(c))
        st.pc = saved
        return z3.And(*parts) if is_and else z3.Or(*parts)
    if isinstance(test, ast.UnaryOp) and isinstance(test.op, ast.Not):
        return simp_not(slice_cond(fv, test.operand, st))
    nf = len(fv.obligations)
    try:
        return fv.truthy(fv.ev(test, st, False))
    except (Unsupported, EngineError, z3.Z3Exception) as e:
        del fv.obligations[nf:]
        probe_sites(fv, ast.Expr(value=test), st, 'condition: %s' % str(e)[:120])
        fv.abstracted.append(dict(line=test.lineno, stmt='condition ' + ast.unparse(test)[:90], reason=str(e)[:160]))
        if not reads_only(test):
            havoc_state(fv, st, assigned_names([ast.Expr(value=test)]))
        return fresh_bool(fv)


def slice_if(fv, s, st):
    c = slice_cond(fv, s.test, st)
    s1 = st.copy(c)
    s2 = st.copy(simp_not(c))
    fv.narrow_isinstance(s.test, s1)
    fv.exec_block(s.body, s1)
    fv.exec_block(s.orelse, s2)
    fv.merge_into(st, [s1, s2], conds=[c, simp_not(c)])


def slice_loop(fv, s, st):
    """one arbitrary iteration from an arbitrary state; arbitrary state afterwards"""
    from .symexec import LoopCtl
    names = add_passed_names(fv, assigned_names(s.body))
    src = None
    if isinstance(s, ast.For):
        tnames = assigned_names([ast.Assign(targets=[s.target], value=ast.Constant(value=None))])
        names |= tnames
        names.mutated_only = frozenset(names.mutated_only - tnames)
        try:
            nf = len(fv.obligations)
            from .comps import iter_source
            src = iter_source(fv, s.target, s.iter, st, False)     # the iterable is evaluated once, before the loop
        except (Unsupported, EngineError, z3.Z3Exception) as e:
            del fv.obligations[nf:]
            src = None
            probe_sites(fv, ast.Expr(value=s.iter), st, 'iterable of the loop: %s' % str(e)[:120])
    havoc_state(fv, st, names)
    body = st.copy(fresh_bool(fv))
    if src is not None:
        # an arbitrary element of the iterable (objects in it existed before the loop)
        from .heap import ALLOC0
        i = z3.Int('it!%d' % next(fv.E.counter))
        fv.add_fact(body, z3.And(0 <= i, i < src.length))
        acur = body.env['__alloc'].term if '__alloc' in body.env else ALLOC0
        for n, sv in src.bind(i).items():
            body.env[n] = sv
            if zsort(sv.ty) == P.V:
                fv.add_fact(body, fv.typed_fact(sv.term, sv.ty))
            if sv.ty.strip_opt().is_obj:
                fv.add_fact(body, z3.Implies(sv.term != P.none, z3.Select(acur, sv.term)))
    if isinstance(s, ast.While):
        try:
            nf = len(fv.obligations)
            c = fv.truthy(fv.ev(s.test, body, False))
            body.pc = simp_and(body.pc, c)
        except (Unsupported, EngineError, z3.Z3Exception) as e:
            del fv.obligations[nf:]
            havoc_state(fv, body, names)
            probe_sites(fv, ast.Expr(value=s.test), body, 'loop condition: %s' % str(e)[:120])
    ctl = LoopCtl()
    fv.loop_stack.append(ctl)
    fv.exec_block(s.body, body)
    fv.loop_stack.pop()
    fv.exec_block(getattr(s, 'orelse', []) or [], st.copy(fresh_bool(fv)))
    havoc_state(fv, st, names)


def slice_try(fv, s, st):
    """body from the current state; each handler from an arbitrary state (the exception may have been raised anywhere in
    the body).  Without else / finally the state after the statement is the join of the body's normal end and the handlers'
    ends (selected by fresh booleans); `exceptional()` in a postcondition tells the handler paths apart."""
    from .symexec import SV
    names = assigned_names([s])
    if '__exc' not in st.env:
        st.env['__exc'] = SV(z3.BoolVal(False), T.BOOL)
    simple = not s.orelse and not s.finalbody
    b = st.copy(fresh_bool(fv)) if simple else st.copy()
    fv.exec_block(s.body, b)
    outs = [b]
    for h in s.handlers:
        hs = st.copy(fresh_bool(fv))
        havoc_state(fv, hs, names)
        hs.env['__exc'] = SV(z3.BoolVal(True), T.BOOL)
        if h.name:
            hs.env[h.name] = fv.E.fresh(h.name, ANY)
        fv.exec_block(h.body, hs)
        outs.append(hs)
    if simple:
        fv.merge_into(st, outs)
        return
    for blk in (s.orelse, s.finalbody):
        if blk:
            x = st.copy(fresh_bool(fv))
            havoc_state(fv, x, names)
            fv.exec_block(blk, x)
    havoc_state(fv, st, names)


def slice_with(fv, s, st):
    for it in s.items:
        try:
            nf = len(fv.obligations)
            fv.ev(it.context_expr, st, False)
        except (Unsupported, EngineError, z3.Z3Exception) as e:
            del fv.obligations[nf:]
            probe_sites(fv, ast.Expr(value=it.context_expr), st, 'context manager: %s' % str(e)[:120])
            havoc_state(fv, st, set())
        if it.optional_vars is not None:
            for e in ast.walk(it.optional_vars):
                if isinstance(e, ast.Name):
                    st.env[e.id] = fv.E.fresh(e.id, ANY)
    fv.exec_block(s.body, st)


def slice_return(fv, s, st):
    from .symexec import SV
    pre = st.copy() if (fv.c is not None and getattr(fv.c, 'site_returns', None)) else None
    try:
        nf = len(fv.obligations)
        sv = fv.ev(s.value, st, False) if s.value is not None else SV(P.none, T.NONE)
    except (Unsupported, EngineError, z3.Z3Exception) as e:
        del fv.obligations[nf:]
        # the returned expression may contain sites
        abstract_statement(fv, ast.copy_location(ast.Expr(value=s.value), s), st, str(e))
        sv = fv.E.fresh('ret', ANY)
    from .calls import site_return_obligations
    site_return_obligations(fv, s, st, sv, pre)
    fv.returns.append((st.copy(), sv, s))
    st.dead = True
    st.pc = z3.BoolVal(False)
