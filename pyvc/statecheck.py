"""Obligations about object state that are generated from the class source on every run (used by C11):

 reset[<Class>.<attr>]   for every instance attribute that any method other than __init__/_reset_state can change:
                         the value assigned by _reset_state equals the value assigned by __init__ (z3),
                         and neither aliases module-level mutable state
 reset-called[<Class>]   visit_program ends with self._reset_state() on every normal path
 frame[<Class>.<method>] no store / in-place mutation whose receiver is anything but `self` or an object the method
                         created itself (syntactic frame analysis of the real AST)
"""
import ast
import time
import z3

from . import prelude as P
from .contracts import Sidecar
from .symexec import Engine, FuncVerifier, State, EngineError, Unsupported

MUTATORS = {'append', 'pop', 'extend', 'update', 'add', 'remove', 'insert', 'clear', 'discard', 'setdefault', 'popitem',
            'reverse', 'sort', '__setitem__', '__delitem__'}


def self_attr_root(e):
    """for an expression like self.x, self.x[...] , self.x.y : returns 'x' (first attribute on self) else None"""
    chain = []
    while isinstance(e, (ast.Attribute, ast.Subscript)):
        if isinstance(e, ast.Attribute):
            chain.append(e.attr)
        e = e.value
    if isinstance(e, ast.Name) and e.id == 'self' and chain:
        return chain[-1]
    return None


def root_name(e):
    while isinstance(e, (ast.Attribute, ast.Subscript, ast.Call)):
        e = e.func if isinstance(e, ast.Call) else e.value
    return e.id if isinstance(e, ast.Name) else None


def written_attrs(fn):
    """attributes of self that the function may change (assignment, augmented assignment, in-place mutation)"""
    out = set()
    for n in ast.walk(fn):
        targets = []
        if isinstance(n, ast.Assign):
            targets = n.targets
        elif isinstance(n, (ast.AugAssign, ast.AnnAssign)):
            targets = [n.target]
        elif isinstance(n, ast.Delete):
            targets = n.targets
        elif isinstance(n, ast.Call) and isinstance(n.func, ast.Attribute) and n.func.attr in MUTATORS:
            targets = [n.func.value]
        elif isinstance(n, (ast.For, ast.comprehension)):
            targets = [n.target]
        for t in targets:
            for tt in (t.elts if isinstance(t, (ast.Tuple, ast.List)) else [t]):
                a = self_attr_root(tt)
                if a is not None:
                    out.add(a)
    return out


def simple_assignments(fn):
    """self.attr = expr statements at the top level of a method body; other statements are returned separately"""
    vals, other = {}, []
    for s in fn.body:
        if isinstance(s, ast.Expr) and isinstance(s.value, ast.Constant):
            continue
        if isinstance(s, ast.AnnAssign) and s.value is not None:
            s = ast.copy_location(ast.Assign(targets=[s.target], value=s.value), s)
        if isinstance(s, ast.Assign) and len(s.targets) == 1 and isinstance(s.targets[0], ast.Attribute) \
                and isinstance(s.targets[0].value, ast.Name) and s.targets[0].value.id == 'self':
            vals[s.targets[0].attr] = s.value
        else:
            other.append(s)
    return vals, other


def aliases_mutable_global(expr, module):
    """expr is a bare reference to a module-level list / set / dict"""
    name = None
    if isinstance(expr, ast.Name):
        name = expr.id
    if name is None or name not in module.globals:
        return None
    v = module.globals[name]
    if isinstance(v, (ast.List, ast.Set, ast.Dict, ast.ListComp, ast.SetComp, ast.DictComp)):
        return name
    if isinstance(v, ast.Call) and isinstance(v.func, ast.Name) and v.func.id in ('list', 'set', 'dict', 'OrderedDict',
                                                                                  'defaultdict'):
        return name
    return None


def prove_equal(E, fv, a_expr, b_expr):
    st = State()
    t0 = time.time()
    try:
        a = fv.ev(a_expr, st, True)
        b = fv.ev(b_expr, st, True)
        goal = fv.py_eq(a, b, a_expr, st, True)
    except (EngineError, Exception) as e:
        return 'undecided', 'cannot evaluate: %s' % e, time.time() - t0
    s = z3.Solver()
    s.set('auto_config', False)
    s.set('smt.mbqi', False)
    s.set('timeout', 10000)
    for _, ax in E.prelude:
        s.add(ax)
    for ax in E.str_axioms() + fv.local_axioms + fv.facts:
        s.add(ax)
    s.add(z3.Not(goal))
    r = s.check()
    if r == z3.unsat:
        return 'proved', '', time.time() - t0
    if r == z3.sat or 'incomplete' in s.reason_unknown():
        return 'failed', 'values differ: __init__ assigns %s, _reset_state assigns %s' % (
            ast.unparse(a_expr), ast.unparse(b_expr)), time.time() - t0
    return 'undecided', s.reason_unknown(), time.time() - t0


def reset_obligations(fe, modname, clsname, extra_functions=()):
    """returns a list of obligation dicts for one translator class"""
    m = fe.module(modname)
    ci = m.classes[clsname]
    sc = Sidecar()
    sc.globals['src.ir.ast.GLOBAL_NAMESPACE'] = 'Tuple[Str]'
    fe.finalize()
    E = Engine(sc, fe)
    fv = FuncVerifier(E, '%s.%s' % (modname, clsname), None, None, module=m, cls=ci)
    out = []
    init, reset = ci.methods.get('__init__'), ci.methods.get('_reset_state')
    qual = '%s.%s' % (modname, clsname)
    if init is None or reset is None:
        return [dict(name='%s/reset[missing]' % qual, status='undecided', reason='no __init__/_reset_state', secs=0,
                     backend='syntactic', function=qual, lineno=ci.node.lineno, kind='proof')]
    changed = set()
    for name, fn in ci.methods.items():
        if name in ('__init__', '_reset_state'):
            continue
        changed |= written_attrs(fn)
    for fn in extra_functions:
        changed |= written_attrs(fn)
    init_vals, init_other = simple_assignments(init)
    reset_vals, reset_other = simple_assignments(reset)
    for s in reset_other:
        out.append(dict(name='%s._reset_state/shape' % qual, status='undecided', secs=0, backend='syntactic', kind='proof',
                        reason='statement other than self.attr = value: %s' % ast.unparse(s)[:80], function=qual + '._reset_state',
                        lineno=s.lineno))
    # the text / inputs: program (the result), package and option-derived attributes are not state to be reset
    exempt = {'program', 'package'}
    for a in sorted(changed - exempt):
        name = '%s/reset[%s]' % (qual, a)
        base = dict(name=name, function=qual + '._reset_state', lineno=reset.lineno, kind='proof')
        if a not in reset_vals:
            out.append(dict(base, status='failed', secs=0, backend='syntactic',
                            reason='attribute %s is changed by a method but not restored by _reset_state' % a))
            continue
        if a not in init_vals:
            out.append(dict(base, status='failed', secs=0, backend='syntactic',
                            reason='attribute %s is restored by _reset_state but not initialised by __init__' % a))
            continue
        al = aliases_mutable_global(reset_vals[a], m) or aliases_mutable_global(init_vals[a], m)
        if al:
            out.append(dict(base, status='failed', secs=0, backend='syntactic',
                            reason='attribute %s aliases the module-level mutable object %s (shared between translator '
                                   'objects and translations)' % (a, al)))
            continue
        status, reason, secs = prove_equal(E, fv, init_vals[a], reset_vals[a])
        out.append(dict(base, status=status, reason=reason, secs=round(secs, 3), backend='z3-%s' % z3.get_version_string()))
    # visit_program ends with _reset_state()
    vp = ci.methods.get('visit_program')
    name = '%s/reset-called[visit_program]' % qual
    ok = False
    why = 'no visit_program'
    if vp is not None:
        last = vp.body[-1]
        ok = (isinstance(last, ast.Expr) and isinstance(last.value, ast.Call) and isinstance(last.value.func, ast.Attribute)
              and last.value.func.attr == '_reset_state' and isinstance(last.value.func.value, ast.Name)
              and last.value.func.value.id == 'self')
        rets = [n for n in ast.walk(vp) if isinstance(n, ast.Return)]
        if rets:
            ok = False
        why = 'visit_program does not end with self._reset_state() on every normal path'
    out.append(dict(name=name, function=qual + '.visit_program', lineno=getattr(vp, 'lineno', 0), kind='proof',
                    status='proved' if ok else 'failed', reason='' if ok else why, secs=0, backend='syntactic'))
    return out


def value_roots(v):
    """names an expression's value may alias: the root of attribute / subscript / method-receiver chains; a plain function
    call aliases its arguments unless it is a known creator of fresh values"""
    if isinstance(v, ast.Name):
        return {v.id}
    if isinstance(v, (ast.Attribute, ast.Subscript, ast.Starred)):
        return value_roots(v.value)
    if isinstance(v, ast.Call):
        f = v.func
        if isinstance(f, ast.Attribute):
            if f.attr in ('format', 'join', 'split', 'replace', 'strip', 'lstrip', 'rstrip', 'lower', 'upper'):
                return set()
            return value_roots(f.value)
        if isinstance(f, ast.Name):
            if f.id in CREATORS or f.id in ('len', 'str', 'int', 'bool', 'isinstance', 'type', 'enumerate', 'zip', 'range',
                                             'any', 'all', 'min', 'max', 'sum') and f.id not in ('enumerate', 'zip'):
                return set()
            out = set()
            for a in v.args:
                out |= value_roots(a)
            return out
        return set()
    if isinstance(v, (ast.IfExp,)):
        return value_roots(v.body) | value_roots(v.orelse)
    if isinstance(v, ast.BoolOp):
        out = set()
        for x in v.values:
            out |= value_roots(x)
        return out
    if isinstance(v, (ast.Tuple, ast.List)):
        out = set()
        for x in v.elts:
            out |= value_roots(x)
        return out
    return set()


CREATORS = {'list', 'dict', 'set', 'tuple', 'sorted', 'OrderedDict', 'defaultdict', 'copy', 'deepcopy', 'str', 'reversed'}


def frame_obligations(fe, modname, clsname=None, functions=None):
    """syntactic frame: a store or in-place mutation must go through `self` or through a local that the function itself
    bound to a freshly created object (literal, comprehension, constructor/copy call)"""
    m = fe.module(modname)
    fns = []
    if clsname:
        ci = m.classes[clsname]
        fns = [('%s.%s.%s' % (modname, clsname, n), f) for n, f in ci.methods.items()]
    for n in functions or ():
        fns.append(('%s.%s' % (modname, n), m.functions[n]))
    out = []
    for qual, fn in fns:
        # taint: parameters other than self, and every local bound from an expression rooted at a tainted name
        params = [a.arg for a in fn.args.args if a.arg != 'self']
        tainted = set(params)
        changed = True
        while changed:
            changed = False
            for n in ast.walk(fn):
                pairs = []
                if isinstance(n, ast.Assign):
                    pairs = [(t, n.value) for t in n.targets]
                elif isinstance(n, (ast.For, ast.comprehension)):
                    pairs = [(n.target, n.iter)]
                elif isinstance(n, ast.With):
                    pairs = [(i.optional_vars, i.context_expr) for i in n.items if i.optional_vars is not None]
                for t, v in pairs:
                    if value_roots(v) & tainted:
                        names = [t] if isinstance(t, ast.Name) else (
                            [e for e in ast.walk(t) if isinstance(e, ast.Name)] if isinstance(t, (ast.Tuple, ast.List)) else [])
                        for tt in names:
                            if tt.id not in tainted and tt.id != 'self':
                                tainted.add(tt.id)
                                changed = True
        bad = []
        for n in ast.walk(fn):
            targets = []
            if isinstance(n, ast.Assign):
                targets = n.targets
            elif isinstance(n, (ast.AugAssign, ast.AnnAssign)):
                targets = [n.target]
            elif isinstance(n, ast.Delete):
                targets = n.targets
            elif isinstance(n, ast.Call) and isinstance(n.func, ast.Attribute) and n.func.attr in MUTATORS:
                targets = [n.func.value]
            for t in targets:
                for tt in (t.elts if isinstance(t, (ast.Tuple, ast.List)) else [t]):
                    if isinstance(tt, ast.Name):
                        continue         # rebinding a local is not a heap write
                    r = root_name(tt)
                    if r in tainted:
                        bad.append('line %d: %s' % (n.lineno, ast.unparse(n)[:90]))
        out.append(dict(name='%s/frame[no-write-through-arguments]' % qual, function=qual, lineno=fn.lineno, kind='proof',
                        status='proved' if not bad else 'failed', secs=0, backend='syntactic',
                        reason='; '.join(bad[:3])))
    return out


def store_census(fe, modname, allowed_program_writes, self_program_attrs=('program', 'types'), allowed_roots=(),
                 site_functions=None):
    """census[<function>]: every heap write of the module (attribute / subscript store, augmented assignment, deletion,
    in-place mutator call) either goes through `self` (bookkeeping of the visitor; but not through self.program / self.types)
    or through a local bound to a freshly created object / container (literal, comprehension, copy, deepcopy), or through one
    of `allowed_roots` (names of the analysis' own data structures, e.g. the type graph), or its attribute is in
    `allowed_program_writes` -- the attributes the property statement allows the mutation to change (each of those stores
    carries a site obligation of the function's slice contract: with `site_functions` given, such a store is accepted only
    inside those functions -- moved into a helper without contract it has no obligation any more and fails here).
    Syntactic, from the real AST."""
    m = fe.module(modname)
    fns = [('%s.%s' % (modname, n), f) for n, f in m.functions.items()]
    for cn, ci in m.classes.items():
        fns += [('%s.%s.%s' % (modname, cn, n), f) for n, f in ci.methods.items()]
    out = []
    for qual, fn in fns:
        fresh = set()
        for n in ast.walk(fn):
            if isinstance(n, ast.Assign) and len(n.targets) == 1 and isinstance(n.targets[0], ast.Name):
                v = n.value
                if isinstance(v, (ast.List, ast.Dict, ast.Set, ast.ListComp, ast.DictComp, ast.SetComp)) or (
                        isinstance(v, ast.Call) and isinstance(v.func, ast.Name) and v.func.id in CREATORS):
                    fresh.add(n.targets[0].id)
        # a name bound more than once to something that is not fresh is not fresh
        for n in ast.walk(fn):
            if isinstance(n, ast.Assign):
                for t in n.targets:
                    if isinstance(t, ast.Name) and t.id in fresh:
                        v = n.value
                        ok = isinstance(v, (ast.List, ast.Dict, ast.Set, ast.ListComp, ast.DictComp, ast.SetComp)) or (
                            isinstance(v, ast.Call) and isinstance(v.func, ast.Name) and v.func.id in CREATORS)
                        if not ok:
                            fresh.discard(t.id)
        bad = []
        for n in ast.walk(fn):
            targets = []
            if isinstance(n, ast.Assign):
                targets = n.targets
            elif isinstance(n, (ast.AugAssign, ast.AnnAssign)):
                targets = [n.target]
            elif isinstance(n, ast.Delete):
                targets = n.targets
            elif isinstance(n, ast.Call) and isinstance(n.func, ast.Attribute) and n.func.attr in MUTATORS:
                targets = [ast.Attribute(value=n.func.value, attr='<mutated>', ctx=ast.Store())] \
                    if not isinstance(n.func.value, ast.Name) else [ast.Subscript(value=n.func.value, slice=ast.Constant(0), ctx=ast.Store())]
            for t in targets:
                for tt in (t.elts if isinstance(t, (ast.Tuple, ast.List)) else [t]):
                    if isinstance(tt, ast.Name):
                        continue
                    # the attribute that is written: x.a = v -> a ; x.a[k] = v -> a ; x[k] = v -> container x itself
                    e = tt
                    while isinstance(e, ast.Subscript):
                        e = e.value
                    if isinstance(e, ast.Attribute) and e.attr == '<mutated>':
                        e = e.value
                        while isinstance(e, ast.Subscript):
                            e = e.value
                    attr = e.attr if isinstance(e, ast.Attribute) else None
                    r = root_name(tt)
                    chain = []
                    x = tt
                    while isinstance(x, (ast.Attribute, ast.Subscript, ast.Call)):
                        if isinstance(x, ast.Attribute):
                            chain.append(x.attr)
                        x = x.func if isinstance(x, ast.Call) else x.value
                    first = chain[-1] if chain else None          # first attribute after the root
                    if r == 'self' and (first not in self_program_attrs or len(chain) == 1 and isinstance(tt, ast.Attribute)):
                        continue        # (self.program = ... rebinds the reference, it does not write into the program)
                    if r in fresh or r in allowed_roots:
                        continue
                    if attr in allowed_program_writes and (site_functions is None or qual in site_functions):
                        continue
                    bad.append('line %d: %s%s' % (n.lineno, ast.unparse(n)[:90],
                                                  ' (no site obligation: this function is not under contract)'
                                                  if attr in allowed_program_writes else ''))
        out.append(dict(name='%s/census[writes-only-what-the-statement-allows]' % qual, function=qual, lineno=fn.lineno,
                        kind='proof', status='proved' if not bad else 'failed', secs=0, backend='syntactic',
                        reason='; '.join(bad[:3])))
    return out


def ir_mutator_names(fe, modules=('src.ir.ast', 'src.ir.context', 'src.ir.types', 'src.ir.builtins')):
    """names of the methods of the IR modules that (transitively, by method name) write through `self`"""
    meths = []
    for mod in modules:
        m = fe.module(mod)
        for cn, ci in m.classes.items():
            for n, f in ci.methods.items():
                if n != '__init__':
                    meths.append((n, f))
    mut = {n for n, f in meths if written_attrs(f)}
    changed = True
    while changed:
        changed = False
        for n, f in meths:
            if n in mut:
                continue
            for c in ast.walk(f):
                if isinstance(c, ast.Call) and isinstance(c.func, ast.Attribute) and c.func.attr in mut:
                    mut.add(n)
                    changed = True
                    break
    return mut


def mutator_call_census(fe, modname, allowed_calls, mutators, site_functions=None):
    """calls[<function>]: the module calls a mutating method of the IR (by name, transitive) only where the statement allows it"""
    m = fe.module(modname)
    fns = [('%s.%s' % (modname, n), f) for n, f in m.functions.items()]
    for cn, ci in m.classes.items():
        fns += [('%s.%s.%s' % (modname, cn, n), f) for n, f in ci.methods.items()]
    out = []
    for qual, fn in fns:
        bad = []
        for c in ast.walk(fn):
            if isinstance(c, ast.Call) and isinstance(c.func, ast.Attribute) and c.func.attr in mutators \
                    and not (c.func.attr in allowed_calls and (site_functions is None or qual in site_functions)):
                bad.append('line %d: %s' % (c.lineno, ast.unparse(c)[:90]))
        out.append(dict(name='%s/calls[no-ir-mutator-except-allowed]' % qual, function=qual, lineno=fn.lineno, kind='proof',
                        status='proved' if not bad else 'failed', secs=0, backend='syntactic', reason='; '.join(bad[:3])))
    return out


def flag_frame_census(fe, modules, attrs, allowed_functions):
    """frame[<module>]: the report flags of a transformation (`attrs`, e.g. is_transformed / error_injected) are stored only by
    constructors and by the functions under contract `allowed_functions` (whose stores carry site obligations).  Every other
    function of `modules` -- nested functions such as the timeout wrapper included -- leaves them alone, so the relation the
    contract establishes between the flags and the writes into the program still holds when the caller reads the flags.
    Syntactic, from the real AST: attribute stores, augmented assignments, deletions and setattr / delattr with a constant or
    non-constant name (a non-constant name may be any attribute)."""
    out = []
    for modname in modules:
        m = fe.module(modname)
        bad = []

        def walk(node, stack):
            for ch in ast.iter_child_nodes(node):
                if isinstance(ch, (ast.FunctionDef, ast.AsyncFunctionDef, ast.ClassDef)):
                    walk(ch, stack + [ch.name])
                    continue
                check(ch, stack)
                walk(ch, stack)

        def check(n, stack):
            qual = '.'.join([modname] + stack)
            ok_here = (stack and stack[-1] == '__init__') or qual in allowed_functions
            hits = []
            targets = []
            if isinstance(n, ast.Assign):
                targets = n.targets
            elif isinstance(n, (ast.AugAssign, ast.AnnAssign)):
                targets = [n.target]
            elif isinstance(n, ast.Delete):
                targets = n.targets
            for t in targets:
                for tt in ast.walk(t):
                    if isinstance(tt, ast.Attribute) and tt.attr in attrs and isinstance(tt.ctx, (ast.Store, ast.Del)):
                        hits.append(tt.attr)
            if isinstance(n, ast.Call) and isinstance(n.func, ast.Name) and n.func.id in ('setattr', 'delattr') and len(n.args) >= 2:
                a = n.args[1]
                if not isinstance(a, ast.Constant) or a.value in attrs:
                    hits.append(a.value if isinstance(a, ast.Constant) else '<computed attribute name>')
            if isinstance(n, ast.Call) and isinstance(n.func, ast.Attribute) and n.func.attr == 'update' \
                    and isinstance(n.func.value, ast.Attribute) and n.func.value.attr == '__dict__':
                hits.append('<__dict__.update>')
            if hits and not ok_here:
                bad.append('line %d in %s: %s' % (n.lineno, qual, ast.unparse(n)[:80]))

        walk(m.tree, [])
        out.append(dict(name='%s/frame[%s-stored-only-by-constructors-and-functions-under-contract]' % (modname, ','.join(sorted(attrs))),
                        function=modname, lineno=1, kind='proof', status='proved' if not bad else 'failed', secs=0,
                        backend='syntactic', reason='; '.join(bad[:3])))
    return out


def config_invariants(repo, invariants, sidecar_path, config_rel='src/generators/config.py', home_class='GenConfig'):
    """config[<path>]: the global invariants the contracts assume about the generator configuration
    (`invariants`: {'limits.cls.max_fields': ('>=', 1), ...}) hold at all times:
      (a) the literal default of the field in GenConfig.__init__ (real AST of config.py) satisfies the bound;
      (b) no statement of the project outside config.py stores an attribute of that name (attribute store, augmented
          assignment, deletion, setattr / delattr with that or a computed name on anything, __dict__ writes), and nothing calls
          json_config / process_arg (the only code of config.py that stores limits after construction);
      (c) the sidecar states exactly these invariants (global_invariant clauses of its profile).
    Syntactic; returns one obligation per invariant plus one for (c)."""
    import os
    out = []
    cfg_tree = ast.parse(open(os.path.join(repo, config_rel)).read())
    # literal defaults: GenConfig.__init__: self.limits = GenLimits(cls=ClassLimits(max_fields=2, ...), ...)
    defaults = {}

    def collect(prefix, call):
        for kw in call.keywords:
            if kw.arg is None:
                continue
            path = prefix + [kw.arg]
            if isinstance(kw.value, ast.Call):
                collect(path, kw.value)
            elif isinstance(kw.value, ast.Constant):
                defaults['.'.join(path)] = kw.value.value
            elif isinstance(kw.value, ast.UnaryOp) and isinstance(kw.value.op, ast.USub) and isinstance(kw.value.operand, ast.Constant):
                defaults['.'.join(path)] = -kw.value.operand.value
    for cls_ in [n for n in cfg_tree.body if isinstance(n, ast.ClassDef) and n.name == home_class]:
        for fn in [n for n in cls_.body if isinstance(n, ast.FunctionDef) and n.name == '__init__']:
            for st in fn.body:
                if isinstance(st, ast.Assign) and len(st.targets) == 1 and isinstance(st.targets[0], ast.Attribute) \
                        and isinstance(st.targets[0].value, ast.Name) and st.targets[0].value.id == 'self' \
                        and isinstance(st.value, ast.Call):
                    collect([st.targets[0].attr], st.value)
    # stores anywhere else
    names = {p.split('.')[-1] for p in invariants}
    stores = {n: [] for n in names}
    general = []
    files = []
    for root, dirs, fs in os.walk(os.path.join(repo, 'src')):
        dirs[:] = [d for d in dirs if d != '__pycache__']
        files += [os.path.join(root, f) for f in fs if f.endswith('.py')]
    files.append(os.path.join(repo, 'hephaestus.py'))
    for f in sorted(files):
        rel = os.path.relpath(f, repo)
        if rel == config_rel:
            continue
        try:
            tree = ast.parse(open(f).read())
        except (OSError, SyntaxError):
            continue
        for n in ast.walk(tree):
            targets = []
            if isinstance(n, ast.Assign):
                targets = n.targets
            elif isinstance(n, (ast.AugAssign, ast.AnnAssign)):
                targets = [n.target]
            elif isinstance(n, ast.Delete):
                targets = n.targets
            for t in targets:
                for tt in ast.walk(t):
                    if isinstance(tt, ast.Attribute) and isinstance(tt.ctx, (ast.Store, ast.Del)) and tt.attr in names:
                        stores[tt.attr].append('%s:%d: %s' % (rel, n.lineno, ast.unparse(n)[:70]))
            if isinstance(n, ast.Call):
                fn_ = n.func
                nm = fn_.id if isinstance(fn_, ast.Name) else (fn_.attr if isinstance(fn_, ast.Attribute) else None)
                if nm in ('setattr', 'delattr') and len(n.args) >= 2:
                    a = n.args[1]
                    if isinstance(a, ast.Constant):
                        if a.value in names:
                            stores[a.value].append('%s:%d: %s' % (rel, n.lineno, ast.unparse(n)[:70]))
                    else:
                        # a computed attribute name: harmless unless the object may be (part of) the configuration
                        txt = ast.unparse(n.args[0])
                        if 'cfg' in txt or 'config' in txt.lower() or 'limits' in txt:
                            general.append('%s:%d: %s' % (rel, n.lineno, ast.unparse(n)[:70]))
                if nm in ('json_config', 'process_arg'):
                    general.append('%s:%d: %s' % (rel, n.lineno, ast.unparse(n)[:70]))
    ops = {'>=': lambda a, b: a >= b, '<=': lambda a, b: a <= b, '==': lambda a, b: a == b}
    for path, (op, bound) in sorted(invariants.items()):
        why = []
        if path not in defaults:
            why.append('no literal default for %s in %s' % (path, config_rel))
        elif not isinstance(defaults[path], (int, float)) or not ops[op](defaults[path], bound):
            why.append('default %r of %s violates %s %r' % (defaults[path], path, op, bound))
        why += stores[path.split('.')[-1]][:3]
        why += general[:2]
        out.append(dict(name='src.generators.config/config[cfg.%s %s %r at all times]' % (path, op, bound),
                        function='src.generators.config', lineno=1, kind='proof', status='proved' if not why else 'failed',
                        secs=0, backend='syntactic', reason='; '.join(why)))
    # (c) the sidecar assumes exactly these
    side = ast.parse(open(sidecar_path).read())
    stated = set()
    for n in ast.walk(side):
        if isinstance(n, ast.Call) and isinstance(n.func, ast.Name) and n.func.id == 'global_invariant' and len(n.args) == 2:
            stated.add(ast.unparse(n.args[1]))
    expect = {'cfg.%s %s %r' % (p_, op, b) for p_, (op, b) in invariants.items()}
    out.append(dict(name='src.generators.config/config[the sidecar assumes exactly the checked invariants]',
                    function='src.generators.config', lineno=1, kind='proof', status='proved' if stated == expect else 'failed',
                    secs=0, backend='syntactic', reason='' if stated == expect else 'sidecar: %s; checked: %s' % (
                        sorted(stated - expect), sorted(expect - stated))))
    return out


def result_through_sites(fe, qual, acc, result_index=0, allowed_callees=(), every_return=True):
    """result[<function>]: the site obligations at `acc.append(...)` speak about the function's RESULT only if the result is
    that accumulator: every `return` of the function (nested functions excluded) returns `acc` (as element `result_index` of a
    tuple, or alone), `acc` is bound exactly once, to an empty list, and is changed in place only by `.append` (the site) or
    by being passed to one of `allowed_callees` (helpers listed as not under contract).  An early `return [..comprehension..]`
    or a second binding of the accumulator bypasses every site obligation and fails here.  Syntactic, from the real AST."""
    modname, fname = qual.rsplit('.', 1)
    fn = fe.module(modname).functions[fname]
    bad = []

    def own_nodes(node):
        for ch in ast.iter_child_nodes(node):
            if isinstance(ch, (ast.FunctionDef, ast.AsyncFunctionDef, ast.Lambda, ast.ClassDef)):
                continue
            yield ch
            yield from own_nodes(ch)
    binds = 0
    for n in own_nodes(fn):
        if isinstance(n, ast.Return) and every_return:
            v = n.value
            el = v.elts[result_index] if isinstance(v, ast.Tuple) and len(v.elts) > result_index else v
            if not (isinstance(el, ast.Name) and el.id == acc):
                bad.append('line %d: returns %s, not the accumulator %s' % (n.lineno, ast.unparse(v)[:60] if v else 'None', acc))
        targets = []
        if isinstance(n, ast.Assign):
            targets = n.targets
        elif isinstance(n, (ast.AugAssign, ast.AnnAssign)):
            targets = [n.target]
        elif isinstance(n, ast.Delete):
            targets = n.targets
        elif isinstance(n, (ast.For, ast.comprehension)):
            targets = [n.target]
        for t in targets:
            for e in ast.walk(t):
                if isinstance(e, ast.Name) and e.id == acc:
                    if isinstance(n, ast.Assign) and t is e and (
                            (isinstance(n.value, ast.List) and not n.value.elts)
                            or (isinstance(n.value, ast.Dict) and not n.value.keys)):
                        binds += 1
                    else:
                        bad.append('line %d: %s is rebound / written other than by append: %s' % (n.lineno, acc, ast.unparse(n)[:60]))
        if isinstance(n, ast.Call):
            f = n.func
            if isinstance(f, ast.Attribute) and isinstance(f.value, ast.Name) and f.value.id == acc and f.attr != 'append' \
                    and f.attr in MUTATORS:
                bad.append('line %d: %s.%s(...)' % (n.lineno, acc, f.attr))
            callee = f.id if isinstance(f, ast.Name) else (f.attr if isinstance(f, ast.Attribute) else '')
            passed = any(isinstance(a, ast.Name) and a.id == acc for a in list(n.args) + [k.value for k in n.keywords])
            if passed and callee not in allowed_callees and callee not in ('len', 'list', 'tuple', 'enumerate', 'zip', 'str'):
                bad.append('line %d: %s is passed to %s(...)' % (n.lineno, acc, callee))
    if binds != 1:
        bad.append('%s is bound to an empty list / dict %d times (expected once)' % (acc, binds))
    return [dict(name='%s/result[%s]' % (qual, 'is-the-accumulator-filled-at-the-sites' if every_return
                                          else '%s-is-filled-only-at-the-sites' % acc), function=qual, lineno=fn.lineno, kind='proof',
                 status='proved' if not bad else 'failed', secs=0, backend='syntactic', reason='; '.join(bad[:3]))]


def bound_once_to_call(fe, qual, var, callee):
    """binding[<function>:<var>]: a site obligation that speaks about the local `var` as "the result of the call of
    `callee`" is meaningful only if `var` is bound exactly once in the function, by `var = callee(...)`, and is never
    changed afterwards: no second binding, no augmented assignment, no deletion, no in-place mutation, not a loop /
    comprehension target, not passed to any callee (only read: `in`, `+`, iteration, len).  Syntactic, from the real AST."""
    modname, fname = qual.rsplit('.', 1)
    fn = fe.module(modname).functions[fname]
    bad = []

    def own_nodes(node):
        for ch in ast.iter_child_nodes(node):
            if isinstance(ch, (ast.FunctionDef, ast.AsyncFunctionDef, ast.Lambda, ast.ClassDef)):
                continue
            yield ch
            yield from own_nodes(ch)
    binds = 0
    for n in own_nodes(fn):
        targets = []
        if isinstance(n, ast.Assign):
            targets = n.targets
        elif isinstance(n, (ast.AugAssign, ast.AnnAssign)):
            targets = [n.target]
        elif isinstance(n, ast.Delete):
            targets = n.targets
        elif isinstance(n, (ast.For, ast.comprehension)):
            targets = [n.target]
        elif isinstance(n, ast.NamedExpr):
            targets = [n.target]
        for t in targets:
            for e in ast.walk(t):
                if isinstance(e, ast.Name) and e.id == var:
                    v = getattr(n, 'value', None)
                    f = v.func if isinstance(v, ast.Call) else None
                    cn = f.id if isinstance(f, ast.Name) else (f.attr if isinstance(f, ast.Attribute) else None)
                    if isinstance(n, ast.Assign) and t is e and cn == callee:
                        binds += 1
                    else:
                        bad.append('line %d: %s is bound / written other than by %s(...): %s'
                                   % (n.lineno, var, callee, ast.unparse(n)[:60]))
        if isinstance(n, ast.Call):
            f = n.func
            if isinstance(f, ast.Attribute) and isinstance(f.value, ast.Name) and f.value.id == var and f.attr in MUTATORS:
                bad.append('line %d: %s.%s(...)' % (n.lineno, var, f.attr))
            cn = f.id if isinstance(f, ast.Name) else (f.attr if isinstance(f, ast.Attribute) else '')
            passed = any(isinstance(a, ast.Name) and a.id == var for a in list(n.args) + [k.value for k in n.keywords])
            if passed and cn not in ('len', 'list', 'tuple', 'enumerate', 'zip', 'str', 'set'):
                bad.append('line %d: %s is passed to %s(...)' % (n.lineno, var, cn))
    if binds != 1:
        bad.append('%s is bound by %s(...) %d times (expected once)' % (var, callee, binds))
    return [dict(name='%s/binding[%s-is-the-result-of-%s]' % (qual, var, callee), function=qual, lineno=fn.lineno,
                 kind='proof', status='proved' if not bad else 'failed', secs=0, backend='syntactic',
                 reason='; '.join(bad[:3]))]


MUTABLE_CTORS = {'dict', 'list', 'set', 'defaultdict', 'OrderedDict', 'deque', 'Counter'}


def _is_mutable_literal(v):
    return isinstance(v, (ast.Dict, ast.List, ast.Set, ast.ListComp, ast.DictComp, ast.SetComp)) or (
        isinstance(v, ast.Call) and isinstance(v.func, (ast.Name, ast.Attribute))
        and (v.func.id if isinstance(v.func, ast.Name) else v.func.attr) in MUTABLE_CTORS)


def _writes_through(fn, name):
    """does the function body store into / mutate in place the container bound to `name` (not merely rebind the name)?"""
    for n in ast.walk(fn):
        targets = []
        if isinstance(n, ast.Assign):
            targets = n.targets
        elif isinstance(n, (ast.AugAssign, ast.AnnAssign)):
            targets = [n.target]
        elif isinstance(n, ast.Delete):
            targets = n.targets
        elif isinstance(n, ast.Call) and isinstance(n.func, ast.Attribute) and n.func.attr in MUTATORS:
            targets = [ast.Subscript(value=n.func.value, slice=ast.Constant(0), ctx=ast.Store())]
        for t in targets:
            for tt in (t.elts if isinstance(t, (ast.Tuple, ast.List)) else [t]):
                if isinstance(tt, ast.Name):
                    continue
                if root_name(tt) == name:
                    return n.lineno
    return None


def hidden_state_census(fe, modname, allowed_globals=()):
    """hidden-state[<module>]: results must depend on the arguments only, so a module keeps no state between calls:
    (a) no parameter with a mutable default value ({} / [] / set() ...) is written through in the function body (the default
        object is shared by all calls);
    (b) no module-level mutable container is written from inside a function (memo tables, registries), except the names in
        `allowed_globals`;
    (c) no function or method is wrapped in a memoising decorator (functools.lru_cache / cache / cached_property or anything
        whose name contains "cache" / "memo"): the cache is keyed by `==` / `hash` of the arguments, which identify less than
        the result depends on (mutable declarations, the primitive flag of a builtin, the random generator).
    (d) in the modules of the type representation (VALUE_OBJECT_MODULES: types are values, every query on them must be a
        function of the object graph as it is now) no method other than __init__ / __setstate__ / a property setter stores
        into or mutates in place anything reached through `self` (a per-instance memo of a query result goes stale when a
        bound / supertype list is re-assigned later -- which TypeUpdater, the generator and the mutations do).
    Syntactic, from the real AST."""
    m = fe.module(modname)
    tree = m.tree if hasattr(m, 'tree') else None
    if tree is None:
        import os
        path = os.path.join(fe.repo, *modname.split('.')) + '.py'
        tree = ast.parse(open(path).read())
    bad = []
    globs = set()
    for s in tree.body:
        if isinstance(s, ast.Assign) and _is_mutable_literal(s.value):
            for t in s.targets:
                if isinstance(t, ast.Name):
                    globs.add(t.id)
    funcs = [n for n in ast.walk(tree) if isinstance(n, (ast.FunctionDef, ast.AsyncFunctionDef))]
    for fn in funcs:
        for dec in fn.decorator_list:
            dn = dec.func if isinstance(dec, ast.Call) else dec
            nm = dn.attr if isinstance(dn, ast.Attribute) else (dn.id if isinstance(dn, ast.Name) else '')
            if 'cache' in nm.lower() or 'memo' in nm.lower():
                bad.append('line %d: %s() is memoised by @%s' % (fn.lineno, fn.name, ast.unparse(dec)[:50]))
        a = fn.args
        pos = a.posonlyargs + a.args
        for arg, d in list(zip(pos[len(pos) - len(a.defaults):], a.defaults)) + [
                (k, d) for k, d in zip(a.kwonlyargs, a.kw_defaults) if d is not None]:
            if _is_mutable_literal(d):
                ln = _writes_through(fn, arg.arg)
                if ln:
                    bad.append('line %d: %s() writes through its mutable default argument %s' % (ln, fn.name, arg.arg))
        local = {x.arg for x in pos + a.kwonlyargs} | {
            t.id for n in ast.walk(fn) if isinstance(n, ast.Assign) for t in n.targets if isinstance(t, ast.Name)}
        declared_global = {nm for n in ast.walk(fn) if isinstance(n, ast.Global) for nm in n.names}
        for g in globs - set(allowed_globals):
            if g in local and g not in declared_global:
                continue
            ln = _writes_through(fn, g)
            if ln:
                bad.append('line %d: %s() writes the module-level container %s' % (ln, fn.name, g))
    if modname in VALUE_OBJECT_MODULES:
        for cls_ in [n for n in tree.body if isinstance(n, ast.ClassDef)]:
            for fn in [n for n in cls_.body if isinstance(n, ast.FunctionDef)]:
                if fn.name in ('__init__', '__setstate__') or any(
                        isinstance(d, ast.Attribute) and d.attr == 'setter' for d in fn.decorator_list):
                    continue
                for n in ast.walk(fn):
                    targets = []
                    if isinstance(n, ast.Assign):
                        targets = n.targets
                    elif isinstance(n, (ast.AugAssign, ast.AnnAssign)):
                        targets = [n.target]
                    elif isinstance(n, ast.Delete):
                        targets = n.targets
                    elif isinstance(n, ast.Call) and isinstance(n.func, ast.Attribute) and n.func.attr in MUTATORS:
                        targets = [n.func.value]
                    elif isinstance(n, ast.Call) and isinstance(n.func, ast.Name) and n.func.id in ('setattr', 'delattr') \
                            and n.args:
                        targets = [ast.Attribute(value=n.args[0], attr='<setattr>', ctx=ast.Store())]
                    for t in targets:
                        for tt in (t.elts if isinstance(t, (ast.Tuple, ast.List)) else [t]):
                            if isinstance(tt, ast.Name):
                                continue
                            if root_name(tt) == 'self':
                                bad.append('line %d: %s.%s() stores through self: %s' % (
                                    n.lineno, cls_.name, fn.name, ast.unparse(n)[:60]))
    return [dict(name='%s/hidden-state[no-shared-mutable-state]' % modname, function=modname, lineno=0, kind='proof',
                 status='proved' if not bad else 'failed', secs=0, backend='syntactic', reason='; '.join(bad[:3]))]


VALUE_OBJECT_MODULES = {'src.ir.types', 'src.ir.builtins', 'src.ir.kotlin_types', 'src.ir.java_types', 'src.ir.groovy_types',
                        'src.ir.scala_types'}


SWITCH_WIRING = [
    # (command-line destination, configuration attribute, kind)
    ('disable_use_site_variance', ('dis', 'use_site_variance'), 'copy'),
    ('disable_contravariance_use_site', ('dis', 'use_site_contravariance'), 'copy'),
    ('disable_bounded_type_parameters', ('prob', 'bounded_type_parameters'), 'zero'),
    ('disable_parameterized_functions', ('prob', 'parameterized_functions'), 'zero'),
]


def switch_wiring_obligations(repo):
    """wiring[<flag>]: the module-level configuration block of src/args.py is executed symbolically (assignments to
    cfg.<group>.<attr> from args.<dest> / constants under `if args.<dest>` tests; z3 decides): after it, the two boolean
    switches equal their command-line flags and a given --disable-... flag leaves the corresponding probability at 0,
    for every combination of the flags.  (That argparse stores --disable-x-y in args.disable_x_y is trusted.)"""
    import os
    t0 = time.time()
    tree = ast.parse(open(os.path.join(repo, 'src', 'args.py')).read())
    args = {}
    state = {}

    def arg(name):
        if name not in args:
            args[name] = z3.Bool('args.' + name)
        return args[name]

    def cfg_key(t):
        # cfg.<group>.<attr>
        if isinstance(t, ast.Attribute) and isinstance(t.value, ast.Attribute) and isinstance(t.value.value, ast.Name) \
                and t.value.value.id == 'cfg':
            return (t.value.attr, t.attr)
        return None

    def cur(key):
        if key not in state:
            state[key] = z3.Bool('cfg0.%s.%s' % key) if key[0] == 'dis' else z3.Int('cfg0.%s.%s' % key)
        return state[key]

    def val(v, key):
        if isinstance(v, ast.Attribute) and isinstance(v.value, ast.Name) and v.value.id == 'args':
            a = arg(v.attr)
            return a if key[0] == 'dis' else z3.If(a, z3.IntVal(1), z3.IntVal(0))
        if isinstance(v, ast.Constant) and isinstance(v.value, bool):
            return z3.BoolVal(v.value) if key[0] == 'dis' else z3.IntVal(int(v.value))
        if isinstance(v, ast.Constant) and isinstance(v.value, (int, float)):
            return z3.IntVal(0) if v.value == 0 else z3.Int('nonzero!%d' % v.lineno) if key[0] != 'dis' else z3.BoolVal(bool(v.value))
        return z3.FreshConst(z3.BoolSort() if key[0] == 'dis' else z3.IntSort(), 'unknown')

    def cond(test):
        if isinstance(test, ast.Attribute) and isinstance(test.value, ast.Name) and test.value.id == 'args':
            return arg(test.attr)
        if isinstance(test, ast.UnaryOp) and isinstance(test.op, ast.Not):
            return z3.Not(cond(test.operand))
        if isinstance(test, ast.BoolOp):
            cs = [cond(x) for x in test.values]
            return z3.And(*cs) if isinstance(test.op, ast.And) else z3.Or(*cs)
        return z3.FreshConst(z3.BoolSort(), 'cond')

    def run(stmts, pc):
        for s in stmts:
            if isinstance(s, ast.Assign):
                for t in s.targets:
                    k = cfg_key(t)
                    if k is not None:
                        state[k] = z3.If(pc, val(s.value, k), cur(k))
            elif isinstance(s, ast.If):
                c = cond(s.test)
                run(s.body, z3.And(pc, c))
                run(s.orelse, z3.And(pc, z3.Not(c)))
    run(tree.body, z3.BoolVal(True))
    out = []
    for dest, key, kind in SWITCH_WIRING:
        final = cur(key)
        a = arg(dest)
        goal = (final == a) if kind == 'copy' else z3.Implies(a, final == 0)
        sol = z3.Solver()
        sol.set('timeout', 5000)
        sol.add(z3.Not(goal))
        r = sol.check()
        model = ''
        if r == z3.sat:
            m = sol.model()
            model = ', '.join('%s=%s' % (d.name(), m[d]) for d in m.decls() if d.name().startswith('args.'))
        out.append(dict(name='src.args/wiring[--%s]' % dest.replace('_', '-'), function='src.args', lineno=0, kind='proof',
                        status='proved' if r == z3.unsat else 'failed', secs=time.time() - t0, backend='z3',
                        reason='' if r == z3.unsat else 'cfg.%s.%s is not %s for the flags %s' % (
                            key[0], key[1], 'the flag' if kind == 'copy' else '0 when the flag is given', model)))
    return out


PICKLE_HOOKS = ('__getstate__', '__setstate__', '__reduce__', '__reduce_ex__', '__getnewargs__', '__getnewargs_ex__',
                '__copy__', '__deepcopy__')


def pickle_hook_census(fe, subdirs=('src',)):
    """pickle-hooks[src]: the trusted round-trip law of the dump (unpickling a pickled program gives an object graph with the
    same classes and the same instance dictionaries) is the DEFAULT behaviour of pickle; it holds for the IR only as long as
    no class customises what is pickled or how it is rebuilt: no class under src/ defines __getstate__ / __setstate__ /
    __reduce__ / __reduce_ex__ / __getnewargs__ / __copy__ / __deepcopy__ or __slots__, and no module registers a reducer
    (copyreg).  One obligation per offending definition would hide the clean state, so the census is ONE obligation that
    lists what it found.  Syntactic, from the real AST of every module under src/."""
    import os
    bad = []
    nfiles = 0
    for sd in subdirs:
        for root, _, files in os.walk(os.path.join(fe.repo, sd)):
            for f in sorted(files):
                if not f.endswith('.py'):
                    continue
                path = os.path.join(root, f)
                try:
                    tree = ast.parse(open(path).read())
                except SyntaxError as e:
                    bad.append('%s: does not parse (%s)' % (os.path.relpath(path, fe.repo), e))
                    continue
                nfiles += 1
                rel = os.path.relpath(path, fe.repo)
                for n in ast.walk(tree):
                    if isinstance(n, ast.ClassDef):
                        for s in n.body:
                            if isinstance(s, (ast.FunctionDef, ast.AsyncFunctionDef)) and s.name in PICKLE_HOOKS:
                                bad.append('%s:%d: class %s defines %s' % (rel, s.lineno, n.name, s.name))
                            if isinstance(s, (ast.Assign, ast.AnnAssign)):
                                tg = s.targets if isinstance(s, ast.Assign) else [s.target]
                                for t in tg:
                                    if isinstance(t, ast.Name) and (t.id == '__slots__' or t.id in PICKLE_HOOKS):
                                        bad.append('%s:%d: class %s sets %s' % (rel, s.lineno, n.name, t.id))
                    elif isinstance(n, (ast.Import, ast.ImportFrom)):
                        names = [a.name for a in n.names] + ([n.module] if isinstance(n, ast.ImportFrom) and n.module else [])
                        if any(x and x.split('.')[0] == 'copyreg' for x in names):
                            bad.append('%s:%d: copyreg is imported' % (rel, n.lineno))
    if nfiles == 0:
        bad.append('no module found under %s' % (subdirs,))
    return [dict(name='src/pickle-hooks[no-class-customises-its-pickled-state]', function='src', lineno=0, kind='proof',
                 status='proved' if not bad else 'failed', secs=0, backend='syntactic (%d modules)' % nfiles,
                 reason='; '.join(bad[:4]))]


def invented_declaration_census(fe, modname, const_name='RET',
                                decl_classes=('VariableDeclaration', 'FunctionDeclaration', 'ParameterDeclaration',
                                              'FieldDeclaration', 'ClassDeclaration')):
    """invented-declarations[<module>]: the analysis builds declaration objects that are NOT part of the program ("virtual"
    variables standing for a block's value).  The mutations tell them apart from real declarations by their reserved name
    (`n.decl.name == RET`), so every declaration object the analysis module constructs must carry exactly that name: its
    first argument is the module constant RET itself, and RET is bound once at module level to a string literal.  A renamed
    virtual declaration would become a mutation candidate although writing to it changes nothing in the program (C04: an
    injection would be reported for an unchanged program).  Syntactic, from the real AST."""
    m = fe.module(modname)
    import os
    path = os.path.join(fe.repo, *modname.split('.')) + '.py'
    tree = ast.parse(open(path).read())
    bad = []
    binds = [s for s in tree.body if isinstance(s, ast.Assign)
             and any(isinstance(t, ast.Name) and t.id == const_name for t in s.targets)]
    if len(binds) != 1 or not (isinstance(binds[0].value, ast.Constant) and isinstance(binds[0].value.value, str)):
        bad.append('%s is not bound exactly once at module level to a string literal' % const_name)
    for n in ast.walk(tree):
        if isinstance(n, (ast.Assign, ast.AugAssign)) and n not in binds:
            tg = n.targets if isinstance(n, ast.Assign) else [n.target]
            if any(isinstance(t, ast.Name) and t.id == const_name for t in tg):
                bad.append('line %d: %s is re-bound' % (n.lineno, const_name))
        if isinstance(n, ast.Call):
            f = n.func
            nm = f.attr if isinstance(f, ast.Attribute) else (f.id if isinstance(f, ast.Name) else None)
            if nm in decl_classes:
                a0 = n.args[0] if n.args else next((k.value for k in n.keywords if k.arg == 'name'), None)
                if not (isinstance(a0, ast.Name) and a0.id == const_name):
                    bad.append('line %d: %s(...) is named %s, not %s' % (
                        n.lineno, nm, ast.unparse(a0)[:40] if a0 is not None else '?', const_name))
    return [dict(name='%s/invented-declarations[carry-the-reserved-name-%s]' % (modname, const_name), function=modname,
                 lineno=0, kind='proof', status='proved' if not bad else 'failed', secs=0, backend='syntactic',
                 reason='; '.join(bad[:3]))]


def phase_separation(fe, qual, var):
    """phases[<function>:<var>]: the set `var` is FILLED in one phase of the function and CONSULTED in a later one -- every
    statement that adds to it (or rebinds it, apart from the initial empty binding) lies in a top-level statement of the
    function that comes before every top-level statement that reads it.  A membership test against a set that is still being
    filled sees only the elements added so far (C03: `removed_decls` of is_combination_feasible -- a type argument may be
    omitted only if the declaration that would determine it is not omitted as well, whatever the order of the combination).
    Syntactic, from the real AST."""
    modname, fname = qual.rsplit('.', 1)
    fn = fe.module(modname).functions[fname]
    writes, reads, binds = [], [], 0
    for idx, stmt in enumerate(fn.body):
        for n in ast.walk(stmt):
            if isinstance(n, ast.Assign) and any(isinstance(t, ast.Name) and t.id == var for t in n.targets):
                empty = (isinstance(n.value, ast.Call) and isinstance(n.value.func, ast.Name) and n.value.func.id == 'set'
                         and not n.value.args) or (isinstance(n.value, (ast.List, ast.Set, ast.Dict))
                                                   and not getattr(n.value, 'elts', getattr(n.value, 'keys', [])))
                if empty and stmt is n:
                    binds += 1
                else:
                    writes.append((idx, n.lineno, 'rebinds'))
            elif isinstance(n, (ast.AugAssign,)) and isinstance(n.target, ast.Name) and n.target.id == var:
                writes.append((idx, n.lineno, 'augmented assignment'))
            elif isinstance(n, ast.Call) and isinstance(n.func, ast.Attribute) and isinstance(n.func.value, ast.Name) \
                    and n.func.value.id == var:
                if n.func.attr in MUTATORS:
                    writes.append((idx, n.lineno, '.' + n.func.attr))
                else:
                    reads.append((idx, n.lineno))
            elif isinstance(n, ast.Name) and n.id == var and isinstance(n.ctx, ast.Load):
                reads.append((idx, n.lineno))
    # receivers of mutator calls were also counted as plain loads: drop those
    wlines = {ln for _, ln, _ in writes}
    reads = [(i, ln) for i, ln in reads if ln not in wlines]
    bad = []
    if binds != 1:
        bad.append('%s is bound to an empty collection %d times at the top level (expected once)' % (var, binds))
    if writes and reads and max(i for i, _, _ in writes) >= min(i for i, _ in reads):
        w = max(writes)
        r = min(reads)
        bad.append('line %d %s %s while line %d already reads it (same or earlier phase)' % (w[1], w[2], var, r[1]))
    if not writes or not reads:
        bad.append('%s is %s' % (var, 'never filled' if not writes else 'never consulted'))
    return [dict(name='%s/phases[%s-is-complete-before-it-is-consulted]' % (qual, var), function=qual, lineno=fn.lineno,
                 kind='proof', status='proved' if not bad else 'failed', secs=0, backend='syntactic',
                 reason='; '.join(bad[:3]))]
