"""Static types tracked by the symbolic executor (not SMT sorts)."""
import ast


class Ty:
    __slots__ = ('kind', 'args', 'name')

    def __init__(self, kind, args=(), name=None):
        self.kind = kind      # int bool str none abs seq set map obj opt any fun tuple
        self.args = tuple(args)
        self.name = name      # for abs / obj

    def __eq__(self, o):
        return isinstance(o, Ty) and (self.kind, self.args, self.name) == (o.kind, o.args, o.name)

    def __hash__(self):
        return hash((self.kind, self.args, self.name))

    def __repr__(self):
        if self.kind in ('abs', 'obj'):
            return self.name
        if self.kind == 'map' and self.name:
            return 'DefaultMap[%s]' % ','.join(map(repr, self.args))
        if self.args:
            return '%s[%s]' % (self.kind.capitalize(), ','.join(map(repr, self.args)))
        return self.kind.capitalize()

    # convenience
    @property
    def is_int(self): return self.kind == 'int'
    @property
    def is_bool(self): return self.kind == 'bool'
    @property
    def is_seq(self): return self.kind in ('seq', 'tuple')
    @property
    def is_map(self): return self.kind == 'map'
    @property
    def is_set(self): return self.kind == 'set'
    @property
    def is_obj(self): return self.kind == 'obj'
    @property
    def is_opt(self): return self.kind == 'opt'
    @property
    def is_none(self): return self.kind == 'none'
    @property
    def is_any(self): return self.kind == 'any'

    def elem(self):
        if self.kind in ('seq', 'set', 'tuple'):
            return self.args[0]
        if self.kind == 'map':
            return self.args[0]
        if self.kind == 'opt':
            return self.args[0].elem()
        if self.kind == 'any':
            return ANY
        raise TypeError('no element type for %r' % self)

    def strip_opt(self):
        return self.args[0] if self.kind == 'opt' else self


INT = Ty('int')
BOOL = Ty('bool')
STR = Ty('str')
NONE = Ty('none')
ANY = Ty('any')


def Seq(t): return Ty('seq', (t,))
def Tuple(t): return Ty('tuple', (t,))
def Set(t): return Ty('set', (t,))
def Map(k, v): return Ty('map', (k, v))
def Obj(n): return Ty('obj', (), n)
def Abs(n): return Ty('abs', (), n)


def Opt(t):
    if t.kind in ('opt', 'none', 'any'):
        return t
    return Ty('opt', (t,))


def is_flat(t):
    """Python == coincides with canonical V equality (with SeqEq for sequences)."""
    if t.kind in ('int', 'bool', 'str', 'none', 'abs'):
        return True
    if t.kind in ('seq', 'tuple', 'opt'):
        return is_flat(t.args[0])
    return False


def join(a, b):
    if a == b:
        return a
    if a.is_any or b.is_any:
        return ANY
    if a.is_none:
        return Opt(b)
    if b.is_none:
        return Opt(a)
    if a.is_opt or b.is_opt:
        j = join(a.strip_opt(), b.strip_opt())
        return Opt(j)
    if a.kind == b.kind and a.kind in ('seq', 'set', 'tuple'):
        return Ty(a.kind, (cjoin(a.args[0], b.args[0]),))
    if {a.kind, b.kind} == {'seq', 'tuple'}:
        return Seq(cjoin(a.args[0], b.args[0]))
    if a.kind == b.kind == 'map':
        return Ty('map', (cjoin(a.args[0], b.args[0]), cjoin(a.args[1], b.args[1])), a.name or b.name)
    if a.kind == b.kind == 'obj':
        return Ty('obj', (), '|'.join(sorted(set(a.name.split('|')) | set(b.name.split('|')))))
    if {a.kind, b.kind} == {'int', 'bool'}:
        return INT
    return ANY


def cjoin(a, b):
    """join of container element types: an element type Any only comes from an empty literal"""
    if a.is_any:
        return b
    if b.is_any:
        return a
    return join(a, b)


class TyEnv:
    """aliases and abstract sorts declared in sidecars; class names come from the class table"""

    def __init__(self):
        self.aliases = {}
        self.abstract = set()
        self.classes = set()
        self.resolver = None       # class name -> canonical key (set by the engine)

    def parse(self, text):
        if isinstance(text, Ty):
            return text
        node = ast.parse(text.strip(), mode='eval').body
        return self._conv(node)

    def _cls(self, nm):
        if self.resolver is not None:
            k = self.resolver(nm)
            if k is not None:
                return k
        return nm

    def _conv(self, n):
        if isinstance(n, ast.Name):
            nm = n.id
            if nm in self.aliases:
                return self.parse(self.aliases[nm])
            base = {'Int': INT, 'Bool': BOOL, 'Str': STR, 'None': NONE, 'Any': ANY}
            if nm in base:
                return base[nm]
            if nm in self.abstract:
                return Abs(nm)
            return Obj(self._cls(nm))
        if isinstance(n, ast.Constant) and n.value is None:
            return NONE
        if isinstance(n, ast.Attribute) and isinstance(n.value, ast.Name):
            return Obj(self._cls(n.value.id + '.' + n.attr))
        if isinstance(n, ast.Subscript):
            head = n.value.id
            sl = n.slice
            args = [self._conv(e) for e in sl.elts] if isinstance(sl, ast.Tuple) else [self._conv(sl)]
            if head == 'Seq':
                return Seq(args[0])
            if head == 'Tuple':
                return Tuple(args[0])
            if head == 'Set':
                return Set(args[0])
            if head in ('Map', 'OMap'):
                return Map(args[0], args[1])
            if head == 'DefaultMap':
                return Ty('map', (args[0], args[1]), 'defaultlist')
            if head == 'Opt':
                return Opt(args[0])
            if head == 'Obj':
                return args[0]
        if isinstance(n, ast.BinOp) and isinstance(n.op, ast.BitOr):
            return join(self._conv(n.left), self._conv(n.right))
        raise ValueError('bad type expression: ' + ast.dump(n))
