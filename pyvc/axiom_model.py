"""Bounded validation of the prelude axioms in their intended model.

Every axiom of pyvc/prelude.py is a closed z3 formula over the universal value sort V.  This module interprets V as
Python values (None, boxed ints / bools, strings, tuples = sequences, insertion-ordered association tuples = maps,
frozensets = sets), the prelude's function symbols as the corresponding Python operations (totalised: a value of the
wrong kind behaves like the empty sequence / map / set), and evaluates each axiom with its quantifiers ranging over a small
finite universe.  A violated instance means the axiom is wrong about Python's collections (or relies on an unstated
guard) -- it would make every proof that uses it worthless.  This is a BOUNDED check of the trusted base, never a proof:
an axiom that only fails on longer sequences escapes it.
"""
import itertools
import z3

from . import prelude as P

NONE = ('none',)


def I(n): return ('int', n)
def B(b): return ('bool', bool(b))
def S(*xs): return ('seq', tuple(xs))
def M(*kv): return ('map', tuple(kv))
def St(*xs): return ('set', frozenset(xs))


TAGS = {'none': P.TAG_NONE, 'int': P.TAG_INT, 'bool': P.TAG_BOOL, 'str': P.TAG_STR, 'str2': P.TAG_STR, 'seq': P.TAG_SEQ,
        'map': P.TAG_MAP, 'set': P.TAG_SET, 'obj': P.TAG_OBJ}


def seq(v): return v[1] if v[0] == 'seq' else ()
def mp(v): return v[1] if v[0] == 'map' else ()
def st(v): return v[1] if v[0] == 'set' else frozenset()


def mk_seq(t): return ('seq', tuple(t))


def mk_map(pairs):
    out = []
    for k, v in pairs:
        for i, (k2, _) in enumerate(out):
            if k2 == k:
                out[i] = (k, v)
                break
        else:
            out.append((k, v))
    return ('map', tuple(out))


def m_get(m, k):
    for k2, v in mp(m):
        if k2 == k:
            return v
    return NONE


def m_has(m, k): return any(k2 == k for k2, _ in mp(m))


def f_at(s, i):
    t = seq(s)
    return t[i] if 0 <= i < len(t) else NONE


def f_idx(s, x):
    t = seq(s)
    return t.index(x) if x in t else 0


def f_take(s, n):
    t = seq(s)
    return mk_seq(t[:max(0, n)]) if n <= len(t) else mk_seq(t)


def f_drop(s, n):
    t = seq(s)
    return mk_seq(t[max(0, n):])


def f_upd(s, i, x):
    t = list(seq(s))
    if 0 <= i < len(t):
        t[i] = x
    return mk_seq(t)


def f_remove(s, x):
    t = list(seq(s))
    if x in t:
        t.remove(x)
    return mk_seq(t)


def f_sconcat(a, b):
    if a[0] == 'str' and b[0] == 'str':
        return ('str', a[1] + b[1])
    return ('str2', a, b)


def f_startswith(x, p):
    if x[0] == 'str' and p[0] == 'str':
        return x[1].startswith(p[1])
    if x[0] == 'str2':
        return x[1] == p
    return False


FUN = {
    'tag': lambda v: TAGS[v[0]],
    'I': lambda n: I(n), 'unI': lambda v: v[1] if v[0] == 'int' else 0,
    'Bx': lambda b: B(b), 'unB': lambda v: v[1] if v[0] == 'bool' else False,
    'cls': lambda v: 0,
    'alen': lambda v: len(v[1]) if v[0] in ('seq', 'map', 'set', 'str') else 0,
    'truth': lambda v: (v[1] if v[0] == 'bool' else v[1] != 0 if v[0] == 'int' else len(v[1]) > 0 if v[0] in ('seq', 'map', 'set', 'str')
                        else False if v[0] == 'none' else True),
    'len': lambda s: len(seq(s)),
    'at': f_at,
    'mem': lambda s, x: x in seq(s),
    'idx': f_idx,
    'snoc': lambda s, x: mk_seq(seq(s) + (x,)),
    'append': lambda s, t: mk_seq(seq(s) + seq(t)),
    'take': f_take, 'drop': f_drop, 'upd': f_upd,
    'slice_to': lambda s, n: mk_seq(seq(s)[:n]),
    'slice_from': lambda s, n: mk_seq(seq(s)[n:]),
    'SeqEq': lambda s, t: seq(s) == seq(t),
    'seq_remove': f_remove,
    'nodup': lambda s: len(set(seq(s))) == len(seq(s)),
    'restrict': lambda s, m: mk_seq(x for x in seq(s) if m_has(m, x)),
    'has': m_has, 'get': m_get,
    'put': lambda m, k, v: mk_map(list(mp(m)) + [(k, v)]),
    'rem': lambda m, k: ('map', tuple((k2, v) for k2, v in mp(m) if k2 != k)),
    'keys': lambda m: mk_seq(k for k, _ in mp(m)),
    'MapEq': lambda a, b: mp(a) == mp(b),
    'mupdate': lambda a, b: mk_map(list(mp(a)) + list(mp(b))),
    'MapEqv': lambda a, b: dict(mp(a)) == dict(mp(b)),
    'smem': lambda s, x: x in st(s),
    'sadd': lambda s, x: ('set', st(s) | {x}),
    'sunion': lambda s, t: ('set', st(s) | st(t)),
    'sinter': lambda s, t: ('set', st(s) & st(t)),
    'sdiff': lambda s, t: ('set', st(s) - st(t)),
    'SetEq': lambda s, t: st(s) == st(t),
    'set_of_seq': lambda s: ('set', frozenset(seq(s))),
    'elems': lambda s: mk_seq(sorted(st(s), key=repr)),
    'scard': lambda s: len(st(s)),
    'sconcat': f_sconcat, 'startswith': f_startswith,
    'str_of': lambda v: ('str', repr(v)),
    'contains_str': lambda a, b: a[0] == 'str' and b[0] == 'str' and b[1] in a[1],
}
CONST = {'none': NONE, 'seq_empty': S(), 'map_empty': M(), 'set_empty': St()}


def universe():
    a, b = I(0), I(1)
    vals = [NONE, a, b, B(True), ('str', 'p'),
            S(), S(a), S(b), S(a, b), S(b, a), S(a, a), S(S(a)), S(a, b, a),
            M(), M((a, b)), M((b, a)), M((a, a), (b, b)), M((b, b), (a, a)),
            St(), St(a), St(a, b)]
    return vals


INTS = list(range(-2, 5))


class Unknown(Exception):
    pass


def compile_expr(e, env_names):
    """z3 expression -> python function of an environment list (de Bruijn: index 0 = innermost bound variable)"""
    if z3.is_quantifier(e):
        n = e.num_vars()
        sorts = [e.var_sort(i) for i in range(n)]
        body = compile_expr(e.body(), None)
        doms = []
        for srt in sorts:
            if srt == z3.IntSort():
                doms.append(INTS)
            elif srt == z3.BoolSort():
                doms.append([False, True])
            else:
                doms.append(universe())
        is_forall = e.is_forall()

        def q(env, doms=doms, body=body, is_forall=is_forall, n=n):
            for combo in itertools.product(*doms):
                # variable i of the quantifier is de Bruijn index n-1-i
                r = body(list(reversed(combo)) + env)
                if is_forall and not r:
                    return False
                if not is_forall and r:
                    return True
            return is_forall
        return q
    if z3.is_var(e):
        k = z3.get_var_index(e)
        return lambda env, k=k: env[k]
    if z3.is_int_value(e):
        v = e.as_long()
        return lambda env, v=v: v
    if z3.is_true(e):
        return lambda env: True
    if z3.is_false(e):
        return lambda env: False
    if not z3.is_app(e):
        raise Unknown(str(e))
    d = e.decl()
    kind = d.kind()
    args = [compile_expr(c, None) for c in e.children()]
    K = z3
    if kind == K.Z3_OP_AND:
        return lambda env: all(a(env) for a in args)
    if kind == K.Z3_OP_OR:
        return lambda env: any(a(env) for a in args)
    if kind == K.Z3_OP_NOT:
        return lambda env: not args[0](env)
    if kind == K.Z3_OP_IMPLIES:
        return lambda env: (not args[0](env)) or args[1](env)
    if kind in (K.Z3_OP_EQ, K.Z3_OP_IFF):
        return lambda env: args[0](env) == args[1](env)
    if kind == K.Z3_OP_DISTINCT:
        return lambda env: len({repr(a(env)) for a in args}) == len(args)
    if kind == K.Z3_OP_ITE:
        return lambda env: args[1](env) if args[0](env) else args[2](env)
    if kind == K.Z3_OP_LE:
        return lambda env: args[0](env) <= args[1](env)
    if kind == K.Z3_OP_LT:
        return lambda env: args[0](env) < args[1](env)
    if kind == K.Z3_OP_GE:
        return lambda env: args[0](env) >= args[1](env)
    if kind == K.Z3_OP_GT:
        return lambda env: args[0](env) > args[1](env)
    if kind == K.Z3_OP_ADD:
        return lambda env: sum(a(env) for a in args)
    if kind == K.Z3_OP_SUB:
        return lambda env: args[0](env) - sum(a(env) for a in args[1:])
    if kind == K.Z3_OP_UMINUS:
        return lambda env: -args[0](env)
    if kind == K.Z3_OP_MUL:
        def mul(env):
            r = 1
            for a in args:
                r *= a(env)
            return r
        return mul
    if kind == K.Z3_OP_UNINTERPRETED:
        name = d.name()
        if not args:
            if name in CONST:
                v = CONST[name]
                return lambda env, v=v: v
            raise Unknown('constant ' + name)
        if name not in FUN:
            raise Unknown('function ' + name)
        f = FUN[name]
        return lambda env, f=f: f(*[a(env) for a in args])
    raise Unknown('operator %s' % d.name())


def check_axioms(names=None):
    """returns (checked, skipped, failures): failures = [(axiom name, message)]"""
    checked, skipped, failures = [], [], []
    for name, body in P.axioms():
        if names and name not in names:
            continue
        try:
            f = compile_expr(body, None)
            ok = f([])
        except Unknown as e:
            skipped.append((name, str(e)))
            continue
        except RecursionError:
            skipped.append((name, 'recursion'))
            continue
        checked.append(name)
        if not ok:
            failures.append((name, 'violated in the intended model on the small universe'))
    return checked, skipped, failures


if __name__ == '__main__':
    import sys
    import time
    t0 = time.time()
    c, s, f = check_axioms(set(sys.argv[1:]) or None)
    print('checked %d axioms, skipped %d, failures %d, %.1fs' % (len(c), len(s), len(f), time.time() - t0))
    for n, m in s:
        print('SKIPPED', n, m)
    for n, m in f:
        print('FAILED', n, m)
    sys.exit(1 if f else 0)
