"""Loops (cut by invariants) and try/except."""
import ast
import z3

from . import prelude as P
from . import ty as T
from .ty import INT, BOOL, NONE, ANY
from .symexec import SV, box, unbox, coerce, zsort, EngineError, Unsupported, simp_and, simp_not, LoopCtl, State
from .comps import iter_source, target_names
from .calls import MUTATORS


def root_name(e):
    while isinstance(e, (ast.Subscript, ast.Attribute)):
        e = e.value
    return e.id if isinstance(e, ast.Name) else None


def attr_written(e):
    """for a store target / mutated receiver: the attribute name if the outermost container is obj.attr"""
    attrs = []
    while isinstance(e, (ast.Subscript, ast.Attribute)):
        if isinstance(e, ast.Attribute):
            attrs.append(e.attr)
        e = e.value
    return attrs[-1] if attrs else None


def is_record_attr(fv, attr):
    d = fv.E.field_types.get(attr) or {}
    for t in d.values():
        ty = fv.E.parse_ty(t).strip_opt()
        if ty.is_obj and any(c in fv.E.sc.dict_records for c in ty.name.split('|')):
            return True
    return False


def record_keys_written(e):
    """x['k'] = .. / x['k'].m(..): literal string keys along the target (fields of dict_record classes)"""
    out = []
    while isinstance(e, (ast.Subscript, ast.Attribute)):
        if isinstance(e, ast.Subscript) and isinstance(e.slice, ast.Constant) and isinstance(e.slice.value, str):
            out.append(e.slice.value)
        e = e.value
    return out


def modified(fv, stmts):
    names, fields = set(), set()

    def tgt(t):
        if isinstance(t, ast.Name):
            names.add(t.id)
        elif isinstance(t, (ast.Tuple, ast.List)):
            for e in t.elts:
                tgt(e)
        elif isinstance(t, (ast.Subscript, ast.Attribute)):
            for k in record_keys_written(t):
                if k in fv.E.field_types:
                    fields.add(k)
            a = attr_written(t)
            if a is not None and is_record_attr(fv, a) and record_keys_written(t):
                a = None       # x.attr['key'] = v  where attr holds a dict_record object: only field 'key' is written
                if root_name(t) is None:
                    pass
            if a is not None:
                fields.add(a)
            else:
                r = root_name(t)
                if r:
                    names.add(r)

    for s in stmts:
        for n in ast.walk(s):
            if isinstance(n, ast.Assign):
                for t in n.targets:
                    tgt(t)
            elif isinstance(n, (ast.AugAssign, ast.AnnAssign)):
                tgt(n.target)
            elif isinstance(n, ast.For):
                tgt(n.target)
            elif isinstance(n, ast.Delete):
                for t in n.targets:
                    tgt(t)
            elif isinstance(n, ast.comprehension):
                pass
            elif isinstance(n, ast.Call):
                f = n.func
                if isinstance(f, ast.Attribute) and f.attr in MUTATORS:
                    tgt(f.value)
                # callee modifies clauses
                c = callee_contract(fv, n)
                if c is not None:
                    for m in c.modifies:
                        if m.startswith('.'):
                            fields.add(m[1:])      # '.attr' or '.Class.attr' (resolved in havoc)
                        else:
                            names.add(m)
                            gk = fv.global_key(m)
                            if gk:
                                names.add('glob:' + gk)
    return names, fields


def callee_contract(fv, call):
    from . import calls
    f = call.func
    try:
        if isinstance(f, ast.Name):
            for q in [fv.qual + '.' + f.id] + [e + '.' + f.id for e in calls.enclosing_quals(fv)]:
                c = fv.E.find_contract(q)
                if c:
                    return c
            q = calls.resolve_name(fv, f.id)
            return fv.E.find_contract(q) if q else None
        if isinstance(f, ast.Attribute):
            if isinstance(f.value, ast.Name) and fv.module and f.value.id in fv.module.imports:
                return fv.E.find_contract(fv.module.imports[f.value.id] + '.' + f.attr)
            # method: any contract with that method name (conservative union)
            out = None
            for q, c in fv.E.sc.contracts.items():
                if q.endswith('.' + f.attr) and c.modifies:
                    if out is None:
                        out = c
                    else:
                        import copy
                        out = copy.copy(out)
                        out.modifies = list(set(out.modifies) | set(c.modifies))
            return out
    except Exception:
        return None
    return None


def enter_loop(fv):
    if not hasattr(fv, '_loop_counters'):
        fv._loop_counters = [0]
        fv._loop_path = []
    k = fv._loop_counters[-1]
    fv._loop_counters[-1] += 1
    fv._loop_path.append(k)
    fv._loop_counters.append(0)
    return '.'.join(str(x) for x in fv._loop_path)


def leave_loop(fv):
    fv._loop_counters.pop()
    fv._loop_path.pop()


def loop_spec(fv, key):
    from .contracts import LoopSpec
    if fv.c and key in fv.c.loops:
        return fv.c.loops[key]
    return LoopSpec(key)


def run_hints(fv, hints, st):
    from .funcs import run_hint
    for h in hints:
        run_hint(fv, h, st)


def name_unsafe_locals(fv, st):
    """container / object locals whose current value is a conditional term (after an if-merge) get a name, so that the
    invariants and postconditions evaluated next can use them in quantifier triggers"""
    if fv.binders:
        return
    for n, sv in list(st.env.items()):
        if n.startswith('__') or n.startswith('glob:') or not hasattr(sv, 'term'):
            continue
        if z3.is_expr(sv.term) and sv.term.sort() == P.V and fv.pattern_unsafe(sv.term):
            st.env[n] = fv.pattern_safe(st, sv)


def check_invs(fv, spec, st, phase, node):
    name_unsafe_locals(fv, st)
    for name, e in spec.invariants:
        g = fv.truthy(fv.ev(e, st, True))
        fv.oblige(st, 'loop[%s]/inv[%s]/%s' % (spec.key, name, phase), g, node)
        fv.add_fact(st, g)      # assert-then-assume: later invariants may rely on earlier ones


def assume_invs(fv, spec, st):
    for name, e in spec.invariants:
        fv.add_fact(st, fv.truthy(fv.ev(e, st, True)))


def havoc(fv, st, names, fields):
    for n in sorted(names):
        if n in st.env:
            old = st.env[n]
            st.env[n] = fv.fresh_typed(st, n.replace(':', '_'), old.ty)
        elif n.startswith('glob:') and n[len('glob:'):] in fv.E.sc.globals:
            # a global the loop may modify but that was not touched before the loop: it still has to be havocked
            gty = fv.E.parse_ty(fv.E.sc.globals[n[len('glob:'):]])
            st.env[n] = fv.fresh_typed(st, n.replace(':', '_'), gty)
    if '*' in fields:
        fields = (set(fields) - {'*'}) | set(fv.E.field_types)
    for f in sorted(fields):
        from .symexec import Contract_stub
        allowed = fv.modifies_keys(Contract_stub(['.' + f])) if '.' in f else None
        for key, fty in fv.field_variants(f.split('.')[-1]):
            if allowed is not None and key not in allowed:
                continue
            f_attr = f.split('.')[-1]
            fv.heap_array(st, f_attr, fty)
            st.heap[key] = z3.Const('H_%s!%d' % (key, next(fv.E.counter)), z3.ArraySort(P.V, zsort(fty)))
            st.heap_version += 1


def ghost_assigned(spec):
    out = set()
    for h in spec.body_hints + spec.end_hints:
        if isinstance(h, ast.Call) and isinstance(h.func, ast.Name) and h.func.id == 'assign':
            out.add(h.args[0].value)
    return out


def exec_while(fv, s, st):
    key = enter_loop(fv)
    try:
        spec = loop_spec(fv, key)
        if s.orelse:
            fv.err(s, 'while-else')
        run_hints(fv, spec.entry_hints, st)
        check_invs(fv, spec, st, 'entry', s)
        names, fields = modified(fv, s.body)
        names |= set(spec.modifies) | ghost_assigned(spec)
        havoc(fv, st, names, fields)
        assume_invs(fv, spec, st)
        fv.oblige(st, 'loop[%s]/cover' % key, z3.BoolVal(False), s, kind='cover')
        head = st.copy()
        c = fv.truthy(fv.ev(s.test, st, False))
        body = st.copy(c)
        dec0 = None
        if spec.decreases is not None:
            dec0 = coerce(fv.ev(spec.decreases, body, True), INT).term
        ctl = LoopCtl()
        fv.loop_stack.append(ctl)
        run_hints(fv, spec.body_hints, body)
        fv.exec_block(s.body, body)
        fv.loop_stack.pop()
        fv.merge_into(body, [body] + ctl.continues)
        if not body.dead:
            run_hints(fv, spec.end_hints, body)
            check_invs(fv, spec, body, 'preserve', s)
            if dec0 is not None:
                dec1 = coerce(fv.ev(spec.decreases, body, True), INT).term
                fv.oblige(body, 'loop[%s]/decreases' % key, z3.And(dec0 >= 0, dec1 < dec0), s)
        st.pc = simp_and(st.pc, simp_not(c))
        fv.merge_into(st, [st] + ctl.breaks)
        run_hints(fv, spec.exit_hints, st)
    finally:
        leave_loop(fv)


def exec_for(fv, s, st):
    key = enter_loop(fv)
    try:
        spec = loop_spec(fv, key)
        if s.orelse:
            fv.err(s, 'for-else')
        sfx = key.replace('.', '_')
        iname = '_i' + sfx
        names, fields = modified(fv, s.body)
        names |= set(spec.modifies) | ghost_assigned(spec)
        src = iter_source(fv, s.target, s.iter, st, False)
        # the iterated value is fixed before the loop; record it as ghost _s<key> when it is a plain sequence
        if src.plain_seq is not None:
            st.env['_s' + sfx] = SV(src.plain_seq, T.Seq(src.ety))
        st.env['_n' + sfx] = SV(src.length, INT)
        st.env[iname] = SV(z3.IntVal(0), INT)
        tnames = target_names(s.target)
        run_hints(fv, spec.entry_hints, st)
        check_invs(fv, spec, st, 'entry', s)
        havoc(fv, st, (names - set(tnames)) | {iname}, fields)
        for t in tnames:
            st.env.pop(t, None) if t not in fv.old_state.env else None
        i = st.env[iname].term
        L = src.length
        fv.add_fact(st, z3.And(0 <= i, i <= L))
        assume_invs(fv, spec, st)
        fv.oblige(st, 'loop[%s]/cover' % key, z3.BoolVal(False), s, kind='cover')
        c = i < L
        body = st.copy(c)
        binds = src.bind(i)
        for n, sv in binds.items():
            body.env[n] = sv
            if zsort(sv.ty) == P.V:
                fv.add_fact(body, fv.typed_fact(sv.term, sv.ty))
        ctl = LoopCtl()
        fv.loop_stack.append(ctl)
        run_hints(fv, spec.body_hints, body)
        fv.exec_block(s.body, body)
        fv.loop_stack.pop()
        fv.merge_into(body, [body] + ctl.continues)
        if not body.dead:
            run_hints(fv, spec.end_hints, body)
            body.env[iname] = SV(i + 1, INT)
            check_invs(fv, spec, body, 'preserve', s)
        st.pc = simp_and(st.pc, simp_not(c))
        # loop variables keep an unspecified value after the loop
        for t in tnames:
            if t in binds and t not in st.env:
                st.env[t] = fv.E.fresh(t, binds[t].ty)
        fv.merge_into(st, [st] + ctl.breaks)
        run_hints(fv, spec.exit_hints, st)
    finally:
        leave_loop(fv)


SAFETY_EXC = {'key': 'KeyError', 'index': 'IndexError', 'none-deref': 'AttributeError', 'assert': 'AssertionError',
              'div-zero': 'ZeroDivisionError', 'unpack': 'ValueError', 'value': 'ValueError'}


def exec_try(fv, s, st):
    if s.finalbody or s.orelse:
        fv.err(s, 'try/finally or try/else')
    if not hasattr(fv, 'handlers'):
        fv.handlers = []
    groups = []
    for h in s.handlers:
        if h.type is None:
            names = {None}
        elif isinstance(h.type, ast.Tuple):
            names = {e.id for e in h.type.elts}
        else:
            names = {h.type.id if isinstance(h.type, ast.Name) else h.type.attr}
        groups.append((names, [], h))
    # innermost first when searching: push in reverse so that the first handler wins
    for g in reversed(groups):
        fv.handlers.append((g[0], g[1]))
    try:
        fv.exec_block(s.body, st)
    finally:
        for _ in groups:
            fv.handlers.pop()
    outs = [st]
    for names, caught, h in groups:
        if not caught:
            continue
        hs = State()
        fv.merge_into(hs, caught)
        if h.name:
            hs.env[h.name] = fv.E.fresh('exc', T.Abs('Exception'))
        fv.exec_block(h.body, hs)
        outs.append(hs)
    fv.merge_into(st, outs)
