/-
  /verif/lean/MaxPrefix.lean  (checked by `lean` in the thorough tier of C19)

  The contract of src/graph_utils.py `find_all_reachable` (contracts/graph_utils.py, ghost `MaxPrefixLemma`) uses one
  fact the SMT solver cannot derive, because it needs induction:

    in a finite list `ps` of sequences, every member x is, or is a proper prefix of, a member m that is a proper prefix
    of no member of `ps`.

  `find_longest_paths` returns exactly the members of `find_all_paths` that are a proper prefix of no member (proved by
  the VC generator); with this lemma every path -- hence every vertex on a path -- is covered by a maximal path, so the
  union over the maximal paths equals the union over all simple paths.
-/
import Mathlib.Data.List.Basic
import Mathlib.Tactic

universe u
variable {α : Type u}

/-- ghost `ProperPrefix` of contracts/graph_utils.py -/
def ProperPrefix (x p : List α) : Prop := x.length < p.length ∧ p.take x.length = x

theorem properPrefix_trans {x m p : List α} (h1 : ProperPrefix x m) (h2 : ProperPrefix m p) :
    ProperPrefix x p := by
  obtain ⟨l1, t1⟩ := h1
  obtain ⟨l2, t2⟩ := h2
  refine ⟨lt_trans l1 l2, ?_⟩
  have h : (p.take m.length).take x.length = p.take x.length := by
    rw [List.take_take]
    congr 1
    omega
  rw [← h, t2, t1]

/-- ghost axiom `max-extension` -/
theorem exists_maximal_extension (ps : List (List α)) :
    ∀ x ∈ ps, ∃ m ∈ ps, (m = x ∨ ProperPrefix x m) ∧ ¬ ∃ p ∈ ps, ProperPrefix m p := by
  obtain ⟨N, hN⟩ : ∃ N, ∀ p ∈ ps, p.length ≤ N :=
    ⟨(ps.map List.length).sum, fun p hp =>
      List.single_le_sum (by simp) _ (List.mem_map_of_mem hp)⟩
  intro x hx
  induction' h : N - x.length using Nat.strong_induction_on with k ih generalizing x
  by_cases hmax : ∃ p ∈ ps, ProperPrefix x p
  · obtain ⟨p, hp, hxp⟩ := hmax
    have hlt : N - p.length < k := by
      have := hN p hp
      have := hxp.1
      omega
    obtain ⟨m, hm, hor, hmaxm⟩ := ih (N - p.length) hlt p hp rfl
    refine ⟨m, hm, Or.inr ?_, hmaxm⟩
    rcases hor with rfl | h2
    · exact hxp
    · exact properPrefix_trans hxp h2
  · exact ⟨x, hx, Or.inl rfl, hmax⟩
