/-
  /verif/lean/SimplePath.lean  (checked by `lean` in the thorough tier of C19)

  The contract of `find_all_reachable` (contracts/graph_utils.py) says that the result is exactly the set of vertices that lie on a
  simple path starting at the given vertex.  The textbook definition of the all-reachable set is the reflexive-transitive closure
  of the edge relation.  This file proves that the two coincide, for an arbitrary edge relation E:

      ReflTransGen E a n  ↔  ∃ l b, WalkTo E a l b ∧ (a :: l).Nodup ∧ n ∈ a :: l

  where `WalkTo E a l b` says that a :: l is a walk along E that ends in b.  (Loop erasure: a walk that revisits its start is cut at
  the last visit.)  The solver cannot do this induction; the statement enters the contract as the lemma `ReachIsOnSimplePath`.
-/
import Mathlib.Logic.Relation
import Mathlib.Data.List.Basic
import Mathlib.Tactic

universe u
variable {V : Type u} (E : V → V → Prop)

/-- `WalkTo E a l b`: `a :: l` is a walk along `E` ending in `b` -/
inductive WalkTo : V → List V → V → Prop
  | nil (a : V) : WalkTo a [] a
  | cons {a c b : V} {l : List V} : E a c → WalkTo c l b → WalkTo a (c :: l) b

variable {E}

theorem WalkTo.end_mem {a b : V} {l : List V} (h : WalkTo E a l b) : b ∈ a :: l := by
  induction h with
  | nil a => simp
  | cons _ _ ih => exact List.mem_cons_of_mem _ ih

/-- every vertex on a walk from `a` is reachable from `a` -/
theorem WalkTo.reach_of_mem {a b : V} {l : List V} (h : WalkTo E a l b) :
    ∀ x ∈ a :: l, Relation.ReflTransGen E a x := by
  induction h with
  | nil a =>
    intro x hx
    simp at hx
    subst hx
    exact Relation.ReflTransGen.refl
  | cons hac _ ih =>
    intro x hx
    rcases List.mem_cons.mp hx with rfl | hx'
    · exact Relation.ReflTransGen.refl
    · exact Relation.ReflTransGen.head hac (ih x hx')

/-- a walk can be cut at any vertex it visits: the rest is a walk from that vertex to the same end -/
theorem WalkTo.suffix_from {a b : V} {l : List V} (h : WalkTo E a l b) :
    ∀ x ∈ a :: l, ∃ pre q, a :: l = pre ++ x :: q ∧ WalkTo E x q b := by
  induction h with
  | nil a =>
    intro x hx
    simp at hx
    subst hx
    exact ⟨[], [], rfl, WalkTo.nil _⟩
  | @cons a c b l hac hp ih =>
    intro x hx
    rcases List.mem_cons.mp hx with rfl | hx'
    · exact ⟨[], c :: l, rfl, WalkTo.cons hac hp⟩
    · obtain ⟨pre, q, hpq, hq⟩ := ih x hx'
      exact ⟨a :: pre, q, by rw [hpq]; rfl, hq⟩

/-- loop erasure: reachability is witnessed by a simple path -/
theorem exists_simple_path [DecidableEq V] {a b : V} (h : Relation.ReflTransGen E a b) :
    ∃ l, WalkTo E a l b ∧ (a :: l).Nodup := by
  induction h using Relation.ReflTransGen.head_induction_on with
  | refl => exact ⟨[], WalkTo.nil _, by simp⟩
  | @head a' c' hac _ ih =>
    obtain ⟨l, hp, hnd⟩ := ih
    by_cases ha : a' ∈ c' :: l
    · obtain ⟨pre, q, hpq, hq⟩ := hp.suffix_from a' ha
      refine ⟨q, hq, ?_⟩
      have : List.Sublist (a' :: q) (c' :: l) := by
        rw [hpq]
        exact List.sublist_append_right _ _
      exact hnd.sublist this
    · exact ⟨c' :: l, WalkTo.cons hac hp, List.nodup_cons.mpr ⟨ha, hnd⟩⟩

/-- ghost lemma `ReachIsOnSimplePath` -/
theorem reach_iff_on_simple_path [DecidableEq V] (a n : V) :
    Relation.ReflTransGen E a n ↔ ∃ l b, WalkTo E a l b ∧ (a :: l).Nodup ∧ n ∈ a :: l := by
  constructor
  · intro h
    obtain ⟨l, hp, hnd⟩ := exists_simple_path h
    exact ⟨l, n, hp, hnd, hp.end_mem⟩
  · rintro ⟨l, b, hp, _, hn⟩
    exact hp.reach_of_mem n hn
