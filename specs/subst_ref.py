"""Bounded stand-in for the structural clauses of C07: an independent reference substitution on normalized terms,
compared with TypeConstructor.new / substitute_type on a family of small class tables (nested type arguments, wildcard
bounds, bounds of other type parameters, chains of generic superclasses)."""
import itertools
import pickle


def build():
    from src.ir import types as tp, kotlin_types as kt
    S, I, A_ = kt.String, kt.Integer, kt.Any
    cases = []

    def tv(name, bound=None, variance=None):
        return tp.TypeParameter(name, variance, bound)

    # class Base<A>; class Box<E>; class Foo<X> : Base<X>; class Bar<T> : Foo<Box<out Box<T>>>
    A, E, X, T = tv('A'), tv('E'), tv('X'), tv('T')
    base = tp.TypeConstructor('Base', [A])
    box = tp.TypeConstructor('Box', [E])
    foo = tp.TypeConstructor('Foo', [X], [base.new([X])])
    for var in (tp.Covariant, tp.Contravariant):
        nested = box.new([tp.WildCardType(box.new([T]), var)])
        bar = tp.TypeConstructor('Bar', [T], [foo.new([nested])])
        cases.append(('nested-wildcard-%s' % var.value, [base, box, foo, bar], bar, [T]))
    # class P<K, V : Box<K>> : Base<V>
    K = tv('K')
    V = tv('V', box.new([K]))
    p2 = tp.TypeConstructor('P', [K, V], [base.new([V])])
    cases.append(('bound-mentions-other-param', [base, box, p2], p2, [K, V]))
    # chain: C3<T3> : C2<Box<T3>>, C2<T2> : C1<T2, Box<T2>>, C1<A1, B1>
    A1, B1, T2, T3 = tv('A1'), tv('B1'), tv('T2'), tv('T3')
    c1 = tp.TypeConstructor('C1', [A1, B1])
    c2 = tp.TypeConstructor('C2', [T2], [c1.new([T2, box.new([T2])])])
    c3 = tp.TypeConstructor('C3', [T3], [c2.new([box.new([T3])])])
    cases.append(('chain', [box, c1, c2, c3], c3, [T3]))
    # wildcard of wildcard
    W = tv('W')
    ww = tp.TypeConstructor('WW', [W], [box.new([tp.WildCardType(tp.WildCardType(W, tp.Covariant), tp.Covariant)])])
    cases.append(('wildcard-of-wildcard', [box, ww], ww, [W]))
    # diamond: X<T> : A<T>, B<T>;  A<T> : K<T>, M<T>;  B<T> : K<T>   (K is reached twice, M only through A, after K)
    Kt, Mt, At, Bt, Xt = tv('Kt'), tv('Mt'), tv('At'), tv('Bt'), tv('Xt')
    kk = tp.TypeConstructor('K', [Kt])
    mm = tp.TypeConstructor('M', [Mt])
    bb = tp.TypeConstructor('B', [Bt], [kk.new([Bt])])
    aa = tp.TypeConstructor('A', [At], [kk.new([At]), mm.new([At])])
    xx = tp.TypeConstructor('X', [Xt], [aa.new([Xt]), bb.new([Xt])])
    cases.append(('diamond', [kk, mm, aa, bb, xx], xx, [Xt]))
    grounds = [S, I, box.new([S]), box.new([tp.WildCardType(I, tp.Covariant)]),
               tp.WildCardType(), box.new([tp.WildCardType()])]          # star projections contain no type variable
    flagged = box.new([I])
    flagged.can_infer_type_args = True        # as TypeErasure marks the type of `new Box<>(..)`: not part of type identity
    grounds.append(flagged)
    return dict(tp=tp, kt=kt, cases=cases, grounds=grounds)


def norm(tp, t):
    """structure of a type WITHOUT its supertypes: nested tuples"""
    if isinstance(t, tp.TypeParameter):
        return ('V', t.name, t.variance.value, norm(tp, t.bound) if t.bound is not None else None)
    if isinstance(t, tp.WildCardType):
        return ('W', t.variance.value, norm(tp, t.bound) if t.bound is not None else None)
    if isinstance(t, tp.ParameterizedType):
        return ('P', t.name, tuple(norm(tp, a) for a in t.type_args))
    if isinstance(t, tp.TypeConstructor):
        return ('C', t.name, tuple(norm(tp, p) for p in t.type_parameters))
    return ('G', type(t).__name__, getattr(t, 'name', None))


def actual_supers(tp, t):
    """the supertypes the object really carries, transitively"""
    return tuple((norm(tp, s), actual_supers(tp, s)) for s in getattr(t, 'supertypes', []))


def expected_supers(tp, table, n):
    """declared supertypes of the class of n with its parameters replaced by n's arguments, transitively"""
    if n[0] != 'P':
        return ()
    con = table[n[1]]
    m = {p.name: a for p, a in zip(con.type_parameters, n[2])}
    out = []
    for d in con.supertypes:
        e = rsubst(norm(tp, d), m)
        out.append((e, expected_supers(tp, table, e)))
    return tuple(out)


def rsubst(n, m):
    """reference substitution on normalized terms (m: variable name -> normalized type)"""
    if n is None:
        return None
    k = n[0]
    if k == 'V':
        if n[1] in m:
            return m[n[1]]
        return ('V', n[1], n[2], rsubst(n[3], m))
    if k == 'W':
        return ('W', n[1], rsubst(n[2], m))
    if k == 'P':
        return ('P', n[1], tuple(rsubst(a, m) for a in n[2]))
    return n


def has_tv(n):
    if n is None:
        return False
    if n[0] == 'V':
        return True
    if n[0] == 'W':
        return has_tv(n[2])
    if n[0] == 'P':
        return any(has_tv(a) for a in n[2])
    return False


def supers_have_tv(sup):
    return any(has_tv(n) or supers_have_tv(rest) for n, rest in sup)


def snapshot(objs):
    return pickle.dumps(objs)


def run(tier, seed, stop_first=False):
    u = build()
    tp, kt = u['tp'], u['kt']
    evals = 0
    distinct = set()
    samples = []
    violations = []

    def report(kind, **kw):
        if not any(v['check'] == 'bounded[%s]' % kind for v in violations):
            violations.append(dict(check='bounded[%s]' % kind, function='src.ir.types.TypeConstructor.new', **kw))

    for ci, (name, table, con, params) in enumerate(u['cases']):
        for ai, args in enumerate(itertools.product(u['grounds'], repeat=len(params))):
            args = list(args)
            # bounded parameters: keep only arguments that satisfy the shape of the bound (V : Box<K>)
            before = snapshot((table, args))
            evals += 1
            try:
                inst = con.new(args)
            except Exception as e:
                report('exception', case=ci, args=ai, what='%s: %s' % (type(e).__name__, e))
                continue
            distinct.add((ci, ai))
            tbl = {c.name: c for c in table}
            got = norm(tp, inst)
            exp_sup = expected_supers(tp, tbl, got)
            act_sup = actual_supers(tp, inst)
            if len(samples) < 3:
                samples.append('%s.new(%s) -> %s' % (con.name, ', '.join(map(str, args)), inst))
            if got[2] != tuple(norm(tp, a) for a in args):
                report('type-args', case=ci, args=ai, expected=repr([str(a) for a in args]), actual=str(inst))
            if act_sup != exp_sup:
                report('supertypes-substituted', case=ci, args=ai, expected=repr(exp_sup)[:500], actual=repr(act_sup)[:500])
            if has_tv(got) or supers_have_tv(act_sup):
                report('ground-result-has-type-variables', case=ci, args=ai, actual=repr((got, act_sup))[:500])
            # "transitively up the hierarchy": the closure the IR computes (get_supertypes) contains a type equal to every
            # member of the closure of the (substituted) supertypes lists
            evals += 1
            closure, todo = [], list(inst.supertypes)
            while todo:
                sup_t = todo.pop()
                if not any(sup_t is c for c in closure):
                    closure.append(sup_t)
                    todo.extend(getattr(sup_t, 'supertypes', []))
            have = list(inst.get_supertypes())
            missing = [str(c) for c in closure if not any(norm(tp, h) == norm(tp, c) for h in have)]
            if missing:
                report('supertype-closure-complete', case=ci, args=ai, expected='get_supertypes() contains ' + ', '.join(missing[:3]),
                       actual=repr([str(h) for h in have])[:400])
            if snapshot((table, args)) != before:
                report('mutates-nothing', case=ci, args=ai, what='class table or arguments changed by instantiation')
            # substitution with the empty map returns an equal type; substituting on the instance changes nothing
            evals += 1
            e2 = tp.substitute_type(inst, {})
            if not (e2 == inst) or norm(tp, e2) != got or actual_supers(tp, e2) != act_sup:
                report('empty-map-equal', case=ci, args=ai, expected=repr((got, act_sup))[:300],
                       actual=repr((norm(tp, e2), actual_supers(tp, e2)))[:300])
            if snapshot((table, args)) != before:
                report('mutates-nothing', case=ci, args=ai, what='class table or arguments changed by substitute_type')
            if stop_first and violations:
                return dict(violations=violations)
        # partial substitutions (some parameters unmapped): must not touch the definition or the argument
        for sup in con.supertypes:
            for p in params:
                for g in u['grounds'][:2]:
                    evals += 1
                    before = snapshot((table, sup))
                    tp.substitute_type(sup, {p: g})
                    if snapshot((table, sup)) != before:
                        report('mutates-nothing', case=ci, args=0,
                               what='substitute_type(%s, {%s: %s}) changed the class table or its argument' % (sup, p.name, g))
        # open instantiation then ground substitution: Con<params> [params := args]
        open_inst = con.new(list(params))
        for ai, args in enumerate(itertools.product(u['grounds'][:2], repeat=len(params))):
            evals += 1
            before = snapshot((table, open_inst))
            r = tp.substitute_type(open_inst, dict(zip(params, args)))
            m = {p.name: norm(tp, a) for p, a in zip(params, args)}
            tbl = {c.name: c for c in table}
            exp = rsubst(norm(tp, open_inst), m)
            got = norm(tp, r)
            if got != exp or actual_supers(tp, r) != expected_supers(tp, tbl, exp):
                report('substitute-open-instance', case=ci, args=ai,
                       expected=repr((exp, expected_supers(tp, tbl, exp)))[:500], actual=repr((got, actual_supers(tp, r)))[:500])
            if has_tv(got) or supers_have_tv(actual_supers(tp, r)):
                report('ground-result-has-type-variables', case=ci, args=ai, actual=repr(got)[:400])
            if snapshot((table, open_inst)) != before:
                report('mutates-nothing', case=ci, args=ai, what='substitute_type changed its argument or the class table')
            e3 = tp.substitute_type(open_inst, {})
            if not (e3 == open_inst):
                report('empty-map-equal', case=ci, args=ai, expected=str(open_inst), actual=str(e3))
    return dict(evaluations=evals, distinct_nontrivial=len(distinct),
                rule='%d class tables (nested wildcard bounds, a bound that mentions another parameter, a 3-level generic '
                     'chain, wildcard of wildcard, a diamond) x every tuple of 7 ground argument types (incl. star projections and a type flagged can_infer_type_args): TypeConstructor.new and '
                     'substitute_type compared with a reference substitution on normalized terms (type arguments, supertypes '
                     'transitively, no remaining type variable, empty map gives an equal type) and pickle snapshots of the '
                     'class table and arguments before/after. Non-trivial: instantiation succeeded; distinct by (table, args)'
                     % len(u['cases']),
                samples=samples, exhaustive=True, violations=violations)


def replay(fi):
    r = run('quick', 0)
    for v in r.get('violations', []):
        if v['check'] == fi['check']:
            print('%s still fails: %s' % (v['check'], {k: v[k] for k in v if k not in ('check', 'function')}))
            return False
    return True
