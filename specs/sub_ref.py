"""Executable declarative subtyping relation (from the Kotlin/Java containment rules) on a small universe of ground class
types, compared with the real is_subtype (C06 second sentence: exactness, reflexivity, transitivity, bottom).
Derived from design_experiments/sub_ref.py."""
import itertools
import random as _r
from functools import lru_cache


def build():
    _r.seed(1)
    from src.ir import types as tp, kotlin_types as kt
    Any_ = kt.Any
    # class table
    A = tp.SimpleClassifier("A", [Any_])
    B = tp.SimpleClassifier("B", [A])
    C = tp.SimpleClassifier("C", [B])
    D = tp.SimpleClassifier("D", [A])
    T = tp.TypeParameter("T"); To = tp.TypeParameter("T", tp.Covariant); Ti = tp.TypeParameter("T", tp.Contravariant)
    G = tp.TypeConstructor("G", [T], [Any_])
    Gco = tp.TypeConstructor("Gco", [To], [Any_])
    Gin = tp.TypeConstructor("Gin", [Ti], [Any_])
    T2 = tp.TypeParameter("T")
    H = tp.TypeConstructor("H", [T2], [G.new([T2])])      # H<T> : G<T>
    T3 = tp.TypeParameter("T")
    HB = tp.SimpleClassifier("HB", [G.new([B])])            # HB : G<B>
    T4 = tp.TypeParameter("X", tp.Covariant)
    Hco = tp.TypeConstructor("Hco", [T4], [Gco.new([T4])])  # Hco<out X> : Gco<X>
    T5 = tp.TypeParameter("K")
    Kco = tp.TypeConstructor("Kco", [T5], [Hco.new([T5])])  # Kco<K> : Hco<K> : Gco<K>  (three levels, middle one generic)
    simple = [A,B,C,D,HB]
    cons = [G,Gco,Gin,H,Hco,Kco]
    def level(base):
        out=list(base)
        for c in cons:
            for a in base:
                out.append(c.new([a]))
                out.append(c.new([tp.WildCardType(a, tp.Covariant)]))
                out.append(c.new([tp.WildCardType(a, tp.Contravariant)]))
        return out
    L1 = level(simple)
    L2 = level([A,B,C] + [G.new([B]), Gco.new([B]), Gin.new([B]), G.new([tp.WildCardType(B,tp.Covariant)]), H.new([B])])
    universe = L1 + [t for t in L2 if t not in L1]

    # reference relation
    decl = {'A':([],[None]), }
    def class_supers(t):
        """declared supertypes of t with substitution, computed independently"""
        if isinstance(t, tp.ParameterizedType):
            con = {c.name:c for c in cons}[t.name]
            m = {p.name:a for p,a in zip(con.type_parameters, t.type_args)}
            return [subst(s,m) for s in con.supertypes]
        if isinstance(t, tp.SimpleClassifier):
            return list(t.supertypes)
        return []
    def subst(t,m):
        if isinstance(t, tp.TypeParameter): return m.get(t.name,t)
        if isinstance(t, tp.ParameterizedType):
            con = {c.name:c for c in cons}[t.name]
            return ('P', t.name, tuple(subst(a,m) for a in t.type_args))
        if isinstance(t, tp.WildCardType): return ('W', t.variance.value, subst(t.bound,m))
        return t
    def norm(t):
        if isinstance(t, tuple):
            if t[0]=='P': return ('P',t[1],tuple(norm(a) for a in t[2]))
            if t[0]=='W': return ('W',t[1],norm(t[2]))
        if isinstance(t, tp.ParameterizedType): return ('P', t.name, tuple(norm(a) for a in t.type_args))
        if isinstance(t, tp.WildCardType): return ('W', t.variance.value, norm(t.bound))
        if isinstance(t, tp.SimpleClassifier): return ('S', t.name)
        if isinstance(t, tp.Builtin): return ('B', type(t).__name__)
        raise Exception(t)
    CONS = {c.name:c for c in cons}
    SIMPLE = {c.name:c for c in simple}
    def supers(n):
        if n[0]=='S':
            return [norm(s) for s in SIMPLE[n[1]].supertypes]
        if n[0]=='P':
            con=CONS[n[1]]; m={p.name:a for p,a in zip(con.type_parameters,n[2])}
            return [nsubst(norm_tv(s),m) for s in con.supertypes]
        return []
    def norm_tv(t):
        if isinstance(t, tp.TypeParameter): return ('V', t.name)
        if isinstance(t, tp.ParameterizedType): return ('P', t.name, tuple(norm_tv(a) for a in t.type_args))
        if isinstance(t, tp.WildCardType): return ('W', t.variance.value, norm_tv(t.bound))
        return norm(t)
    def nsubst(n,m):
        if n[0]=='V': return m[n[1]]
        if n[0]=='P':
            args=[]
            for a in n[2]:
                r=nsubst(a,m)
                args.append(r)
            return ('P',n[1],tuple(args))
        if n[0]=='W':
            r=nsubst(n[2],m)
            if r[0]=='W':  # projection of projection: keep inner if same variance
                return r
            return ('W',n[1],r)
        return n
    from functools import lru_cache
    @lru_cache(None)
    def sub(s,t):
        if s==t: return True
        if t==('B','AnyType'): return True
        for u in supers(s):
            if sub(u,t): return True
        if s[0]=='P' and t[0]=='P' and s[1]==t[1]:
            con=CONS[s[1]]
            rs=[contained(a,b,p.variance.value) for a,b,p in zip(s[2],t[2],con.type_parameters)]
            if any(r is None for r in rs): raise TypeError('ood')
            return all(rs)
        return False
    def contained(a,b,v):
        # v: 0 inv 1 cov 2 contra ; W variance 1=out 2=in
        def proj(x):
            if x[0]=='W': return (x[1], x[2])
            return (v, x)   # declared variance acts as projection; 0 = exact
        va,xa = proj(a); vb,xb = proj(b)
        if a[0]=='W' and v!=0 and a[1]!=v: return None  # conflicting projection: outside domain
        if b[0]=='W' and v!=0 and b[1]!=v: return None
        if vb==0: return va==0 and xa==xb
        if vb==1: return va in (0,1) and sub(xa,xb)
        if vb==2: return va in (0,2) and sub(xb,xa)

    # bare generic classes (TypeConstructor) against their declared supertypes: the constructor stands for all of its
    # instantiations, so it is below a declared supertype U only if none of its own type parameters occurs in U
    def occurs(v, t):
        if isinstance(t, tp.WildCardType):
            return t.bound is not None and (t.bound == v or occurs(v, t.bound))
        if isinstance(t, tp.ParameterizedType):
            return any(a == v or occurs(v, a) for a in t.type_args)
        return False
    out, inn = (lambda x: tp.WildCardType(x, tp.Covariant)), (lambda x: tp.WildCardType(x, tp.Contravariant))
    shapes = [
        ('plain', lambda X: G.new([X])), ('out', lambda X: G.new([out(X)])), ('in', lambda X: G.new([inn(X)])),
        ('nested', lambda X: G.new([G.new([X])])), ('nested-out', lambda X: G.new([G.new([out(X)])])),
        ('out-nested', lambda X: G.new([out(G.new([X]))])), ('in-nested-out', lambda X: G.new([inn(G.new([out(X)]))])),
        ('nested2-in', lambda X: G.new([G.new([G.new([inn(X)])])])), ('ground', lambda X: G.new([B])),
        ('ground-out', lambda X: G.new([out(B)])), ('ground-nested', lambda X: G.new([G.new([out(C)])])),
        ('star', lambda X: G.new([tp.WildCardType()])),
    ]
    con_cases = []
    for nm, mk in shapes:
        X = tp.TypeParameter("X")
        sup = mk(X)
        con = tp.TypeConstructor("S_" + nm.replace('-', '_'), [X], [sup])
        con_cases.append((nm, con, sup, not occurs(X, sup)))
        Y1, Y2 = tp.TypeParameter("Y1"), tp.TypeParameter("Y2")
        sup2 = mk(Y2)
        con2 = tp.TypeConstructor("S2_" + nm.replace('-', '_'), [Y1, Y2], [sup2])
        con_cases.append((nm + '/second-parameter', con2, sup2, not occurs(Y2, sup2)))
    return dict(universe=universe, norm=norm, sub=sub, tp=tp, kt=kt, simple=simple, cons=cons, con_cases=con_cases, supers=supers)


def run(tier, seed, stop_first=False):
    u = build()
    universe, norm, sub, tp, kt = u['universe'], u['norm'], u['sub'], u['tp'], u['kt']
    evals = 0
    nontrivial = set()
    violations = []
    samples = []

    def report(kind, **kw):
        if not any(v['check'] == 'bounded[%s]' % kind for v in violations):
            violations.append(dict(check='bounded[%s]' % kind, function='src.ir.types.is_subtype', **kw))
    for i, s in enumerate(universe):
        for j, t in enumerate(universe):
            ns, nt = norm(s), norm(t)
            try:
                ref = sub(ns, nt)
            except TypeError:
                ref = None
            real = s.is_subtype(t)
            evals += 1
            if ref is None:
                continue
            if ref:
                nontrivial.add((i, j))
            if len(samples) < 3 and ref and i != j and ns[0] == 'P':
                samples.append('%s <: %s' % (s, t))
            if bool(ref) != bool(real):
                report('exact', i=i, j=j, s=str(s), t=str(t), real=bool(real), declarative=bool(ref))
                if stop_first:
                    return dict(violations=violations)
        if not s.is_subtype(s):
            report('reflexive', i=i, j=i, s=str(s), t=str(s), real=False, declarative=True)
    # transitivity on all triples of the first-level universe (ground, in-domain by construction of `sub`)
    CONS = {c.name: c for c in u['cons']}

    def wf(n):
        if n[0] == 'P':
            for a, p in zip(n[2], CONS[n[1]].type_parameters):
                if a[0] == 'W' and p.variance.value != 0 and a[1] != p.variance.value:
                    return False        # projection conflicting with the declared variance: ill-formed type
                if not wf(a):
                    return False
        if n[0] == 'W':
            return wf(n[2])
        return True
    def wf_deep(n, depth=0):
        # a type whose (substituted) declared supertypes are ill-formed is outside the fragment too: Kco<in C> with
        # class Kco<K> : Hco<K>, Hco<out X> has the supertype Hco<in C>
        return wf(n) and (depth > 6 or all(wf_deep(x, depth + 1) for x in u['supers'](n)))
    idx = [k for k, x in enumerate(universe) if wf_deep(norm(x))][:90 if tier == 'quick' else len(universe)]
    L = [universe[k] for k in idx]
    rel = {(a, b) for a in range(len(L)) for b in range(len(L)) if L[a].is_subtype(L[b])}
    succ = {}
    for a, b in rel:
        succ.setdefault(a, []).append(b)
    for a, b in rel:
        for c in succ.get(b, []):
            evals += 1
            if (a, c) not in rel:
                # only a violation inside the domain of the declarative relation
                try:
                    sub(norm(L[a]), norm(L[c]))
                except TypeError:
                    continue
                report('transitive', i=idx[a], j=idx[c], s=str(L[a]), t=str(L[c]), via=str(L[b]), real=False, declarative=True)
    # bare generic classes against their declared supertypes
    for ci, (nm, con, sup, expected) in enumerate(u['con_cases']):
        evals += 1
        real = bool(con.is_subtype(sup))
        if expected:
            nontrivial.add(('con', ci))
        if real != expected:
            report('constructor:' + nm.split('/')[0], i=-2, j=ci, s=str(con), t=str(sup), real=real, declarative=expected)
    # the judgement reads the class hierarchy as it is NOW: a hierarchy edit behind a generic supertype (the way
    # TypeUpdater re-parents classes in place while a program is being generated) must be seen by the next query
    evals += 1
    hd = tp.SimpleClassifier('HD', [kt.Any])
    he = tp.SimpleClassifier('HE', [kt.Any])
    hc = tp.SimpleClassifier('HC', [hd])
    ht = tp.TypeParameter('T')
    hfoo = tp.TypeConstructor('HFoo', [ht], [hc])
    ha = tp.SimpleClassifier('HA', [hfoo.new([kt.Integer])])
    first = bool(ha.is_subtype(hd))
    # (an instantiation holds its own copy of the declared supertypes: the edit is made on the object reachable from HA)
    reach_c = ha.supertypes[0].supertypes[0]
    reach_c.supertypes[:] = [he]            # class HC : HE  (was: HC : HD)
    after_d, after_e = bool(ha.is_subtype(hd)), bool(ha.is_subtype(he))
    if not first or after_d or not after_e:
        report('hierarchy-change', i=-3, j=0, s='HA : HFoo<Int>, HFoo<T> : HC, HC : HD -> HC : HE', t='HD / HE',
               real=(first, after_d, after_e), declarative=(True, False, True))
    # the built-in (non-generic) types of the four language modules: the answer coincides with reachability over the
    # declared supertypes (the statement's fragment includes built-ins), bottom below everything
    for lang, a, b, real, ref in builtin_pairs():
        evals += 1
        if ref:
            nontrivial.add(('builtin', lang, a, b))
        if real != ref:
            report('builtin-exact:' + lang, i=-4, j=0, lang=lang, s=a, t=b, real=real, declarative=ref)
    # bottom
    for nothing in (kt.Nothing, tp.Nothing):
        for j, t in enumerate(universe):
            evals += 1
            if not nothing.is_subtype(t):
                report('bottom', i=-1, j=j, s=str(nothing), t=str(t), real=False, declarative=True)
    return dict(evaluations=evals, distinct_nontrivial=len(nontrivial),
                rule='all ordered pairs of a %d-type universe (5 simple classes, 6 generic classes with all declared variances incl. a three-level generic chain, '
                     'depth-2 instantiations with out/in projections) compared with the executable least fixpoint of the '
                     'declarative rules; reflexivity on every type; transitivity on all related triples; bottom below every '
                     'type; 24 bare generic classes against their declared supertype (own type parameter plain / projected / nested / absent); all pairs of non-generic built-in types of the four language modules against reachability over their declared supertypes. '
                     'Non-trivial: distinct pairs related by the declarative relation' % len(universe),
                samples=samples, exhaustive=True, violations=violations)


def builtin_pairs():
    """(language, S, T, real answer, declared reachability) for all pairs of non-generic built-in types of a language module"""
    import importlib
    import src.ir.types as tp
    out = []
    for lang in ('kotlin', 'java', 'groovy', 'scala'):
        mod = importlib.import_module('src.ir.%s_types' % lang)
        objs = {}
        for nm in sorted(dir(mod)):
            v = getattr(mod, nm)
            if isinstance(v, tp.Builtin) and not isinstance(v, (tp.TypeConstructor, tp.ParameterizedType)) \
                    and not nm.startswith('_'):
                objs[nm] = v
        def reach(a, b):
            seen, todo = [], [a]
            while todo:
                x = todo.pop()
                if x.__class__ is b.__class__:
                    return True
                if any(x.__class__ is y.__class__ for y in seen):
                    continue
                seen.append(x)
                todo.extend(getattr(x, 'supertypes', []) or [])
            return False
        for an, a in objs.items():
            for bn, b in objs.items():
                if 'Nothing' in a.__class__.__name__:
                    ref = True
                else:
                    ref = reach(a, b)
                try:
                    real = bool(a.is_subtype(b))
                except Exception as e:          # an exception is not an answer
                    real = 'raises %s' % type(e).__name__
                out.append((lang, an, bn, real, ref))
    return out


def replay(fi):
    u = build()
    universe, norm, sub, tp, kt = u['universe'], u['norm'], u['sub'], u['tp'], u['kt']
    if fi['i'] == -4:
        bad = [(l, a, b, r, d) for l, a, b, r, d in builtin_pairs() if l == fi['lang'] and a == fi['s'] and b == fi['t']]
        for l, a, b, r, d in bad:
            print('%s built-ins: %s <: %s : real=%s declared reachability=%s' % (l, a, b, r, d))
        return all(r == d for _, _, _, r, d in bad)
    if fi['i'] == -3:
        r = run('quick', 0)
        bad = [v for v in r.get('violations', []) if v['check'] == fi['check']]
        for v in bad:
            print('%s: real %r, declarative %r' % (v['check'], v['real'], v['declarative']))
        return not bad
    if fi['i'] == -2:
        nm, con, sup, expected = u['con_cases'][fi['j']]
        real = bool(con.is_subtype(sup))
        print('%s (bare constructor) <: %s : real=%s declarative=%s' % (con, sup, real, expected))
        return real == expected
    s = universe[fi['i']] if fi['i'] >= 0 else kt.Nothing
    t = universe[fi['j']]
    real = bool(s.is_subtype(t))
    print('%s <: %s : real=%s declarative=%s' % (s, t, real, fi.get('declarative')))
    return real == bool(fi.get('declarative'))
