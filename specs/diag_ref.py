"""Executable reference + bounded driver for C14 (compiler diagnostics are attributed to the right programs).

Written FROM THE PROPERTY STATEMENT, not from the code under verification:

  "For each supported compiler, given the compiler's output for a batch, the analysis returns exactly the set of
   source files for which the compiler printed an error diagnostic, each with its message(s): warnings, notes,
   summaries and quoted source lines add no file and no error is dropped or moved to another file.  Messages matching
   a user-supplied filter pattern are disregarded, and output carrying a compiler-internal stack trace is classified
   as a crash rather than as diagnostics."

The oracle is a *record list*: a batch is a list of diagnostic records (file, line, column, severity, message lines,
quoted source line) plus a summary, launcher noise and, possibly, a stack trace.  `render` prints the batch the way
the compiler prints it (javac: validated against the installed javac by a strict round-trip parser; kotlinc /
groovyc / scalac: the formats of their plain-text message renderers, an assumption of this harness since those
compilers are not installed).  `expected` reads the answer off the record list; nothing in it looks at the text.
The real `analyze_compiler_output` is run on the text with a fresh compiler object per batch (as check_oracle does)
and looked up by the exact path the driver would look up (`program in failed`, `failed[program]`).

Check names: bounded[<lang>:<clause>{:<input-feature>}*] (the generating family is a field of the violation).  <input-feature> tags are predicates on the
*input* (never on the result), see `features`; they keep classes of inputs apart so that one failing class never
hides another one behind the same name.
"""
import collections
import concurrent.futures
import hashlib
import itertools
import json
import os
import random
import re
import shutil
import subprocess
import sys
import tempfile
import time

LANGS = ('java', 'kotlin', 'groovy', 'scala')
INFO = {
    'java': dict(mod='src.compilers.java', cls='JavaCompiler', fname='Main.java'),
    'kotlin': dict(mod='src.compilers.kotlin', cls='KotlinCompiler', fname='program.kt'),
    'groovy': dict(mod='src.compilers.groovy', cls='GroovyCompiler', fname='Main.groovy'),
    'scala': dict(mod='src.compilers.scala', cls='ScalaCompiler', fname='program.scala'),
}
QUAL = {k: v['mod'] + '.' + v['cls'] + '.analyze_compiler_output' for k, v in INFO.items()}

REAL = {}          # lang -> real compiler class (bound by load_real / bind)
REPO_USED = [None]


def load_real(repo=None):
    """import the real compiler classes from `repo` (purging earlier src.* imports first)"""
    repo = repo or os.environ.get('HEPH_REPO', '/repo')
    random.seed(0)      # src.utils samples its word pool with the global RNG at import time
    for m in [k for k in sys.modules if k in ('src', 'hephaestus') or k.startswith('src.')]:
        del sys.modules[m]
    for p in [p for p in sys.path if p != repo and os.path.isfile(os.path.join(p, 'src', 'compilers', 'base.py'))]:
        sys.path.remove(p)
    if repo in sys.path:
        sys.path.remove(repo)
    sys.path.insert(0, repo)
    import importlib
    mods = {}
    for lang, inf in INFO.items():
        mods[lang] = getattr(importlib.import_module(inf['mod']), inf['cls'])
    bind(mods, repo)
    return mods


def bind(classes, repo=None):
    REAL.clear()
    REAL.update(classes)
    REPO_USED[0] = repo or os.environ.get('HEPH_REPO', '/repo')


# ---------------------------------------------------------------------------------------------------------------
# names the tool can generate

TMP_ALPHABET = 'abcdefghijklmnopqrstuvwxyz0123456789_'     # tempfile._RandomNameSequence.characters
TMP_ROOTS = ['/tmp', '/var/tmp', '/private/var/folders/k4/x0_f9sgx4l3_mnd2yw6s9_2h0000gn/T']   # platform defaults


def program_path(lang, root, tmpname, package):
    """hephaestus.py: tmpdir = tempfile.mkdtemp(); dirname = tmpdir/src; dst_file = dirname/<package>/<filename>"""
    return '%s/%s/src/%s/%s' % (root, tmpname, package, INFO[lang]['fname'])


def word_list():
    path = os.path.join(REPO_USED[0] or os.environ.get('HEPH_REPO', '/repo'), 'src', 'resources', 'words')
    with open(path) as f:
        return [w.rstrip('\n') for w in f if w.strip()]


# ---------------------------------------------------------------------------------------------------------------
# message / source-line pools: texts the four compilers really print.  shape = (kind, [message lines])
# javac: first line is the headline, further lines are the detail lines (verbatim, javac indents them by >= 2)
# kotlinc: further lines are continuation lines of the message (verbatim)
# groovyc: kind 'nl' = message ends with newline before ' @ line' (static type checking), 'same' = same line (parser)
# scalac: kind is the title prefix in front of 'Error'/'Warning' ('[E007] Type Mismatch ' or ''), lines are the body

POOL = {
    'java': {
        'error': [
            ('', ['incompatible types: String cannot be converted to int']),
            ('', ['cannot find symbol', '  symbol:   variable undefined', '  location: class Main']),
            ('', ['class Other is public, should be declared in a file named Other.java']),
            ('', ['method p in class Main cannot be applied to given types;', '  required: T', '  found:    String',
                  '  reason: inference variable T has incompatible bounds', '    lower bounds: Number',
                  '    lower bounds: String', '  where T is a type-variable:',
                  '    T extends Number declared in method <T>p(T)']),
            ('', ["';' expected"]),
            ('', ['Warning is not abstract and does not override abstract method error() in Note']),
            ('', ['unreported exception Exception; must be caught or declared to be thrown']),
            ('', ['incompatible types: Main.Integer cannot be converted to java.lang.Integer']),
        ],
        'warning': [
            ('[unchecked] ', ['unchecked cast', '  required: T', '  found:    Object', '  where T is a type-variable:',
                              '    T extends Object declared in method <T>g(Object)']),
            ('[rawtypes] ', ['found raw type: List', '  missing type arguments for generic class List<E>',
                             '  where E is a type-variable:', '    E extends Object declared in interface List']),
            ('[removal] ', ['Long(long) in Long has been deprecated and marked for removal']),
            ('[deprecation] ', ['error() in Error has been deprecated']),
        ],
        'note': [
            ('file', ['uses unchecked or unsafe operations.', 'Recompile with -Xlint:unchecked for details.']),
            ('file', ['uses or overrides a deprecated API.', 'Recompile with -Xlint:deprecation for details.']),
            ('some', ['Some input files use unchecked or unsafe operations.',
                      'Recompile with -Xlint:unchecked for details.']),
        ],
        'src': ['  static int f() { return "a"; }', '    final Error error = new Warning();',
                '        int x = b ? 1: error;', '  <T extends Number> void p(T t) { String s = t; p("x"); }'],
        'global': ['error: file not found: Missing.java', 'warning: [options] bootstrap class path not set in '
                   'conjunction with -source 8', 'Picked up JAVA_TOOL_OPTIONS: -Xmx8g'],
    },
    'kotlin': {
        'error': [
            ('', ['type mismatch: inferred type is String but Int was expected']),
            ('', ['unresolved reference: error']),
            ('', ['none of the following functions can be called with the arguments supplied: ',
                  'public final operator fun plus(other: Byte): Int defined in kotlin.Int',
                  'public final operator fun plus(other: Double): Double defined in kotlin.Int']),
            ('', ["class 'Warning' is not abstract and does not implement abstract member public abstract fun "
                  "error(): Note defined in src.error.Error"]),
            ('', ['Type mismatch: inferred type is Warning but Error was expected']),
            ('', ['expecting an element']),
        ],
        'warning': [
            ('', ["variable 'error' is never used"]),
            ('', ['unchecked cast: Any to T']),
            ('', ["this class shouldn't be used in Kotlin. Use kotlin.Int instead."]),
            ('', ['the expression is unused']),
        ],
        'note': [
            ('', ['smart cast to Error']),
            ('', ['kotlinc-jvm 1.4.21 (JRE 11.0.9)']),
        ],
        'src': ['    val x: Int = "a"', '  val error: Error = Warning()', '        note(error, warning)',
                'fun <T: Number> p(t: T): String = t'],
        'global': ['warning: language version 1.4 is deprecated and its support will be removed in a future version '
                   'of Kotlin', 'error: source file or directory not found: missing.kt',
                   'OpenJDK 64-Bit Server VM warning: Options -Xverify:none and -noverify were deprecated in JDK 13 '
                   'and will likely be removed in a future release.', 'info: produce executable: program.jar'],
    },
    'groovy': {
        'error': [
            ('nl', ['[Static type checking] - Cannot assign value of type java.lang.String to variable of type int']),
            ('nl', ['[Static type checking] - Cannot find matching method src.error.Main#foo(java.lang.Integer). '
                    'Please check if the declared type is correct and if the method exists.']),
            ('same', ['unexpected token: }']),
            ('same', ['The return type of java.lang.Object error() in src.note.Warning is incompatible with int in '
                      'src.note.Error']),
            ('same', ["Can't have an abstract method in a non-abstract class. The class 'src.note.Error' must be "
                      "declared abstract or the method 'int warning()' must be implemented."]),
            ('nl', ['[Static type checking] - Cannot call src.error.Main#p(T) with arguments [java.lang.String] ']),
        ],
        'warning': [('', ['warning: the source level is not supported'])],
        'note': [('', ['Note: Some input files use unchecked or unsafe operations.']),
                 ('', ['WARNING: Illegal reflective access by org.codehaus.groovy.vmplugin.v7.Java7$1 '
                       '(file:/opt/groovy/lib/groovy-2.5.14.jar) to constructor '
                       'java.lang.invoke.MethodHandles$Lookup(java.lang.Class,int)'])],
        'src': ['int x = "a"', 'final Error error = new Warning()', 'note(error, warning)', '}'],
        'global': ['WARNING: An illegal reflective access operation has occurred',
                   'WARNING: Please consider reporting this to the maintainers of '
                   'org.codehaus.groovy.reflection.CachedClass',
                   'WARNING: All illegal access operations will be denied in a future release'],
    },
    'scala': {
        'error': [
            ('[E007] Type Mismatch ', ['Found:    ("a" : String)', 'Required: Int']),
            ('[E008] Not Found ', ['value foo is not a member of Error']),
            ('', ['class Warning needs to be abstract, since def error: Note in class Error is not defined ']),
            ('[E134] Type ', ['None of the overloaded alternatives of method foo in class Error with types',
                              ' (x: Int): Int', ' (x: String): Int', 'match arguments (Boolean)']),
            ('[E006] Not Found ', ['Not found: warning']),
            ('[E008] Not Found ', ['value fooo is not a member of Error - did you mean error.foo?']),
        ],
        'warning': [
            ('[E029] Pattern Match Exhaustivity ', ['match may not be exhaustive.', '',
                                                    'It would fail on pattern case: _: Warning']),
            ('Deprecation ', ['method error in class Error is deprecated']),
            ('', ['unused value of type Note']),
            ('[E129] Potential Issue ', ['A pure expression does nothing in statement position; you may be omitting '
                                         'necessary parentheses']),
        ],
        'note': [('', ['Inlined code follows'])],
        'src': ['  val x: Int = "a"', '    val error: Error = new Warning()', '  note(error, warning)',
                '  def p[T <: Number](t: T): String = t', '  val y: String = -1'],
        'global': [],
    },
}

EXPLAIN = " longer explanation available when compiling with `-explain`"
PAGE_WIDTH = 80          # dotty: -pagewidth default


def rec(file, sev, shape, line=3, col=5, src=None):
    return dict(file=file, sev=sev, kind=shape[0], msg=list(shape[1]), line=line, col=col, src=src)


# ---------------------------------------------------------------------------------------------------------------
# rendering: one text block per record

def scala_title(r):
    word = {'error': 'Error', 'warning': 'Warning', 'note': 'Info'}[r['sev']]
    prefix = '-- %s%s: %s:%d:%d ' % (r['kind'], word, r['file'], r['line'], r['col'])
    return prefix, max(PAGE_WIDTH - len(prefix), 0)


def block(lang, r):
    f, sev, msg, src, line, col = r['file'], r['sev'], r['msg'], r['src'], r['line'], r['col']
    out = []
    if r['kind'] == 'global':
        # launcher / position-less lines, printed verbatim
        return ''.join(l + '\n' for l in msg)
    if lang == 'java':
        if sev == 'note':
            if r['kind'] == 'file' and f is not None:
                out.append('Note: %s %s' % (f, msg[0]))
            else:
                out.append('Note: %s' % msg[0])
            out += ['Note: %s' % m for m in msg[1:]]
        elif f is None:
            out.append('%s: %s%s' % (sev, r['kind'], msg[0]))
        else:
            out.append('%s:%d: %s: %s%s' % (f, line, sev, r['kind'], msg[0]))
            if src is not None:
                out += [src, ' ' * col + '^']
            out += msg[1:]
        return ''.join(l + '\n' for l in out)
    if lang == 'kotlin':
        word = {'error': 'error', 'warning': 'warning', 'note': 'info'}[sev]
        if f is None:
            out.append('%s: %s' % (word, msg[0]))
            out += msg[1:]
        else:
            out.append('%s:%d:%d: %s: %s' % (f, line, col, word, msg[0]))
            out += msg[1:]
            if src is not None:
                out += [src, ' ' * (col - 1) + '^']
        return ''.join(l + '\n' for l in out)
    if lang == 'groovy':
        if sev != 'error' or f is None:
            # groovyc has no positioned warnings / notes; they are plain lines (ErrorCollector / JVM / joint javac)
            return ''.join(l + '\n' for l in msg)
        text = '\n'.join(msg)
        at = '@ line %d, column %d.' % (line, col)
        if r['kind'] == 'same':
            out.append('%s: %d: %s %s' % (f, line, text, at))
        else:
            out.append('%s: %d: %s' % (f, line, text))
            out.append(' ' + at)
        if src is not None:
            out += ['   ' + src, '   ' + ' ' * min(col, len(src)) + '^']
        return '\n'.join(out) + '\n\n'
    if lang == 'scala':
        if f is None:
            return ''.join(l + '\n' for l in msg)
        prefix, dashes = scala_title(r)
        out.append(prefix + '-' * dashes)
        g = str(line)
        pad = ' ' * len(g)
        if src is not None:
            out.append('%s |%s' % (g, src))
            out.append('%s |%s^' % (pad, ' ' * col))
        for m in msg:
            out.append('%s |%s%s' % (pad, ' ' * col, m) if m else '%s |' % pad)
        if r['kind'].startswith('[E'):
            out += ['%s |' % pad, '%s |%s' % (pad, EXPLAIN)]
        return ''.join(l + '\n' for l in out)
    raise ValueError(lang)


def summary(lang, records):
    ne = sum(1 for r in records if is_error(r))
    nw = sum(1 for r in records if r['sev'] == 'warning')
    pl = lambda n: '' if n == 1 else 's'
    if lang == 'java':
        return ('%d error%s\n' % (ne, pl(ne)) if ne else '') + ('%d warning%s\n' % (nw, pl(nw)) if nw else '')
    if lang == 'kotlin':
        return ''       # kotlinc prints no summary
    if lang == 'groovy':
        return '%d error%s\n' % (ne, pl(ne)) if ne else ''
    if lang == 'scala':
        return ('%d warning%s found\n' % (nw, pl(nw)) if nw else '') + ('%d error%s found\n' % (ne, pl(ne)) if ne else '')


GROOVY_HEAD = 'org.codehaus.groovy.control.MultipleCompilationErrorsException: startup failed:\n'

# stack traces ---------------------------------------------------------------------------------------------------
JAVAC_BUG = ('An exception has occurred in the compiler (17.0.19). Please file a bug against the Java compiler via the '
             'Java bug reporting page (http://bugreport.java.com) after checking the Bug Database '
             '(http://bugs.java.com) for duplicates. Include your program, the following diagnostic, and the '
             'parameters passed to the Java compiler in your report. Thank you.\n')
JAVAC_RES = '\n\nThe system is out of resources.\nConsult the following stack trace for details.\n'
FRAMES = {
    'javac17': ['jdk.compiler/com.sun.tools.javac.comp.Attr.visitApply(Attr.java:2112)',
                'jdk.compiler/com.sun.tools.javac.tree.JCTree$JCMethodInvocation.accept(JCTree.java:1775)',
                'jdk.compiler/com.sun.tools.javac.comp.Attr.attribTree(Attr.java:677)',
                'jdk.compiler/com.sun.tools.javac.main.JavaCompiler.compile(JavaCompiler.java:948)',
                'jdk.compiler/com.sun.tools.javac.main.Main.compile(Main.java:317)',
                'jdk.compiler/com.sun.tools.javac.Main.main(Main.java:50)'],
    'javac8': ['com.sun.tools.javac.code.Types$MembersClosureCache.visitClassType(Types.java:2801)',
               'com.sun.tools.javac.comp.Attr.attribTree(Attr.java:576)',
               'com.sun.tools.javac.main.JavaCompiler.compile(JavaCompiler.java:856)',
               'com.sun.tools.javac.main.Main.compile(Main.java:523)',
               'com.sun.tools.javac.Main.main(Main.java:43)'],
    'javac-hashmap': ['java.base/java.util.HashMap$HashIterator.nextNode(HashMap.java:1597)',
                      'java.base/java.util.HashMap$KeyIterator.next(HashMap.java:1620)',
                      'jdk.compiler/com.sun.tools.javac.comp.Flow.analyzeTree(Flow.java:223)',
                      'jdk.compiler/com.sun.tools.javac.main.JavaCompiler.compile(JavaCompiler.java:948)',
                      'jdk.compiler/com.sun.tools.javac.Main.main(Main.java:50)'],
    'kotlin': ['org.jetbrains.kotlin.backend.common.CodegenUtil.reportBackendException(CodegenUtil.kt:239)',
               'org.jetbrains.kotlin.backend.jvm.codegen.FunctionCodegen.generate(FunctionCodegen.kt:47)',
               'org.jetbrains.kotlin.cli.jvm.K2JVMCompiler.doExecute(K2JVMCompiler.kt:52)',
               'org.jetbrains.kotlin.cli.common.CLITool.exec(CLITool.kt:92)',
               'org.jetbrains.kotlin.cli.jvm.K2JVMCompiler.main(K2JVMCompiler.kt)',
               'java.base/jdk.internal.reflect.NativeMethodAccessorImpl.invoke0(Native Method)',
               'org.jetbrains.kotlin.preloading.Preloader.main(Preloader.java:49)'],
    'groovy': ['org.codehaus.groovy.classgen.asm.sc.StaticInvocationWriter.writeDirectMethodCall'
               '(StaticInvocationWriter.java:141)',
               'org.codehaus.groovy.control.CompilationUnit$IPrimaryClassNodeOperation.doPhaseOperation'
               '(CompilationUnit.java:965)',
               'org.codehaus.groovy.control.CompilationUnit.compile(CompilationUnit.java:642)',
               'org.codehaus.groovy.tools.FileSystemCompiler.compile(FileSystemCompiler.java:70)',
               'org.codehaus.groovy.tools.FileSystemCompiler.commandLineCompileWithErrorHandling'
               '(FileSystemCompiler.java:184)'],
    'groovy-parser': ['org.apache.groovy.parser.antlr4.GroovyParser.expression(GroovyParser.java:10290)',
                      'groovyjarjarantlr4.v4.runtime.atn.ParserATNSimulator.closure_(ParserATNSimulator.java:1557)',
                      'groovyjarjarantlr4.v4.runtime.atn.ParserATNSimulator.closureCheckingStopState'
                      '(ParserATNSimulator.java:1523)'],
    'scala': ['scala.runtime.Scala3RunTime$.assertFailed(Scala3RunTime.scala:8)',
              'dotty.tools.dotc.core.Types$TypeMap.mapOver(Types.scala:5520)',
              'dotty.tools.dotc.typer.Typer.typedUnadapted(Typer.scala:2825)',
              'dotty.tools.dotc.Run.compileUnits(Run.scala:205)',
              'dotty.tools.dotc.Driver.process(Driver.scala:199)',
              'dotty.tools.dotc.Main.main(Main.scala)'],
}
# form -> (lang, preamble, [exception header lines], frame set, epilogue)
TRACE_FORMS = {
    # javac, form 1: Log.bugMessage + printStackTrace  (uncaught exception inside the compiler)
    'javac-bug': ('java', JAVAC_BUG, ['java.lang.AssertionError: Unexpected intersection type: T'], 'javac17',
                  'printing javac parameters to: /tmp/javac.20240101_120000.args\n'),
    'javac-bug-npe': ('java', JAVAC_BUG, ['java.lang.NullPointerException'], 'javac8', ''),
    'javac-bug-ise': ('java', JAVAC_BUG, ['java.lang.IllegalStateException: error'], 'javac17', ''),
    # javac, form 2: Log.resourceMessage (StackOverflowError / OutOfMemoryError are caught separately)
    'javac-resources': ('java', JAVAC_RES, ['java.lang.StackOverflowError'], 'javac17', ''),
    'javac-resources-oom': ('java', JAVAC_RES, ['java.lang.OutOfMemoryError: Java heap space'], 'javac8', ''),
    # form 1 with an exception class outside java.lang and no java.lang frame
    'javac-bug-cme': ('java', JAVAC_BUG, ['java.util.ConcurrentModificationException'], 'javac-hashmap', ''),
    'kotlin-backend': ('kotlin', '', ['exception: org.jetbrains.kotlin.backend.common.BackendException: Backend '
                                      'Internal error: Exception during IR lowering',
                                      'File being compiled: /tmp/tmpk3_x9a2b/src/error/program.kt',
                                      'The root cause java.lang.RuntimeException was thrown at: '
                                      'org.jetbrains.kotlin.backend.jvm.codegen.FunctionCodegen.generate'
                                      '(FunctionCodegen.kt:47)'], 'kotlin', ''),
    'kotlin-frontend': ('kotlin', '', ['exception: org.jetbrains.kotlin.util.KotlinFrontEndException: Front-end '
                                       'Internal error: Failed to analyze declaration Warning',
                                       'File being compiled: (3,1) in /tmp/tmpk3_x9a2b/src/error/program.kt',
                                       'The root cause java.lang.AssertionError was thrown at: '
                                       'org.jetbrains.kotlin.resolve.calls.KotlinCallResolver.resolveCall'
                                       '(KotlinCallResolver.kt:70)'], 'kotlin', ''),
    'kotlin-uncaught': ('kotlin', '', ['exception: java.lang.IllegalStateException: Type variable '
                                       'TypeVariable(T) should not be fixed!'], 'kotlin', ''),
    'groovy-bug': ('groovy', '', ['>>> a serious error occurred: BUG! exception in phase \'class generation\' in '
                                  'source unit \'/tmp/tmpk3_x9a2b/src/error/Main.groovy\' unexpected NullPointerException',
                                  '>>> stacktrace:',
                                  'BUG! exception in phase \'class generation\' in source unit '
                                  '\'/tmp/tmpk3_x9a2b/src/error/Main.groovy\' unexpected NullPointerException'],
                   'groovy', ''),
    'groovy-general': ('groovy', GROOVY_HEAD, ['General error during instruction selection: '
                                               'java.lang.NullPointerException', '',
                                               'java.lang.NullPointerException'], 'groovy', '\n1 error\n'),
    'groovy-stackoverflow': ('groovy', '', ['>>> a serious error occurred: null', '>>> stacktrace:',
                                            'java.lang.StackOverflowError'], 'groovy', ''),
    # a stack overflow inside the (Parrot) parser: the 1024 printed frames are parser frames only
    'groovy-stackoverflow-parser': ('groovy', '', ['>>> a serious error occurred: null', '>>> stacktrace:',
                                                   'java.lang.StackOverflowError'], 'groovy-parser', ''),
    'scala-assert': ('scala', '', ['exception occurred while typechecking /tmp/tmpk3_x9a2b/src/error/program.scala',
                                   'exception occurred while compiling /tmp/tmpk3_x9a2b/src/error/program.scala',
                                   'Exception in thread "main" java.lang.AssertionError: assertion failed: '
                                   'unresolved symbols: type T'], 'scala', ''),
    'scala-stackoverflow': ('scala', '', ['Exception in thread "main" java.lang.StackOverflowError'], 'scala', ''),
    'scala-unhandled': ('scala', '', ['', '  An unhandled exception was thrown in the compiler.',
                                      '  Please file a crash report here:',
                                      '  https://github.com/lampepfl/dotty/issues/new/choose', '',
                                      'java.lang.ClassCastException: class dotty.tools.dotc.ast.Trees$Ident cannot be '
                                      'cast to class dotty.tools.dotc.ast.Trees$Apply'], 'scala', ''),
}


OVERFLOW_FORMS = ('javac-resources', 'groovy-stackoverflow', 'groovy-stackoverflow-parser', 'scala-stackoverflow')


def trace_text(form, nframes=4):
    """the whole frame list; for the stack-overflow forms the innermost three frames recur `nframes` times first"""
    lang, pre, head, frames, post = TRACE_FORMS[form]
    fr = FRAMES[frames]
    body = list(fr)
    if form in OVERFLOW_FORMS:
        inner = fr[1:4] if frames == 'scala' else fr[:3]
        body = inner * nframes + (fr if frames != 'groovy-parser' else [])
    return pre + ''.join(h + '\n' for h in head) + ''.join('\tat ' + f + '\n' for f in body) + post


def render_parts(batch):
    """(text before the diagnostics, [block per record], text after)"""
    lang, records = batch['lang'], batch['records']
    blocks = [block(lang, r) for r in records]
    pre = ''.join(l + '\n' for l in batch.get('pre', []))
    post = ''
    if lang == 'groovy' and any(r['sev'] == 'error' and r['file'] is not None for r in records):
        pre += GROOVY_HEAD
    if batch.get('summary', True):
        post += summary(lang, records)
    post += ''.join(l + '\n' for l in batch.get('post', []))
    return pre, blocks, post


def render(batch):
    pre, blocks, post = render_parts(batch)
    tr = batch.get('trace')
    if tr:
        t = trace_text(tr['form'], tr.get('frames', 4))
        where = tr.get('where', 'end')
        if where == 'start':
            return t + pre + ''.join(blocks) + post
        if where == 'before-summary':
            return pre + ''.join(blocks) + t + post
        return pre + ''.join(blocks) + post + t
    return pre + ''.join(blocks) + post


# ---------------------------------------------------------------------------------------------------------------
# the oracle: read off the record list

def is_error(r):
    return r['sev'] == 'error' and r['file'] is not None


def disregarded(r, blk, patterns):
    """a diagnostic is disregarded iff some user pattern matches inside it (its message, or its whole printed form)"""
    text = '\n'.join(r['msg'])
    return any(re.search(p, text) or re.search(p, blk) for p in patterns)


def expected(batch):
    """-> (crash?, OrderedDict file -> [headline of each error diagnostic of that file, in print order])"""
    crash = bool(batch.get('trace'))
    failed = collections.OrderedDict()
    pats = batch.get('patterns') or []
    lang = batch['lang']
    for r in batch['records']:
        if not is_error(r):
            continue
        if pats and disregarded(r, block(lang, r), pats):
            continue
        failed.setdefault(r['file'], []).append(r['msg'][0])
    return crash, failed


def features(batch):
    """predicates on the INPUT that name classes of inputs (used in check names only; first applicable class per
    compiler, so that one class of inputs never hides behind another)"""
    lang = batch['lang']
    tags = []
    errs = [r for r in batch['records'] if is_error(r)]
    tr = batch.get('trace')
    if tr:
        if lang == 'java' and 'java.lang' not in trace_text(tr['form'], tr.get('frames', 4)):
            tags.append('no-java.lang-in-trace')
        if errs and tr['form'] == 'groovy-stackoverflow-parser':
            tags.append('parser-stackoverflow+error-diagnostics')
    elif lang == 'java':
        if any('java.lang.' in l for r in batch['records'] for l in r['msg'] + [r['src'] or '']):
            tags.append('java.lang-in-diagnostic')
    elif lang == 'scala':
        if any(scala_title(r)[1] == 0 for r in errs):
            tags.append('title-fills-page-width')
        elif any('-' in l for r in errs for l in r['msg'] + [r['src'] or '']):
            tags.append('dash-in-body')
    if batch.get('patterns') and not tr:
        k = batch.get('pattern_kind', '?')
        tags.append('pattern=' + ('message' if k.startswith('message') else 'diagnostic' if k.startswith('diagnostic')
                                  else 'other'))
    return tags


# ---------------------------------------------------------------------------------------------------------------
# running the real code and comparing

def analyze(lang, output, patterns):
    cls = REAL[lang]
    comp = cls('/tmp/tmpk3_x9a2b/src', set(patterns) if patterns else set())     # utils.path2set returns a set
    res = comp.analyze_compiler_output(output)
    failed = res[0] if isinstance(res, tuple) else res
    return comp.crash_msg, failed


def compare(lang, output, patterns, exp_crash, exp_failed, foreign=()):
    """-> None or (clause, expected, actual)"""
    try:
        crash_msg, failed = analyze(lang, output, patterns)
    except Exception as ex:      # noqa
        return 'exception', 'a result', 'raised %r' % (ex,)
    if exp_crash:
        if not crash_msg:
            return ('crash-missed', 'crash (crash_msg set)',
                    'crash_msg=%r, failed=%r' % (crash_msg, None if failed is None else dict(failed)))
        if crash_msg != output:
            return 'crash-message', 'crash_msg == compiler output', repr(crash_msg)[:300]
        return None
    if crash_msg:
        return 'false-crash', 'diagnostics for %r' % (list(exp_failed),), 'classified as crash'
    if failed is None:
        return 'files', repr(dict(exp_failed)), 'None'
    # what check_oracle does: `program in failed` for the exact path of each program
    got = {k: list(v) for k, v in failed.items()}
    missing = [f for f in exp_failed if f not in failed]
    extra = [f for f in got if f not in exp_failed]
    if missing or extra:
        return 'files', 'files with an error: %r' % (list(exp_failed),), \
            'keys %r (missing %r, extra %r)' % (list(got), missing, extra)
    for f, heads in exp_failed.items():
        if len(got[f]) != len(heads):
            return 'count', '%s: %d message(s) %r' % (f, len(heads), heads), '%d message(s) %r' % (len(got[f]), got[f])
    for f, heads in exp_failed.items():
        for h, m in zip(heads, got[f]):
            if not isinstance(m, str) or h not in m:
                return 'message', '%s: a message containing %r' % (f, h), repr(m)
            for (f2, h2) in foreign:
                if f2 != f and h2 in m and h2 not in h:
                    return 'message-foreign', '%s: message of its own diagnostic only' % f, repr(m)
    return None


def evaluate(batch):
    """-> (None or violation dict (without family), rendered output)"""
    lang = batch['lang']
    out = render(batch)
    crash, exp = expected(batch)
    # headlines that are unique to one file: must not show up in a message of another file
    heads = collections.defaultdict(set)
    for r in batch['records']:
        if is_error(r):
            heads[r['msg'][0]].add(r['file'])
    foreign = [(next(iter(fs)), h) for h, fs in heads.items() if len(fs) == 1]
    bad = compare(lang, out, batch.get('patterns') or [], crash, exp, foreign)
    if bad is None:
        return None, out
    return dict(clause=bad[0], expected=bad[1], actual=bad[2], output=out, tags=features(batch)), out


def batch_json(batch):
    return json.dumps(batch, sort_keys=True)


# ---------------------------------------------------------------------------------------------------------------
# real javac: corpus of deliberately broken files, strict grammar of javac's output, round trip

JAVAC_MEMBERS = {
    'ok': ('  static int m%(i)d() { return %(i)d; }', []),
    'E_mismatch': ('  static int m%(i)d() { return "a"; }', ['error']),
    'E_symbol': ('  static void m%(i)d() { int y = undefined%(i)d; }', ['error']),
    'E_tvar': ('  static <T extends Number> void m%(i)d(T t) { String s = t; }', ['error']),
    'E_apply': ('  static <T extends Number> void q%(i)d(T t) {} static void m%(i)d() { q%(i)d("x"); }', ['error']),
    'E_two': ('  static void m%(i)d() { int a = "x"; String b = 1; }', ['error', 'error']),
    'E_qualified': ('  static class Integer {} static void m%(i)d() { java.lang.Integer z = new Integer(); }', ['error']),
    'E_syntax': ('  static int m%(i)d() { return 1 }', ['syntax']),
    'W_unchecked': ('  static <T> T m%(i)d(Object o) { return (T) o; }', ['warning?']),
    'W_raw': ('  static void m%(i)d() { java.util.List l = new java.util.ArrayList(); l.add(1); }', ['warning?']),
    'W_removal': ('  static Object m%(i)d() { return new Long(3L); }', ['warning?']),
}
JAVAC_PUBLIC = 'public class Other%(i)d {}'      # "class OtherN is public, should be declared in a file named ..."

# batches: list of (package, [member kinds], public-class-at-end?)
JAVAC_CORPUS = [
    ('mixed', [('error', ['ok', 'E_mismatch', 'W_unchecked', 'E_symbol'], False),
               ('warning', ['ok', 'W_raw', 'W_removal'], False),
               ('note', ['E_tvar', 'ok', 'E_apply'], True),
               ('java', ['ok', 'ok'], False)]),
    ('all-pass', [('alpha', ['ok'], False), ('beta', ['ok', 'ok'], False)]),
    ('warnings-only', [('kelp', ['W_unchecked', 'W_raw'], False), ('groovy', ['W_removal', 'ok'], False)]),
    ('interleaved', [('scala', ['E_mismatch'], True), ('lang', ['E_two', 'E_two', 'W_raw'], False),
                     ('program', ['ok', 'E_apply', 'E_tvar', 'E_symbol', 'E_mismatch'], True)]),
    ('qualified-name', [('dotty', ['ok', 'E_qualified'], False), ('zebra', ['E_mismatch'], False)]),
    ('syntax-stops-attribution', [('abacus', ['E_syntax', 'E_mismatch'], False), ('yonder', ['E_mismatch'], False),
                                  ('quail', ['ok', 'E_syntax', 'E_syntax'], False)]),
    ('one-error', [('gnu', ['E_mismatch'], False)]),
    ('many', [('w%02d' % k, ['E_mismatch' if (k + j) % 3 == 0 else 'W_unchecked' if (k + j) % 3 == 1 else 'ok'
                            for j in range(4)], k % 4 == 0) for k in range(12)]),
]
JAVAC_FLAGS = [['-nowarn'], ['-Xlint:all'], []]      # hephaestus uses -nowarn; the others make javac print warnings


def javac_sources(spec, root):
    """-> {path: text}, construction oracle: [(path, line, 'error'|'syntax')] and lines allowed to carry warnings"""
    files, errs, warn_lines = collections.OrderedDict(), [], set()
    i = 0
    for pkg, members, public in spec:
        path = '%s/src/%s/Main.java' % (root, pkg)
        lines = ['package src.%s;' % pkg, 'class Main {']
        for m in members:
            i += 1
            code, kinds = JAVAC_MEMBERS[m]
            lines.append(code % dict(i=i))
            for k in kinds:
                if k in ('error', 'syntax'):
                    errs.append((path, len(lines), k))
                else:
                    warn_lines.add((path, len(lines)))
        lines.append('}')
        if public:
            i += 1
            lines.append(JAVAC_PUBLIC % dict(i=i))
            errs.append((path, len(lines), 'error'))
        files[path] = '\n'.join(lines) + '\n'
    if any(k == 'syntax' for _, _, k in errs):
        # javac's should-stop policy: a parse error in any file ends the run before attribution; only the parse
        # errors are printed (this models javac, and is cross-checked against the strict parse below)
        errs = [e for e in errs if e[2] == 'syntax']
        warn_lines = set()
    return files, [(p, l) for p, l, _ in errs], warn_lines


class GrammarMismatch(Exception):
    pass


def parse_javac(output, paths):
    """strict recogniser for the language `render` generates for javac; -> batch (records, summary...)"""
    lines = output.split('\n')
    if lines[-1] != '':
        raise GrammarMismatch('output does not end with a newline')
    lines = lines[:-1]
    records = []
    k = 0
    hdr = re.compile(r'^(?P<line>\d+): (?P<sev>error|warning): (?P<cat>\[[a-z-]+\] )?(?P<msg>.*)$')
    while k < len(lines):
        l = lines[k]
        p = next((p for p in paths if l.startswith(p + ':')), None)
        if p is not None:
            m = hdr.match(l[len(p) + 1:])
            if not m:
                raise GrammarMismatch('header: %r' % l)
            if k + 2 >= len(lines) or not re.match(r'^ *\^$', lines[k + 2]):
                raise GrammarMismatch('no source/caret after %r' % l)
            src, caret = lines[k + 1], lines[k + 2]
            k += 3
            details = []
            while k < len(lines) and lines[k].startswith('  ') and not any(lines[k].startswith(q + ':') for q in paths):
                details.append(lines[k])
                k += 1
            records.append(dict(file=p, sev=m.group('sev'), kind=m.group('cat') or '', msg=[m.group('msg')] + details,
                                line=int(m.group('line')), col=len(caret) - 1, src=src))
            continue
        if l.startswith('Note: '):
            p = next((p for p in paths if l.startswith('Note: ' + p + ' ')), None)
            if k + 1 >= len(lines) or not lines[k + 1].startswith('Note: Recompile with '):
                raise GrammarMismatch('note without second line: %r' % l)
            if p:
                records.append(dict(file=p, sev='note', kind='file', msg=[l[len('Note: ' + p + ' '):], lines[k + 1][6:]],
                                    line=0, col=0, src=None))
            else:
                records.append(dict(file=None, sev='note', kind='some', msg=[l[6:], lines[k + 1][6:]], line=0, col=0,
                                    src=None))
            k += 2
            continue
        break
    rest = lines[k:]
    batch = dict(lang='java', records=records, summary=True)
    want = summary('java', records).split('\n')[:-1]
    if rest != want:
        raise GrammarMismatch('tail %r, expected summary %r' % (rest, want))
    return batch


def run_javac(files, flags, root):
    for p, text in files.items():
        os.makedirs(os.path.dirname(p), exist_ok=True)
        with open(p, 'w') as f:
            f.write(text)
    # same shape as hephaestus.run_command: shell, glob, stdout+stderr merged
    cmd = 'javac %s -d %s/out %s/src/*/*.java' % (' '.join(flags), root, root)
    pr = subprocess.run(cmd, shell=True, stdout=subprocess.PIPE, stderr=subprocess.STDOUT)
    return pr.stdout.decode('utf-8'), pr.returncode


def javac_case(name, spec, flags, tmpname=None, solo=False):
    """run real javac on one corpus batch; -> (violation or None, info)"""
    root = tempfile.mkdtemp(prefix='tmp') if tmpname is None else tmpname
    try:
        files, errs, warn_lines = javac_sources(spec, root)
        out, rc = run_javac(files, flags, root)
        # reproducible reports: the run happened in mkdtemp()'s directory; javac echoes the path it was given, so the
        # text is what it prints for a temp directory of this fixed (tempfile-style) name
        canon = '/tmp/tmp' + hashlib.blake2b(repr((name, flags)).encode(), digest_size=4).hexdigest()
        out = out.replace(root, canon)
        files, errs, warn_lines = javac_sources(spec, canon)
        # 1. the construction oracle
        exp = collections.OrderedDict()
        for p, l in errs:
            exp.setdefault(p, []).append(l)
        # 2. grammar validation: strict parse + round trip + agreement with the construction oracle
        parsed = parse_javac(out, list(files))
        if render(parsed) != out:
            raise GrammarMismatch('round trip differs for %s %s' % (name, flags))
        perr = sorted((r['file'], r['line']) for r in parsed['records'] if r['sev'] == 'error')
        if perr != sorted(errs):
            raise GrammarMismatch('corpus model differs from javac for %s %s: constructed %r, javac printed %r'
                                  % (name, flags, sorted(errs), perr))
        for r in parsed['records']:
            if r['sev'] == 'warning' and (r['file'], r['line']) not in warn_lines:
                raise GrammarMismatch('unexpected warning %r' % (r,))
        if (rc != 0) != bool(errs):
            raise GrammarMismatch('javac exit status %d with %d constructed errors' % (rc, len(errs)))
        if solo:
            # format-independent ground truth: each file compiled alone fails iff it carries an error
            for pkg, mem, pub in spec:
                p = '%s/src/%s/Main.java' % (root, pkg)      # the real directory
                pr = subprocess.run(['javac', '-nowarn', '-d', root + '/out1', p], stdout=subprocess.PIPE,
                                    stderr=subprocess.STDOUT)
                has = pub or any(k in ('error', 'syntax') for m in mem for k in JAVAC_MEMBERS[m][1])
                if (pr.returncode != 0) != has:
                    raise GrammarMismatch('solo compile of %s: exit %d, constructed has-error %r'
                                          % (p, pr.returncode, has))
        # 3. the property on the real output; oracle = construction (files, count), headline from the strict parse
        exp_failed = collections.OrderedDict()
        for r in parsed['records']:
            if r['sev'] == 'error':
                exp_failed.setdefault(r['file'], []).append(r['msg'][0])
        assert {f: len(v) for f, v in exp_failed.items()} == {f: len(v) for f, v in exp.items()}
        bad = compare('java', out, [], False, exp_failed)
        tags = features(parsed)
        info = dict(name=name, flags=flags, files=len(files), errors=len(errs), output_lines=out.count('\n'),
                    nontrivial=bool(errs) and (len(files) > 1 or len(parsed['records']) > len(errs)))
        if bad:
            rel = {p[len(canon) + 1:]: t for p, t in files.items()}
            return dict(clause=bad[0], expected=bad[1], actual=bad[2], output=out, tags=tags,
                        javac=dict(name=name, flags=flags, files=rel, spec=spec)), info
        return None, info
    finally:
        shutil.rmtree(root, ignore_errors=True)


def javac_crash_case():
    """a REAL javac stack overflow (deeply nested parentheses) next to an ordinary error: validates the
    'resources' stack-trace form and checks the crash clause on real output"""
    root = tempfile.mkdtemp(prefix='tmp')
    try:
        deep = '(' * 3000 + '1' + ')' * 3000
        files = {'%s/src/abyss/Main.java' % root: 'package src.abyss;\nclass Main { static int s = %s; }\n' % deep,
                 '%s/src/able/Main.java' % root: 'package src.able;\nclass Main {\n  static int f() { return "a"; }\n}\n'}
        out, rc = run_javac(files, ['-nowarn'], root)
        # the frame in which the stack overflows differs from run to run (it may be a java.base frame called by javac):
        # the trace must start with some frame and contain a javac frame
        if JAVAC_RES + 'java.lang.StackOverflowError\n\tat ' not in out or 'com.sun.tools.javac' not in out:
            raise GrammarMismatch('javac did not overflow its stack as expected: %r' % out[:300])
        bad = compare('java', out, [], True, {})
        if bad:
            return dict(clause=bad[0], expected=bad[1], actual=bad[2], output=out[:1500], tags=['real-stackoverflow'],
                        javac=dict(name='crash', flags=['-nowarn'],
                                   files={p[len(root) + 1:]: t for p, t in files.items()}, crash=True))
        return None
    finally:
        shutil.rmtree(root, ignore_errors=True)


# ---------------------------------------------------------------------------------------------------------------
# input spaces

def base_files(lang, long=False):
    if long:
        return [program_path(lang, '/tmp', 'tmpq_7zk0aa', w) for w in ('groundhog', 'mistaking', 'notebooks')]
    return [program_path(lang, '/tmp', 'tmpk3_x9a2b', w) for w in ('nab', 'error', 'java')]


def shapes(lang, sev, n):
    return POOL[lang][sev][:n]


def small_space(lang, maxlen, nshapes, long=False):
    """every record list of length <= maxlen over 3 files x {error, warning, note} x nshapes message shapes"""
    files = base_files(lang, long)
    srcs = POOL[lang]['src']
    atoms = []
    for fi, f in enumerate(files):
        for sev in ('error', 'warning', 'note'):
            for si, sh in enumerate(shapes(lang, sev, nshapes)):
                atoms.append(rec(f, sev, sh, line=3 + 4 * fi + si, col=5 + fi, src=srcs[(fi + si) % len(srcs)]))
    for n in range(maxlen + 1):
        for combo in itertools.product(atoms, repeat=n):
            yield dict(lang=lang, records=list(combo), summary=True)


def path_space(lang, words, rnd, tier):
    """one failing and one warned-about program per path; path alphabet sweep"""
    sh = POOL[lang]['error']
    wsh = POOL[lang]['warning']
    srcs = POOL[lang]['src']
    for k, w in enumerate(words):
        root = TMP_ROOTS[k % len(TMP_ROOTS)] if k % 7 == 0 else '/tmp'
        t1 = 'tmp' + ''.join(rnd.choice(TMP_ALPHABET) for _ in range(8))
        t2 = t1 if k % 2 else 'tmp' + ''.join(rnd.choice(TMP_ALPHABET) for _ in range(8))
        w2 = words[(k * 7919 + 13) % len(words)]
        a = program_path(lang, root, t1, w)
        b = program_path(lang, root, t2, w2)
        if a == b:
            continue
        yield dict(lang=lang, summary=True,
                   records=[rec(b, 'warning', wsh[k % len(wsh)], line=1 + k % 120, col=1 + k % 60, src=srcs[k % len(srcs)]),
                            rec(a, 'error', sh[k % 4], line=1 + k % 1200, col=1 + k % 90, src=srcs[(k + 1) % len(srcs)])])


def positionless_space(lang):
    """groovyc reports an error on a node without a source position as `<file>: -1: <message> @ line -1, column -1.`
    (ASTNode.getLineNumber() of a synthetic node is -1; no source line is quoted).  Such a diagnostic is an error
    diagnostic like any other: its file fails, with that message.  Batches of three programs: ordinary errors in one,
    only a position-less error in another, none in the third -- in every order, both message layouts."""
    if lang != 'groovy':
        return
    files = base_files(lang)
    sh = POOL[lang]['error']
    srcs = POOL[lang]['src']
    for kind_shape in sh[:3]:
        for order in itertools.permutations(range(3)):
            recs = [None, None, None]
            recs[order[0]] = [rec(files[0], 'error', sh[0], line=4, col=7, src=srcs[0]),
                              rec(files[0], 'error', sh[1], line=9, col=2, src=srcs[1])]
            recs[order[1]] = [rec(files[1], 'error', kind_shape, line=-1, col=-1, src=None)]
            recs[order[2]] = []
            yield dict(lang=lang, records=[r for grp in recs for r in grp], summary=True)


def random_batch(lang, rnd, words, maxrec=30):
    P = POOL[lang]
    nfiles = rnd.randint(1, 8)
    t = 'tmp' + ''.join(rnd.choice(TMP_ALPHABET) for _ in range(8))
    root = rnd.choice(TMP_ROOTS) if rnd.random() < 0.2 else '/tmp'
    files = [program_path(lang, root, t, w) for w in rnd.sample(words, nfiles)]
    nrec = rnd.randint(0, maxrec)
    records = []
    perr = rnd.choice([0.1, 0.5, 0.9])
    for _ in range(nrec):
        x = rnd.random()
        sev = 'error' if x < perr else ('warning' if x < perr + (1 - perr) * 0.7 else 'note')
        f = rnd.choice(files)
        if rnd.random() < 0.05 and P['global']:
            g = rnd.choice(P['global'])
            records.append(dict(file=None, sev='note', kind='global', msg=[g], line=0, col=0, src=None))
            continue
        sh = rnd.choice(P[sev])
        src = rnd.choice(P['src']) if rnd.random() < 0.85 else None
        records.append(rec(f, sev, sh, line=rnd.randint(1, 2500), col=rnd.randint(1, 100), src=src))
    pre = [g for g in P['global'] if rnd.random() < 0.1]
    return dict(lang=lang, records=records, summary=rnd.random() < 0.8, pre=pre)


def filter_space(lang, tier):
    """batches of <= 2 (quick) / 3 (thorough) records with one pattern aimed at one record"""
    files = base_files(lang)[:2]
    srcs = POOL[lang]['src']
    atoms = []
    for fi, f in enumerate(files):
        for sev in ('error', 'warning'):
            for si, sh in enumerate(shapes(lang, sev, 2)):
                atoms.append(rec(f, sev, sh, line=3 + 4 * fi + si, col=5 + fi, src=srcs[(fi + si) % len(srcs)]))
    for n in range(1, (3 if tier == 'thorough' else 2) + 1):
        for combo in itertools.product(atoms, repeat=n):
            recs = list(combo)
            for ti, target in enumerate(recs):
                if ti and target in recs[:ti]:
                    continue
                blk = block(lang, target)
                head = target['msg'][0]
                kinds = {
                    # the user pattern covers the whole printed diagnostic (literal)
                    'diagnostic': re.escape(blk),
                    # the user pattern covers the printed diagnostic, any file / position
                    'diagnostic-anyfile': re.escape(blk).replace(re.escape(target['file']), r'[^\n]*'),
                    # the user pattern covers the first printed line of the diagnostic (the one naming the file)
                    'diagnostic-title-line': title_line_pattern(lang, target),
                    # the user pattern is the message as reported (e.g. copied from faults.json)
                    'message': re.escape(head),
                    'message-generalised': re.sub(r'[A-Z][a-z]+', r'\\w+', re.escape(head), count=1),
                }
                if target['sev'] != 'error':
                    kinds = {'warning-' + k: v for k, v in kinds.items() if k in ('diagnostic', 'message')}
                for kind, pat in kinds.items():
                    yield dict(lang=lang, records=recs, summary=True, patterns=[pat], pattern_kind=kind)
            # patterns that match no diagnostic at all
            for kind, pat in (('none', r'no such text \d+'), ('summary', r'\d+ errors?( found)?\n')):
                yield dict(lang=lang, records=recs, summary=True, patterns=[pat], pattern_kind=kind)
            if n == 2:
                yield dict(lang=lang, records=recs, summary=True, pattern_kind='two-patterns',
                           patterns=[re.escape(block(lang, recs[0])), r'no such text \d+'])


MANY_COUNTS = tuple(range(1, 13)) + (15, 16, 17, 31, 32, 33, 63, 64, 65, 127, 128, 129)


def filter_many_space(lang, tier):
    """one pattern that matches n diagnostics of a batch (n up to 129, the same error in up to 6 files), between and
    around genuine errors and warnings that it does not match"""
    P = POOL[lang]
    srcs = P['src']
    counts = MANY_COUNTS if tier == 'thorough' else tuple(c for c in MANY_COUNTS if c <= 33)
    for ti in range(4 if tier == 'thorough' else 2):
        target_shape = P['error'][ti]
        genuine_shape = P['error'][(ti + 1) % 4]
        for n in counts:
            for nfiles in sorted({1, min(n, 6)}):
                files = [program_path(lang, '/tmp', 'tmpm0_9xq1c', w) for w in
                         ('oak', 'elm', 'ash', 'fir', 'yew', 'bay')[:nfiles]]
                good = [program_path(lang, '/tmp', 'tmpm0_9xq1c', w) for w in ('first', 'last')]
                recs = [rec(good[0], 'error', genuine_shape, line=2, col=3, src=srcs[0])]
                for k in range(n):
                    recs.append(rec(files[k % nfiles], 'error', target_shape, line=10, col=4, src=srcs[1]))
                    if k % 5 == 2:
                        recs.append(rec(files[k % nfiles], 'warning', P['warning'][0], line=10 + k, col=4, src=srcs[1]))
                recs.append(rec(good[1], 'error', genuine_shape, line=7, col=3, src=srcs[0]))
                target = recs[1]
                anyfile = re.escape(block(lang, target)).replace(re.escape(target['file']), r'[^\n]*')
                for kind, pat in (('diagnostic-anyfile', anyfile),
                                  ('diagnostic-title-line', title_line_pattern(lang, target))):
                    yield dict(lang=lang, records=recs, summary=True, patterns=[pat], pattern_kind=kind)


def title_line_pattern(lang, r):
    if lang == 'scala':
        return '-- ' + re.escape(r['kind']) + {'error': 'Error', 'warning': 'Warning', 'note': 'Info'}[r['sev']] + ': .*'
    return '.*' + re.escape(r['msg'][0]) + '.*'


def crash_space(lang, tier):
    files = base_files(lang)
    srcs = POOL[lang]['src']
    e0 = rec(files[0], 'error', POOL[lang]['error'][0], src=srcs[0])
    e1 = rec(files[1], 'error', POOL[lang]['error'][1], line=9, src=srcs[1])
    w0 = rec(files[2], 'warning', POOL[lang]['warning'][0], src=srcs[2])
    diag_sets = [[], [e0], [w0], [e0, w0, e1]]
    for form, spec in TRACE_FORMS.items():
        if spec[0] != lang:
            continue
        for recs in diag_sets:
            for where in ('end', 'start', 'before-summary'):
                depths = ((1, 30, 341) if tier == 'thorough' else (1, 30)) if form in OVERFLOW_FORMS else (0,)
                for frames in depths:
                    yield dict(lang=lang, records=recs, summary=True, trace=dict(form=form, where=where, frames=frames))
                    if recs and tier == 'thorough':
                        yield dict(lang=lang, records=recs, summary=True, patterns=[re.escape(block(lang, recs[0]))],
                                   pattern_kind='diagnostic', trace=dict(form=form, where=where, frames=frames))


# ---------------------------------------------------------------------------------------------------------------

def nontrivial(batch):
    errs = [r for r in batch['records'] if is_error(r)]
    if batch.get('trace'):
        return True
    return bool(errs) and (len(batch['records']) > len(errs) or len({r['file'] for r in batch['records']}) > 1
                           or bool(batch.get('patterns')))


RULE = ('outputs rendered from record lists (file, line, column, severity, message lines, quoted source line + caret, '
        'summary) in the javac / kotlinc / groovyc / scalac plain-text formats; oracle = the record list '
        '(files with >= 1 error record not matched by a filter pattern, their messages in print order; stack trace => '
        'crash); paths are <tmp root>/tmp[a-z0-9_]{8}/src/<word>/<Main.java|program.kt|Main.groovy|program.scala> with '
        '<tmp root> a platform default (/tmp, /var/tmp, macOS /var/folders/../T) and <word> from src/resources/words. '
        'Families per compiler: records = EVERY record list of length <= %(n)d over 3 files x {error,warning,note} x '
        'up to %(s)d message shapes per severity (short and long package names); paths = %(w)s of the %(W)d package words; random = '
        '%(r)d random batches (<= %(m)d records, <= 8 files, position-less/global lines, launcher noise, with/without '
        'summary; VERIF_SEED); filter = every record list of length <= %(f)d over 2 files x {error,warning} x 2 shapes '
        'with one pattern aimed at each record (whole diagnostic literal / any file, message as reported / generalised, '
        'warning-only, summary-only, non-matching), plus one pattern (first-line / whole diagnostic in any file) that '
        'matches n = %(k)s copies of one error in up to 6 files between two genuine errors; crash = every stack-trace form (javac: bug-report form and '
        'out-of-resources form, JDK 8 and 17 frames; kotlinc back/front end; groovyc BUG!/General error/StackOverflow; '
        'dotty assertion/StackOverflow/unhandled) x 4 diagnostic contexts x 3 positions x overflow depths; javac-real = '
        '%(j)d real javac runs (broken-file batches %(c)s, + one real javac StackOverflowError next to an ordinary '
        'error) whose output must be accepted by the strict javac grammar, re-render byte-identically and '
        'agree with the construction oracle%(solo)s. A message is checked by containment of the diagnostic\'s first '
        'message line and absence of another file\'s message (detail / continuation lines are not required: the '
        'statement does not say whether they belong to the message). kotlinc/groovyc/scalac formats are an assumption '
        '(compilers not installed). An input is non-trivial if it has >= 1 error record and also a second file, a '
        'non-error record or a pattern, or carries a stack trace; distinct by (compiler, output text, patterns).')


def _record(violations, lang, family, batch, v):
    name = 'bounded[%s:%s%s]' % (lang, v['clause'], ''.join(':' + t for t in v['tags']))
    old = violations.get(name)
    # one witness per check name: a real javac run is preferred, then the shortest output
    rank = lambda fam, out: (fam != 'javac-real', len(out))
    if old is not None and rank(old['family'], old['output']) <= rank(family, v['output']):
        return
    d = dict(check=name, function=QUAL[lang], lang=lang, family=family, expected=v['expected'],
             actual=v['actual'], output=v['output'], patterns=list((batch or {}).get('patterns') or []))
    if batch is not None:
        d['batch'] = batch_json(batch)
    if 'javac' in v:
        d['javac'] = v['javac']
    violations[name] = d


def bounds(tier):
    thorough = tier == 'thorough'
    return dict(nrec=4 if thorough else 3, nshape=2, nrand=8000 if thorough else 300, maxrec=40 if thorough else 25,
                step=1 if thorough else 26)


def synthetic(lang, tier, seed, stop_first=False, families=None):
    """all grammar-generated families of one compiler"""
    B = bounds(tier)
    words = word_list()
    res = dict(evals=0, seen=set(), violations={}, samples=[], per_family=collections.Counter())

    def feed(family, space):
        if families and family not in families:
            return
        for batch in space:
            if stop_first and res['violations']:
                return
            res['evals'] += 1
            res['per_family'][lang + '/' + family] += 1
            v, out = evaluate(batch)
            if nontrivial(batch):
                res['seen'].add(hashlib.blake2b((lang + '\0' + out + '\0' + repr(batch.get('patterns'))).encode(),
                                                digest_size=12).digest())
            if v:
                _record(res['violations'], lang, family, batch, v)
            elif len(res['samples']) < 1 and family == 'random' and 2 <= len(batch['records']) <= 4 \
                    and nontrivial(batch):
                res['samples'].append(dict(lang=lang, output=out, expected=dict(expected(batch)[1])))

    feed('records', small_space(lang, B['nrec'], B['nshape']))
    feed('records', small_space(lang, 2, 3, long=True))
    rnd = random.Random(1000 + LANGS.index(lang))
    feed('paths', path_space(lang, words[::B['step']], rnd, tier))
    feed('records', positionless_space(lang))
    feed('filter', filter_space(lang, tier))
    feed('filter', filter_many_space(lang, tier))
    feed('crash', crash_space(lang, tier))
    rnd = random.Random('%s/%s' % (seed, lang))
    feed('random', (random_batch(lang, rnd, words, B['maxrec']) for _ in range(B['nrand'])))
    return res


def run(tier, seed, stop_first=False, only_lang=None, families=None):
    t0 = time.time()
    if not REAL:
        load_real()
    thorough = tier == 'thorough'
    B = bounds(tier)
    nrec, nshape, nrand, maxrec, step = B['nrec'], B['nshape'], B['nrand'], B['maxrec'], B['step']
    words = word_list()
    evals = 0
    seen = set()
    violations = {}
    samples = []
    per_family = collections.Counter()
    stop = [False]

    def record(lang, family, batch, v):
        _record(violations, lang, family, batch, v)
        if stop_first:
            stop[0] = True

    langs = [l for l in LANGS if not only_lang or l == only_lang]
    if thorough and not stop_first and len(langs) > 1:
        # one forked worker per compiler (the real classes are already imported; each family is deterministic)
        import multiprocessing
        with concurrent.futures.ProcessPoolExecutor(max_workers=len(langs),
                                                    mp_context=multiprocessing.get_context('fork')) as ex:
            parts = list(ex.map(synthetic, langs, [tier] * len(langs), [seed] * len(langs),
                                [False] * len(langs), [families] * len(langs)))
    else:
        parts = []
        for lang in langs:
            parts.append(synthetic(lang, tier, seed, stop_first, families))
            if stop_first and parts[-1]['violations']:
                stop[0] = True
                break
    for part in parts:
        evals += part['evals']
        seen |= part['seen']
        violations.update(part['violations'])
        samples += part['samples']
        per_family.update(part['per_family'])
    # real javac
    jruns = 0
    jinfo = []
    jobs = []
    if (not only_lang or only_lang == 'java') and (not families or 'javac-real' in families) and not stop[0]:
        corpus = dict(JAVAC_CORPUS)
        if thorough:
            jobs = [(n, s, f) for n, s in JAVAC_CORPUS for f in JAVAC_FLAGS]
        else:
            jobs = [('mixed', corpus['mixed'], ['-nowarn']), ('interleaved', corpus['interleaved'], ['-Xlint:all']),
                    ('qualified-name', corpus['qualified-name'], ['-nowarn'])]
        with concurrent.futures.ThreadPoolExecutor(max_workers=8) as ex:
            futs = [ex.submit(javac_case, n, s, f, None, thorough and f == ['-nowarn']) for n, s, f in jobs]
            futs.append(ex.submit(javac_crash_case))
            res = [f.result() for f in futs]
        for r in res[:-1]:
            v, info = r
            jruns += 1
            evals += 1
            per_family['java/javac-real'] += 1
            jinfo.append(info)
            if info['nontrivial']:
                seen.add(('javac', info['name'], tuple(info['flags'])))
            if v:
                record('java', 'javac-real', None, v)
        jruns += 1
        evals += 1
        per_family['java/javac-real'] += 1
        seen.add(('javac', 'crash'))
        if res[-1]:
            record('java', 'javac-real', None, res[-1])
    rule = RULE % dict(n=nrec, s=nshape, w='every word' if step == 1 else 'every %dth' % step, W=len(words),
                       r=nrand, m=maxrec, f=3 if thorough else 2, j=jruns,
                       k='1..12,15..17,31..33' + (',63..65,127..129' if thorough else ''),
                       c=', '.join(sorted({'%s %s' % (n, '/'.join(f) or 'no flag') for n, _, f in jobs})),
                       solo='; each file also compiled alone (exit status = has an error)' if thorough else '')
    return dict(evaluations=evals, distinct_nontrivial=len(seen), rule=rule, samples=samples,
                violations=sorted(violations.values(), key=lambda d: d['check']), exhaustive=True,
                per_family=dict(per_family), javac_runs=jinfo, seconds=round(time.time() - t0, 1),
                repo=REPO_USED[0])


def replay(fi):
    """re-execute a recorded failing input on the current tree: True if the property holds on it"""
    if not REAL:
        load_real()
    if fi.get('javac'):
        j = fi['javac']
        if j.get('crash'):
            v = javac_crash_case()
        else:
            spec = [tuple(x) for x in j['spec']]
            v, _ = javac_case(j['name'], spec, j['flags'])
        if v:
            print('real javac batch %s %s: %s: expected %s, got %s' % (j['name'], j['flags'], v['clause'], v['expected'],
                                                                      v['actual']))
        return not v
    batch = json.loads(fi['batch'])
    v, _ = evaluate(batch)
    if v:
        print('%s on\n%s\npatterns %r\n%s: expected %s, got %s' % (QUAL[batch['lang']], v['output'],
                                                                  batch.get('patterns'), v['clause'], v['expected'],
                                                                  v['actual']))
    return not v
