"""Executable oracle + driver for C18 (bounded stand-in): the pipeline never fails internally and always terminates.

Written from the property statement:

  "For every seed, language and option combination, generating a program, applying type erasure, applying type
   overwriting and translating each intermediate program complete without raising an exception and within a bounded
   amount of work (the expression nesting of generated programs is bounded by a function of the configured depth)."

What is evaluated on the real code for every input (language, seed, option switches, depth limit):

  stages        generate -> translate -> TypeErasure -> translate -> TypeOverwriting -> translate, the same calls in
                the same order as hephaestus.gen_program with --transformations 1 --keep-all (options are applied to
                src.generators.config.cfg AFTER the generator module has been imported, as src/args.py does)
  no-exception  any exception of any stage (RecursionError at the interpreter's own recursion limit included) is a
                violation; its kind is  <ExceptionType>@<innermost frame inside the repository: file:function>
  termination   every stage runs under a deterministic step budget (generation: calls of Generator.generate_expr;
                the other stages: calls of ASTVisitor.visit, relative to the size of the program) and the whole input
                under a last-resort CPU alarm; exceeding either is reported (a budget, not a proof of termination)
  erasure work  TypeErasure examines, per function, at most  max_combinations + 1  combinations after the
                one-per-candidate filtering pass (the budget the statement's anchor names); counted on the real
                src.analysis.type_dependency_analysis.is_combination_feasible
  nesting       with d = cfg.limits.max_depth, for the generated program p (maxima over the root-to-leaf AST paths):
                Nc(p) <= h(d) = max(2d+1, d+3)   expression nodes outside the uncharged positions (below)
                N(p)  <= f(d) = 2*h(d)           all expression nodes
                M(p)  <= g(d) = max(0, d-2)      compound expression nodes

Derivation of h, f, g from the generator's depth handling (src/generators/generator.py).  The counter `depth` is 1 at
top level; every declaration generator adds 1 before its body is generated, so the root expression of any body or
initialiser is generated at counter >= 2.  Every generator of an expression with sub-expressions adds >= 1 (3 for
conditionals) before generating them, EXCEPT in the uncharged positions: the receiver of a call / function reference,
the elements of an array expression, the right-hand side of an assignment (generated at the counter of their parent)
and the `is` test of a smart-cast conditional with its operand (built in place).  Declarations created on demand are
hoisted into an enclosing block, which only shortens paths.  So along an AST path the counter at which the
expression nodes were generated is non-decreasing, and strictly increasing from one charged node to the next.
 * get_generators offers the compound generators (conditional, is, field access, non-void call, logical / equality /
   comparison operator; one compound node per generator step, the `is` test belongs to its conditional) only while
   counter < d.  The compound nodes on a path - not counting a receiver, nor a call /
   assignment in statement position, which is how void expressions appear and which are generated regardless of
   depth - have strictly increasing counters in [2, d-1]: at most max(0, d-2) of them (g).
 * Below a compound node the counter is at most d+2; gen_new keeps nesting constructor calls while the counter of
   the arguments is <= 2d and then emits bottom constants for every non-primitive field; a lambda body adds one
   level.  Every expression node is therefore generated at a counter <= max(2d+2, d+4); a path starts at counter
   >= 2: at most max(2d+1, d+3) charged nodes (h).
 * An uncharged node costs nothing, but every charged level can be wrapped in one (class C(val x: Array<C2>) gives
   New > ArrayExpr > New > ...): f = 2h.  Longer runs of uncharged nodes (arrays of arrays, receivers of receivers)
   are limited only by the nesting of types, not by the depth counter; they are not covered by f and would be
   reported.  (A first version of this oracle allowed a constant 4 uncharged nodes per path, f = 2d+6; the input
   java/seed=102/depth=8 has N = 25 = 12 x (ArrayExpr > New) + bottom with Nc = 14 <= h(8) = 17: the allowance was
   an error of the oracle, not of the generator, and was corrected to one per level.)
"""
import hashlib
import os
import random
import signal
import sys
import time
import traceback

HERE = os.path.dirname(os.path.dirname(os.path.abspath(__file__)))
LANGS = ['java', 'kotlin', 'groovy', 'scala']
STAGES = ['generate', 'translate#0', 'TypeErasure', 'translate#1', 'TypeOverwriting', 'translate#2']
IMPORT_SEED = 12345          # seeds the global RNG before src.utils samples its word pool at import
DEFAULT_DEPTH = 6
DEFAULT_COMBINATIONS = 500000


# ---------------------------------------------------------------------------------------------------------------
# the oracle: the bounds h, f, g are derived (module docstring) from the generator's depth handling, as the property
# asks; the measurement uses only the public shape of the IR (Node.children(), class names)

def h_charged(max_depth):
    """charged nesting: the depth counter of the nodes on a path is strictly increasing in [2, max(2d+2, d+4)]"""
    return max(2 * max_depth + 1, max_depth + 3)


def f_nesting(max_depth):
    """plain nesting: every charged level may be wrapped in one uncharged node"""
    return 2 * h_charged(max_depth)


def g_compound(max_depth):
    return max(0, max_depth - 2)


def erasure_budget(max_combinations, candidates):
    """examined combinations per function: the candidates' filtering pass + (max_combinations + 1)"""
    return candidates + max_combinations + 1


GEN_STEP_CAP = 50000         # calls of Generator.generate_expr per program (largest seen on the fixed list: < 1000)
VISIT_FACTOR = 50            # ASTVisitor.visit calls per stage <= VISIT_FACTOR * AST nodes + 10000
RUNAWAY = 2000               # the erasure search is aborted this far beyond its budget (it is a finding at budget + 1)
CPU_ALARM = 900              # last resort, seconds of user CPU per input


# `Is` is not listed: it only occurs as the test of the Conditional built by the same generator step (gen_is_expr)
COMPOUND = ('Conditional', 'FieldAccess', 'FunctionCall', 'LogicalExpr', 'EqualityExpr', 'ComparisonExpr',
            'ArithExpr')


def measure(M, program):
    """dict(N, Nc, M, nodes, path_N, path_Nc, path_M) of a program, all maxima over the root-to-leaf paths of the AST
    (through declarations, blocks, call arguments):
    N  = number of Expr nodes on the path;
    Nc = number of Expr nodes on the path that are not in an uncharged position (receiver of a call / function
         reference, element of an array expression, right-hand side of an assignment, the `is` test of a smart-cast
         conditional and its operand -- the positions the generator fills without advancing its depth counter);
    M  = number of compound Expr nodes on the path, not counting a receiver of a call / function reference nor a
         call / assignment that is a direct statement of a block."""
    ast = M.ast
    Node = M.node.Node
    best = {'N': (0, ()), 'Nc': (0, ()), 'M': (0, ())}
    count = 0
    # iterative DFS (the measurement itself must not depend on the recursion limit)
    stack = [(program, None, 0, 0, 0, ())]
    while stack:
        n, parent, cn, cc, cm, path = stack.pop()
        count += 1
        if isinstance(n, ast.Expr):
            name = type(n).__name__
            receiver = (isinstance(parent, (ast.FunctionCall, ast.FunctionReference))
                        and getattr(parent, 'receiver', None) is n)
            uncharged = (receiver or isinstance(parent, ast.ArrayExpr)
                         or (isinstance(parent, ast.Assignment) and parent.expr is n)
                         or isinstance(n, ast.Is) or isinstance(parent, ast.Is))
            statement = isinstance(parent, ast.Block) and isinstance(n, (ast.FunctionCall, ast.Assignment))
            cn += 1
            path = path + (name + ('~' if uncharged else ''),)
            if not uncharged:
                cc += 1
            if name in COMPOUND and not receiver and not statement:
                cm += 1
            for k, v in (('N', cn), ('Nc', cc), ('M', cm)):
                if v > best[k][0]:
                    best[k] = (v, path)
        try:
            ch = list(n.children())
        except NotImplementedError:
            ch = []
        for c in ch:
            if isinstance(c, Node) and type(c).__module__ == ast.__name__:
                stack.append((c, n, cn, cc, cm, path))
    return dict(N=best['N'][0], Nc=best['Nc'][0], M=best['M'][0], nodes=count, path_N=list(best['N'][1]),
                path_Nc=list(best['Nc'][1]), path_M=list(best['M'][1]))


# ---------------------------------------------------------------------------------------------------------------
# loading the real code

class Budget(BaseException):
    """raised by the CPU-time alarm; BaseException so that no `except Exception` of the code under test eats it"""


class Mods:
    pass


def load(repo=None):
    repo = repo or os.environ.get('HEPH_REPO', '/repo')
    for m in [k for k in sys.modules if k == 'src' or k.startswith('src.') or k == 'hephaestus']:
        del sys.modules[m]
    sys.path[:] = [p for p in sys.path if p != repo]
    sys.path.insert(0, repo)
    import importlib
    random.seed(IMPORT_SEED)                     # BEFORE src.utils is imported
    M = Mods()
    M.repo = os.path.realpath(repo)
    M.node = importlib.import_module('src.ir.node')
    M.hash_counter = [0]

    def _hash(self, _c=M.hash_counter):
        h = self.__dict__.get('_verif_hash')
        if h is None:
            _c[0] += 1
            h = self.__dict__['_verif_hash'] = _c[0]
        return h
    M.node.Node.__hash__ = _hash                 # before any node exists; identity __eq__ untouched
    M.utils = importlib.import_module('src.utils')
    M.ast = importlib.import_module('src.ir.ast')
    # same import order as hephaestus.py -> src/args.py: processor (generator, transformations) first, cfg later
    M.processor = importlib.import_module('src.modules.processor')
    M.generator = importlib.import_module('src.generators.generator')
    M.config = importlib.import_module('src.generators.config')
    M.tda = importlib.import_module('src.analysis.type_dependency_analysis')
    M.erasure = importlib.import_module('src.transformations.type_erasure')
    M.overwriting = importlib.import_module('src.transformations.type_overwriting')
    M.translators = {
        'java': importlib.import_module('src.translators.java').JavaTranslator,
        'kotlin': importlib.import_module('src.translators.kotlin').KotlinTranslator,
        'groovy': importlib.import_module('src.translators.groovy').GroovyTranslator,
        'scala': importlib.import_module('src.translators.scala').ScalaTranslator,
    }
    M.initial_words = set(M.utils.random.INITIAL_WORDS)
    M.visitors = importlib.import_module('src.ir.visitors')
    M.counters = dict(generate_expr=0, windows=[], visits=0, visit_cap=0, assumed_pre=[])
    _instrument(M)
    return M


def _instrument(M):
    """counting wrappers only (they call the original with the same arguments and return its result)"""
    gen_cls = M.generator.Generator
    orig_ge = gen_cls.generate_expr

    def generate_expr(self, *a, **k):
        M.counters['generate_expr'] += 1
        if M.counters['generate_expr'] > GEN_STEP_CAP:
            raise Budget('generate_expr calls > %d' % GEN_STEP_CAP)
        return orig_ge(self, *a, **k)
    gen_cls.generate_expr = generate_expr

    # run-time check of the one precondition the proof part of C18 assumes (contracts/ranges.py, gen_type_params "count")
    orig_gtp = gen_cls.gen_type_params

    def gen_type_params(self, count=None, *a, **k):
        if count is not None and not (isinstance(count, int) and 0 <= count <= 4):
            M.counters['assumed_pre'].append(repr(count))
        return orig_gtp(self, count, *a, **k)
    gen_cls.gen_type_params = gen_type_params

    orig_visit = M.visitors.ASTVisitor.visit

    def visit(self, node):
        c = M.counters
        c['visits'] += 1
        if c['visit_cap'] and c['visits'] > c['visit_cap']:
            raise Budget('ASTVisitor.visit calls > %d' % c['visit_cap'])
        return orig_visit(self, node)
    M.visitors.ASTVisitor.visit = visit

    orig_feas = M.tda.is_combination_feasible

    def is_combination_feasible(type_graph, combination):
        w = M.counters['windows']
        if w and w[-1].get('open'):
            combination = tuple(combination)
            w[-1]['calls'] += 1
            w[-1]['nodes'].update(combination)
            if w[-1]['cap'] and w[-1]['calls'] > erasure_budget(w[-1]['cap'], len(w[-1]['nodes'])) + RUNAWAY:
                raise Budget('combinations examined in %s > budget + %d' % (w[-1]['func'], RUNAWAY))
        return orig_feas(type_graph, combination)
    M.tda.is_combination_feasible = is_combination_feasible

    # the candidate combinations must be drawn lazily: at most max_combinations + 2 tuples per function (a materialised
    # power set is 2^n tuples before the cap can bite).  type_erasure.py refers to the module name `itertools`.
    import itertools as _it

    class _CountingItertools:
        chain = _it.chain

        def __getattr__(self, name):
            return getattr(_it, name)

        @staticmethod
        def combinations(iterable, r):
            for c in _it.combinations(iterable, r):
                w = M.counters['windows']
                if w and w[-1].get('open'):
                    w[-1]['draws'] = w[-1].get('draws', 0) + 1
                    if w[-1]['cap'] and w[-1]['draws'] > w[-1]['cap'] + 2 + RUNAWAY:
                        raise Budget('combinations drawn in %s > max_combinations + %d' % (w[-1]['func'], 2 + RUNAWAY))
                yield c
    if getattr(M.erasure, 'itertools', None) is _it:
        M.erasure.itertools = _CountingItertools()

    te = M.erasure.TypeErasure
    orig_vfd = te.visit_func_decl

    def visit_func_decl(self, node):
        win = dict(open=True, calls=0, nodes=set(), func=getattr(node, 'name', '?'),
                   cap=getattr(self, 'max_combinations', 0))
        M.counters['windows'].append(win)
        try:
            return orig_vfd(self, node)
        finally:
            win['open'] = False
    te.visit_func_decl = visit_func_decl


# ---------------------------------------------------------------------------------------------------------------
# one input

def task_key(t):
    return '%s/seed=%d/depth=%d/%s' % (t['lang'], t['seed'], t.get('max_depth', DEFAULT_DEPTH), switches_str(t))


def switches_str(t):
    on = [k for k in ('disable_use_site_variance', 'disable_contravariance_use_site',
                      'disable_bounded_type_parameters', 'disable_parameterized_functions', 'cast_numbers')
          if t.get(k)]
    if t.get('max_combinations') is not None:
        on.append('max_combinations=%d' % t['max_combinations'])
    if t.get('timeout') is not None:
        on.append('timeout=%s' % t['timeout'])
    return ','.join(on) or 'default'


def configure(M, t):
    """what src/args.py does with the command line, on a cfg reset to its defaults"""
    cfg = M.config.cfg
    cfg.__init__()
    cfg.dis.use_site_variance = bool(t.get('disable_use_site_variance'))
    cfg.dis.use_site_contravariance = bool(t.get('disable_contravariance_use_site'))
    cfg.limits.max_depth = t.get('max_depth', DEFAULT_DEPTH)
    if t.get('disable_bounded_type_parameters'):
        cfg.prob.bounded_type_parameters = 0
    if t.get('disable_parameterized_functions'):
        cfg.prob.parameterized_functions = 0
    r = M.utils.random
    r.INITIAL_WORDS = set(M.initial_words)
    r.WORDS = set(M.initial_words)
    r.remove_reserved_words(t['lang'])
    r.r.seed(t['seed'])
    M.hash_counter[0] = 0
    M.counters['generate_expr'] = 0
    M.counters['windows'] = []
    M.counters['assumed_pre'] = []


def _frame(M, exc):
    tb = traceback.extract_tb(exc.__traceback__)
    inner = None
    for fr in tb:
        fn = os.path.realpath(fr.filename)
        if fn.startswith(M.repo + os.sep):
            inner = (os.path.relpath(fn, M.repo), fr.name, fr.lineno)
    trail = ['%s:%s:%d' % (os.path.basename(fr.filename), fr.name, fr.lineno) for fr in tb[-8:]]
    return inner, trail


def run_task(M, t, cpu_alarm=CPU_ALARM):
    """runs the six stages on the real code; returns a record with measurements and a list of findings
    (kind, detail) -- empty iff the property holds on this input"""
    configure(M, t)
    lang = t['lang']
    md = t.get('max_depth', DEFAULT_DEPTH)
    rec = dict(key=task_key(t), stage_done=[], findings=[], N=0, Nc=0, M=0, nodes=0, steps={})
    topts = {'timeout': 600 if t.get('timeout') is None else t['timeout']}
    eopts = dict(topts)
    if t.get('max_combinations') is not None:
        eopts['max_combinations'] = t['max_combinations']
    maxc = eopts.get('max_combinations', DEFAULT_COMBINATIONS)
    r = M.utils.random
    C = M.counters
    cur = ['setup']
    t0 = time.process_time()

    def stage(name, fn):
        cur[0] = name
        C['visits'] = 0
        C['visit_cap'] = VISIT_FACTOR * rec['nodes'] + 10000 if name != STAGES[0] else 0
        res = fn()
        rec['stage_done'].append(name)
        rec['steps'][name] = C['generate_expr'] if name == STAGES[0] else C['visits']
        return res

    if cpu_alarm:
        def _alarm(sig, frm):
            raise Budget('user CPU > %d s' % cpu_alarm)
        try:
            old = signal.signal(signal.SIGVTALRM, _alarm)
            signal.setitimer(signal.ITIMER_VIRTUAL, cpu_alarm)
        except ValueError:            # not the main thread: step budgets only
            cpu_alarm = 0
    try:
        # hephaestus._run: reset_word_pool, two package names; gen_program: reset_word_pool, translator, generate
        r.reset_word_pool()
        packages = (r.word(), r.word())
        r.reset_word_pool()
        translator = M.translators[lang]('src.' + packages[0], {'cast_numbers': bool(t.get('cast_numbers'))})
        texts = []
        program = stage(STAGES[0], lambda: M.generator.Generator(language=lang, options={}).generate())
        m = measure(M, program)
        rec.update(N=m['N'], Nc=m['Nc'], M=m['M'], nodes=m['nodes'])
        for kind, key, bound, fn in (
                ('nesting', 'N', f_nesting(md), 'src.generators.generator.Generator.generate_expr'),
                ('charged-nesting', 'Nc', h_charged(md), 'src.generators.generator.Generator.gen_new'),
                ('compound-nesting', 'M', g_compound(md), 'src.generators.generator.Generator.get_generators')):
            if m[key] > bound:
                rec['findings'].append((kind, dict(function=fn, measured=m[key], bound=bound, max_depth=md,
                                                   path=m['path_' + key])))
        if C['assumed_pre']:
            rec['findings'].append(('assumed-precondition:gen_type_params.count', dict(
                function='src.generators.generator.Generator.gen_type_params', counts=C['assumed_pre'][:5],
                note='the proof obligation gen_type_params/site[call ut.random.integer]/inv[non-empty-range] assumes '
                     'count is None or 0 <= count <= 4')))
        texts.append(stage(STAGES[1], lambda: M.utils.translate_program(translator, program)))

        def erase():
            te = M.erasure.TypeErasure(program, lang, None, eopts)
            try:
                te.transform()
            finally:
                wins = C['windows']
                rec['erasure_functions'] = len(wins)
                rec['erasure_max_examined'] = max([w['calls'] for w in wins] or [0])
                for w in wins:
                    if maxc and w['calls'] > erasure_budget(maxc, len(w['nodes'])):
                        rec['findings'].append(('erasure-budget', dict(
                            function='src.transformations.type_erasure.TypeErasure.visit_func_decl',
                            in_function=w['func'], examined=w['calls'], candidates=len(w['nodes']),
                            max_combinations=maxc, bound=erasure_budget(maxc, len(w['nodes'])))))
                        break
                for w in wins:
                    if maxc and w.get('draws', 0) > maxc + 2:
                        rec['findings'].append(('erasure-budget', dict(
                            function='src.transformations.type_erasure.TypeErasure.visit_func_decl',
                            in_function=w['func'], drawn=w.get('draws', 0), candidates=len(w['nodes']),
                            max_combinations=maxc, bound=maxc + 2,
                            note='candidate combinations drawn from the power set before / beyond the cap')))
                        break
            rec['erased'] = bool(te.is_transformed)
            return te.result()
        program = stage(STAGES[2], erase)
        texts.append(stage(STAGES[3], lambda: M.utils.translate_program(translator, program)))

        def overwrite():
            translator.package = 'src.' + packages[1]
            to = M.overwriting.TypeOverwriting(program, lang, None, topts)
            to.transform()
            rec['injected'] = bool(to.is_transformed)
            return to.result()
        program = stage(STAGES[4], overwrite)
        texts.append(stage(STAGES[5], lambda: M.utils.translate_program(translator, program)))
        rec['N_final'] = measure(M, program)['N']
        rec['text_sha'] = hashlib.sha256('\x00'.join(texts).encode()).hexdigest()[:16]
    except Budget as b:
        if not any(k == 'erasure-budget' for k, _ in rec['findings']):
            rec['findings'].append(('budget:' + cur[0], dict(function=_stage_function(cur[0]), stage=cur[0],
                                                            exceeded=str(b))))
    except Exception as exc:   # noqa: the property forbids every exception
        inner, trail = _frame(M, exc)
        where = '%s:%s' % (inner[0], inner[1]) if inner else 'outside-repo'
        if isinstance(exc, RecursionError):
            where = 'stage:' + cur[0]     # the frame where the interpreter's limit is hit is arbitrary
        rec['findings'].append(('exception:%s@%s' % (type(exc).__name__, where),
                                dict(function=_stage_function(cur[0]), stage=cur[0], exception=type(exc).__name__,
                                     message=str(exc)[:200], innermost_repo_frame=list(inner) if inner else None,
                                     trail=trail)))
    finally:
        C['visit_cap'] = 0
        if cpu_alarm:
            signal.setitimer(signal.ITIMER_VIRTUAL, 0)
            signal.signal(signal.SIGVTALRM, old)
    rec['cpu_s'] = round(time.process_time() - t0, 3)
    return rec


def _stage_function(stage):
    return {
        'generate': 'src.generators.generator.Generator.generate',
        'TypeErasure': 'src.transformations.type_erasure.TypeErasure.transform',
        'TypeOverwriting': 'src.transformations.type_overwriting.TypeOverwriting.transform',
    }.get(stage, 'src.utils.translate_program' if stage.startswith('translate') else 'hephaestus.gen_program')


# ---------------------------------------------------------------------------------------------------------------
# the input set

SWITCHES = ['disable_use_site_variance', 'disable_contravariance_use_site', 'disable_bounded_type_parameters',
            'disable_parameterized_functions']


def tasks_for(tier, seed):
    """fixed list first (never depends on VERIF_SEED), then the VERIF_SEED extension"""
    T = []

    def add(lang, s, **kw):
        t = dict(lang=lang, seed=s)
        t.update(kw)
        T.append(t)
    quick = tier == 'quick'
    all_on = {k: True for k in SWITCHES}
    # default options
    for lang in LANGS:
        for s in range(1, (8 if quick else 50) + 1):
            add(lang, s)
    # depth limits (programs at limits 7, 8 cost minutes each: few of them)
    for lang in LANGS:
        for md, n in (((1, 1), (2, 1), (3, 1), (4, 1)) if quick else
                      ((1, 5), (2, 5), (3, 5), (4, 5), (5, 5), (7, 1), (8, 1))):
            for s in range(101, 101 + n):
                add(lang, s, max_depth=md)
    # option switches: quick = 2 combinations; thorough = all 15 non-default combinations of the 4 generator switches
    # (+ cast_numbers on the odd ones)
    if quick:
        combos = [{SWITCHES[0]: True}, dict(all_on, cast_numbers=True)]
        sw_seeds = range(201, 202)
    else:
        combos = []
        for bits in range(1, 16):
            c = {k: True for i, k in enumerate(SWITCHES) if bits >> i & 1}
            if bits % 2:
                c['cast_numbers'] = True
            combos.append(c)
        sw_seeds = range(201, 203)
    for lang in LANGS:
        for c in combos:
            for s in sw_seeds:
                add(lang, s, **c)
    # transformation options: a small combination budget, an (already expired) visitor timeout
    for lang in LANGS:
        for s in (range(301, 303) if quick else range(301, 309)):
            add(lang, s, max_combinations=1 + s % 2)
        for s in (range(401, 402) if quick else range(401, 403)):
            if not quick or lang == 'java':
                add(lang, s, timeout=0)
    # switches x depth x budget, thorough only
    if not quick:
        for lang in LANGS:
            for md in (2, 4):
                for s in range(501, 503):
                    add(lang, s, max_depth=md, max_combinations=1, **all_on)
    rnd = random.Random(seed)
    for lang in LANGS:
        for _ in range(1 if quick else 8):
            add(lang, rnd.randrange(1000, 10 ** 9))
        for _ in range(1 if quick else 4):
            add(lang, rnd.randrange(1000, 10 ** 9), max_depth=rnd.choice([1, 2, 3, 4, 5]),
                max_combinations=rnd.choice([None, 1, 2, 3]),
                **{k: True for k in SWITCHES if rnd.random() < 0.5})
    return T


_W = {}


def _worker_init(repo):
    _W['M'] = load(repo)


def _worker(args):
    i, t = args
    try:
        return i, t, run_task(_W['M'], t)
    except BaseException as e:   # harness problem, not a verdict
        return i, t, dict(key=task_key(t), harness_error=repr(e) + traceback.format_exc()[-600:], findings=[],
                          stage_done=[], N=0, Nc=0, M=0, nodes=0, cpu_s=0)


def run(tier, seed, stop_first=False, workers=None):
    repo = os.environ.get('HEPH_REPO', '/repo')
    tier = 'quick' if tier == 'quick' else 'thorough'
    tasks = tasks_for(tier, seed)
    if workers is None:
        workers = int(os.environ.get('VERIF_WORKERS', '0') or 0) or min(8, os.cpu_count() or 1)
    t0 = time.time()
    results = []
    # scheduling only: the inputs with the largest depth limit are the slowest, start them first
    order = sorted(enumerate(tasks), key=lambda it: -it[1].get('max_depth', DEFAULT_DEPTH))
    if workers <= 1:
        _worker_init(repo)
        for it in (list(enumerate(tasks)) if stop_first else order):
            results.append(_worker(it))
            if stop_first and results[-1][2]['findings']:
                break
    else:
        import multiprocessing as mp
        ctx = mp.get_context('fork')
        with ctx.Pool(workers, initializer=_worker_init, initargs=(repo,)) as pool:
            for res in pool.imap_unordered(_worker, order, chunksize=1):
                results.append(res)
                if stop_first and res[2]['findings']:
                    pool.terminate()
                    break
    results.sort(key=lambda r: r[0])      # report in list order: deterministic whatever the scheduling
    violations = []
    kinds = set()
    nontrivial = set()
    samples = []
    harness_errors = []
    stats = dict(max_N=0, max_Nc=0, max_M=0, max_nodes=0, max_generate_expr_calls=0, max_erasure_examined=0,
                 max_visits_per_node=0, erased=0, injected=0, all_stages=0, cpu_s=0.0, max_cpu_s=0.0, by_depth={})
    for _, t, rec in results:
        if rec.get('harness_error'):
            harness_errors.append(rec['key'] + ': ' + rec['harness_error'])
            continue
        md = t.get('max_depth', DEFAULT_DEPTH)
        for k in ('N', 'Nc', 'M', 'nodes'):
            stats['max_' + k] = max(stats['max_' + k], rec[k])
        stats['max_generate_expr_calls'] = max(stats['max_generate_expr_calls'], rec['steps'].get(STAGES[0], 0))
        stats['max_erasure_examined'] = max(stats['max_erasure_examined'], rec.get('erasure_max_examined', 0))
        stats['erased'] += bool(rec.get('erased'))
        stats['injected'] += bool(rec.get('injected'))
        stats['all_stages'] += len(rec['stage_done']) == len(STAGES)
        stats['cpu_s'] = round(stats['cpu_s'] + rec['cpu_s'], 1)
        stats['max_cpu_s'] = max(stats['max_cpu_s'], rec['cpu_s'])
        for st, n in rec['steps'].items():
            if st != STAGES[0] and rec['nodes']:
                stats['max_visits_per_node'] = max(stats['max_visits_per_node'], round(n / rec['nodes'], 1))
        d = stats['by_depth'].setdefault(str(md), dict(inputs=0, max_N=0, f=f_nesting(md), max_Nc=0, h=h_charged(md),
                                                       max_M=0, g=g_compound(md)))
        d['inputs'] += 1
        for k in ('N', 'Nc', 'M'):
            d['max_' + k] = max(d['max_' + k], rec[k])
        if len(rec['stage_done']) == len(STAGES) and rec['nodes'] >= 50 and rec['N'] >= 2:
            nontrivial.add((rec['key'], rec.get('text_sha')))
        if len(samples) < 3 and len(rec['stage_done']) == len(STAGES):
            samples.append(dict(input=rec['key'], nodes=rec['nodes'], N=rec['N'], Nc=rec['Nc'], M=rec['M'],
                                steps=rec['steps'], erased=rec.get('erased'), injected=rec.get('injected'),
                                text_sha=rec.get('text_sha')))
        for kind, detail in rec['findings']:
            if kind in kinds:
                continue
            kinds.add(kind)
            v = dict(check='bounded[%s]' % kind, function=detail.get('function'), input=dict(t), key=rec['key'])
            v.update({k: x for k, x in detail.items() if k != 'function'})
            violations.append(v)
    out = dict(
        evaluations=sum(len(rec['stage_done']) + bool(rec['findings']) for _, _, rec in results),
        inputs=len(results),
        distinct_nontrivial=len(nontrivial),
        rule=('%d inputs (language x seed x option switches x depth limit d; fixed list + VERIF_SEED extension), each '
              'through the 6 stages generate, translate, TypeErasure, translate, TypeOverwriting, translate of the '
              'real code (cfg set after import, as src/args.py does); an evaluation is one stage run. Checked per '
              'input: no exception in any stage (kind = type @ innermost repository frame; interpreter recursion limit '
              '%d untouched); step budgets (generate_expr calls <= %d; ASTVisitor.visit calls per later stage <= '
              '%d*nodes + 10000; last-resort alarm %d s user CPU); TypeErasure examines <= candidates + '
              'max_combinations + 1 combinations per function; expression nesting of the generated program: '
              'Nc <= h(d) = max(2d+1, d+3) (Expr nodes on an AST path outside the positions the generator fills '
              'without advancing its depth counter: call / function-reference receivers, array elements, assignment '
              'right-hand sides, `is` tests), N <= f(d) = 2*h(d) (all Expr nodes on a path; one uncharged node per '
              'charged level), M <= g(d) = max(0, d-2) (compound nodes: conditional, field access, call, '
              'operators; not counting receivers and statement-position calls). Derivation (specs/pipeline_ref.py): '
              'counter is 1 at top level, +1 per declaration, >= +1 per nested expression, compound generators only '
              'while counter < d, gen_new emits bottom constants beyond 2d, a lambda adds one level. An input is '
              'non-trivial if all 6 stages ran, the program has >= 50 AST nodes and N >= 2; distinct by input key and '
              'text of the three translations. Not checkable in this domain: "for every seed" (finite list), '
              'termination (budgets only), the visitor timeout (it only sets a flag that is read after the visitor '
              'has returned; exercised with timeout=0 for exceptions only)'
              % (len(results), sys.getrecursionlimit(), GEN_STEP_CAP, VISIT_FACTOR, CPU_ALARM)),
        samples=samples, stats=stats, violations=violations, exhaustive=False,
        wall_s=round(time.time() - t0, 1), workers=workers)
    if harness_errors:
        out['harness_errors'] = harness_errors[:5]
    return out


def replay(fi, verbose=True):
    """re-executes the recorded input on the current tree (HEPH_REPO); True iff the property holds on it (no finding
    of any kind); the recorded kind is printed first when it reproduces"""
    M = load(os.environ.get('HEPH_REPO', '/repo'))
    t = dict(fi['input'])
    rec = run_task(M, t)
    kind = (fi.get('check') or 'bounded[]')[len('bounded['):-1]
    if verbose:
        for k, d in sorted(rec['findings'], key=lambda kd: kd[0] != kind):
            print('input %s: %s%s: %s' % (rec['key'], '' if k == kind or not kind else '(not the recorded kind) ', k,
                                          {a: b for a, b in d.items() if a != 'function'}))
        if not rec['findings']:
            md = t.get('max_depth', DEFAULT_DEPTH)
            print('input %s: all 6 stages ran without exception and within budget, N=%d (<= %d), Nc=%d (<= %d), '
                  'M=%d (<= %d)' % (rec['key'], rec['N'], f_nesting(md), rec['Nc'], h_charged(md), rec['M'],
                                    g_compound(md)))
    return not rec['findings']


if __name__ == '__main__':
    import json
    tier = sys.argv[1] if len(sys.argv) > 1 else 'quick'
    r = run(tier, int(os.environ.get('VERIF_SEED', '0') or 0))
    print(json.dumps(r, indent=1, default=str))
