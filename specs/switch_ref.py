"""Executable reference / oracle and driver for C17 "generation switches are honoured".

Written FROM THE PROPERTY STATEMENT, not from the generator:

  (usv)  use-site variance disabled        => no type occurrence of the program is a use-site projection
                                              (a projected type argument `out T` / `in T` / `*`, `? extends T` ...)
  (usc)  use-site contravariance disabled  => no type occurrence is a contravariant projection (`in T`, `? super T`)
  (btp)  bounded type parameters disabled  => no type parameter (declared or referenced) has a bound
  (pf)   parameterized functions disabled  => no function declaration declares type parameters
  (decl) language without declaration-site variance (Java, Groovy: only wildcards exist there)
                                           => no type parameter declared by the program is variant
  (fun)  every language                    => no type parameter of a function is variant

"Every type occurrence" is taken literally: the object graph reachable from the Program object (the declarations,
every attribute of every AST node, the symbol table) is traversed, and every type found is opened recursively
(type arguments, bounds, supertypes, the constructor of a parameterized type with its own parameters and
supertypes).  Nothing of the generator's logic is consulted; the only notion taken from outside the statement is
which type constructors are *library* types rather than program declarations (a constructor whose name is not a
class declared by the program, e.g. Java's covariant built-in Array or Kotlin's FunctionN<in A, out R>): their own
parameter lists are not "declared by the program" and are exempt from (decl) only.

The module also drives the real code: generate(lang, seed, switches) on the real generator with the configuration
object set directly, and cli(...) which re-imports src.args with a command line to check that the four
command-line switches reach the generator (the configuration object afterwards, and the programs generated under it).

Determinism: the global RNG is seeded before src.utils is imported (word pool), src.ir.node.Node gets a
counter-based __hash__ before any node exists (identity __eq__ untouched), and every generation starts from the same
word pool / counter / RNG state, so (language, seed, switches) identifies the program whatever was generated before
(run with PYTHONHASHSEED=0).  A generation is abandoned -- counted, not judged -- after a fixed number of deep-copied
objects (a deterministic measure of the generator's work), so the evaluated set does not depend on machine load;
only the wall-clock deadline of a tier can cut a run short, and then the number of generations not run is reported.

    python3-vt specs/switch_ref.py quick|thorough [VERIF_SEED]      prints the result of run() as JSON
"""
import importlib
import itertools
import os
import random
import sys
import time

HERE = os.path.dirname(os.path.dirname(os.path.abspath(__file__)))

LANGS = ['java', 'kotlin', 'groovy', 'scala']
NO_DECL_SITE_VARIANCE = ('java', 'groovy')
SWITCHES = ('usv', 'usc', 'btp', 'pf')
FLAGS = {'usv': '--disable-use-site-variance', 'usc': '--disable-contravariance-use-site',
         'btp': '--disable-bounded-type-parameters', 'pf': '--disable-parameterized-functions'}
COMBOS = [dict(zip(SWITCHES, bits)) for bits in itertools.product((False, True), repeat=4)]
IMPORT_SEED = 20240917       # seeds the global RNG before src.utils samples its word pool
BASE_SEEDS = list(range(1, 25))


def combo_key(c):
    return ''.join('1' if c[s] else '0' for s in SWITCHES)


def combo_of(key):
    return {s: key[i] == '1' for i, s in enumerate(SWITCHES)}


# ----------------------------------------------------------------------------------------------------------------
# loading the real code, deterministically
# ----------------------------------------------------------------------------------------------------------------

class Env:
    pass


def _repo():
    return os.environ.get('HEPH_REPO', '/repo')


def load(repo=None):
    """import the real code from `repo` (purging earlier imports), with the two sources of nondeterminism
    neutralised from the harness side, and with creation-site labels on projections / type parameters"""
    repo = repo or _repo()
    for m in [k for k in sys.modules if k in ('src', 'hephaestus') or k.startswith('src.')]:
        del sys.modules[m]
    sys.path[:] = [p for p in sys.path if p != repo]
    sys.path.insert(0, repo)
    random.seed(IMPORT_SEED)                     # BEFORE src.utils: it samples the word pool at import
    node = importlib.import_module('src.ir.node')
    counter = {'n': 0}

    def __hash__(self):                          # identity __eq__ untouched; only set iteration order is fixed
        h = self.__dict__.get('_vhash')
        if h is None:
            counter['n'] += 1
            h = self.__dict__['_vhash'] = counter['n']
        return h
    node.Node.__hash__ = __hash__
    e = Env()
    e.repo = repo
    e.counter = counter
    e.node = node
    e.utils = importlib.import_module('src.utils')
    e.tp = importlib.import_module('src.ir.types')
    e.ast = importlib.import_module('src.ir.ast')
    e.context = importlib.import_module('src.ir.context')
    e.config = importlib.import_module('src.generators.config')
    e.cfg = e.config.cfg
    e.generator = importlib.import_module('src.generators.generator')
    importlib.import_module('src.modules.processor')     # everything src.args needs, so that re-importing it is cheap
    e.defaults = (e.cfg.dis.use_site_variance, e.cfg.dis.use_site_contravariance,
                  e.cfg.prob.bounded_type_parameters, e.cfg.prob.parameterized_functions)
    e.words = sorted(e.utils.RandomUtils.INITIAL_WORDS)
    _label_sites(e)
    sys.setrecursionlimit(max(sys.getrecursionlimit(), 5000))
    return e


def _label_sites(e):
    """every WildCardType / TypeParameter remembers the function of /repo that constructed it (a label used only to
    name the violation kind; copies made from an existing object inherit the label of that object)"""
    def wrap(cls, inherit_from):
        orig = cls.__init__

        def __init__(self, *a, **k):
            orig(self, *a, **k)
            f = sys._getframe(1)
            lab = None
            for nm in inherit_from:
                src = f.f_locals.get(nm)
                if isinstance(src, cls) and src is not self and f.f_code.co_filename.endswith('/ir/types.py'):
                    lab = getattr(src, '_vorigin', None)
                    if lab:
                        break
            if not lab:
                fn = f.f_code.co_filename
                fn = fn[len(e.repo) + 1:] if fn.startswith(e.repo + '/') else os.path.basename(fn)
                lab = '%s:%s' % (fn, getattr(f.f_code, 'co_qualname', f.f_code.co_name))
            self._vorigin = lab
        cls.__init__ = __init__
    wrap(e.tp.WildCardType, ('etype',))
    wrap(e.tp.TypeParameter, ('etype', 't_param'))


def set_switches(e, combo):
    """the documented effect of the four switches on the configuration object (DESIGN C17 / src/generators/config.py)"""
    d = e.defaults
    e.cfg.dis.use_site_variance = bool(combo['usv'])
    e.cfg.dis.use_site_contravariance = bool(combo['usc'])
    e.cfg.prob.bounded_type_parameters = 0 if combo['btp'] else d[2]
    e.cfg.prob.parameterized_functions = 0 if combo['pf'] else d[3]


def _prepare(e, lang, seed):
    """history-independent start state for one generation (so that (lang, seed, switches) identifies the program)"""
    r = e.utils.random
    r.INITIAL_WORDS = set(e.words)
    r.WORDS = set(e.words)
    r.remove_reserved_words(lang)               # what the command line does for the selected language
    r.reset_word_pool()
    r.r.seed(seed)
    e.counter['n'] = 0


def generate(e, lang, seed, combo):
    set_switches(e, combo)
    _prepare(e, lang, seed)
    return e.generator.Generator(language=lang).generate()


def cli(e, combo, lang, extra=()):
    """drive the real command line: re-import src.args with sys.argv carrying the switches of `combo`; returns
    (args module | None, error text | None).  The configuration is first put back to its defaults."""
    set_switches(e, dict.fromkeys(SWITCHES, False))
    argv = ['hephaestus.py', '--iterations', '1', '--language', lang] + [FLAGS[s] for s in SWITCHES if combo[s]]
    argv += list(extra)
    old = sys.argv
    sys.modules.pop('src.args', None)
    sys.argv = argv
    try:
        return importlib.import_module('src.args'), None
    except SystemExit as ex:
        return None, 'SystemExit(%r) on %r' % (ex.code, argv)
    finally:
        sys.argv = old
        sys.modules.pop('src.args', None)


# ----------------------------------------------------------------------------------------------------------------
# the walk over every type occurrence
# ----------------------------------------------------------------------------------------------------------------

class Occ:
    """one occurrence: a type object or a declaration, with the access path that reached it first"""
    __slots__ = ('obj', 'path', 'libparam', 'fscope', 'cscope')

    def __init__(s, obj, path, libparam, fscope, cscope):
        s.obj, s.path, s.libparam, s.fscope, s.cscope = obj, path, libparam, fscope, cscope


def walk(e, program):
    """returns (type occurrences, function declarations, class declarations, declared class names) of everything
    reachable from `program`.
    fscope / cscope: names of the type parameters declared by the enclosing functions / classes."""
    tp, ast = e.tp, e.ast
    Node, Type = e.node.Node, tp.Type
    types, funcs, classes = [], [], []
    user_classes = set()
    seen = {}
    keep = []
    # phase 0: names of the classes the program declares (everything else is a library type)
    st = [program]
    s0 = set()
    while st:
        o = st.pop()
        if id(o) in s0:
            continue
        s0.add(id(o))
        if isinstance(o, ast.ClassDeclaration):
            user_classes.add(o.name)
        if isinstance(o, Type):
            continue
        if isinstance(o, (list, tuple, set, frozenset)):
            st.extend(o)
        elif isinstance(o, dict):
            st.extend(o.values())
        elif isinstance(o, (Node, e.context.Context)):
            st.extend(vars(o).values())

    def children(o):
        if isinstance(o, (list, tuple)):
            return [('[%d]' % i, x) for i, x in enumerate(o)]
        if isinstance(o, (set, frozenset)):
            return [('{}', x) for x in o]
        if isinstance(o, dict):
            out = []
            for k, v in o.items():
                out.append(('<key>', k))
                out.append(('[%s]' % (k if isinstance(k, str) else '/'.join(map(str, k)) if isinstance(k, tuple)
                                      else type(k).__name__), v))
            return out
        if isinstance(o, (Node, e.context.Context)):
            return [('.' + k, v) for k, v in vars(o).items() if k not in ('_vhash', '_vorigin')]
        return []

    # phase 1: the declarations as a tree (gives the scopes), phase 2: whatever else the Program object holds
    roots = [('decl', d) for d in program.context.get_declarations(('global',), only_current=True).values()]
    roots.append(('program', program))
    stack = [(o, p, False, frozenset(), frozenset()) for p, o in reversed(roots)]
    while stack:
        o, path, libparam, fscope, cscope = stack.pop()
        if o is None or isinstance(o, (str, int, float, bool, bytes, tp.Variance)):
            continue
        key = (id(o), libparam)
        if key in seen:
            continue
        seen[key] = True
        keep.append(o)
        if isinstance(o, Type):
            types.append(Occ(o, path, libparam, fscope, cscope))
            lib_con = isinstance(o, tp.TypeConstructor) and o.name not in user_classes
            for lab, c in reversed(children(o)):
                is_lp = lib_con and lab == '.type_parameters'
                if is_lp:
                    for sub, cc in reversed(children(c)):
                        stack.append((cc, path + lab + sub, True, fscope, cscope))
                else:
                    stack.append((c, path + lab, False, fscope, cscope))
            continue
        if isinstance(o, ast.FunctionDeclaration):
            funcs.append(Occ(o, path, False, fscope, cscope))
            fscope = fscope | {t.name for t in (o.type_parameters or []) if isinstance(t, tp.TypeParameter)}
            path = path + '/fun ' + str(o.name)
        elif isinstance(o, ast.ClassDeclaration):
            classes.append(Occ(o, path, False, fscope, cscope))
            cscope = cscope | {t.name for t in (o.type_parameters or []) if isinstance(t, tp.TypeParameter)}
            path = path + '/class ' + str(o.name)
        elif isinstance(o, Node):
            path = path + '/' + type(o).__name__
        for lab, c in reversed(children(o)):
            stack.append((c, path + lab, False, fscope, cscope))
    return types, funcs, classes, user_classes


# ----------------------------------------------------------------------------------------------------------------
# the six clauses
# ----------------------------------------------------------------------------------------------------------------

def _variance(x):
    v = getattr(x, 'variance', None)
    val = getattr(v, 'value', v)
    return {0: 'invariant', 1: 'covariant', 2: 'contravariant', None: 'invariant'}.get(val, repr(val))


def check_program(e, program, lang, combo):
    """list of violations dict(kind, path, type, origin, detail) of the six clauses on one program, plus statistics
    of what the walk met (used to measure non-triviality)"""
    tp = e.tp
    types, funcs, classes, user_classes = walk(e, program)
    out = []
    stats = dict(types=len(types), projections=0, contra_projections=0, bounded_tparams=0, tparam_occurrences=0,
                 functions=len(funcs), parameterized_functions=0, classes=len(classes), parameterized_classes=0,
                 variant_class_tparams=0)

    def bad(kind, occ, detail):
        out.append(dict(kind=kind, path=occ.path, type=_show(occ.obj), detail=detail,
                        origin=getattr(occ.obj, '_vorigin', None)))

    for oc in types:
        t = oc.obj
        if isinstance(t, tp.WildCardType):
            stats['projections'] += 1
            var = _variance(t)
            if var == 'contravariant':
                stats['contra_projections'] += 1
            if combo['usv']:
                bad('usv:projection', oc, 'use-site projection (%s) although use-site variance is disabled' % var)
            if combo['usc'] and var == 'contravariant':
                bad('usc:contravariant-projection', oc,
                    'contravariant projection although use-site contravariance is disabled')
        if isinstance(t, tp.TypeParameter):
            stats['tparam_occurrences'] += 1
            if t.bound is not None:
                stats['bounded_tparams'] += 1
                if combo['btp']:
                    bad('btp:bounded-type-parameter', oc,
                        'type parameter %s has bound %s although bounded type parameters are disabled'
                        % (t.name, _show(t.bound)))
            var = _variance(t)
            if var != 'invariant' and not oc.libparam:
                # a reference to a type variable carries the variance of its declaration
                if t.name in oc.fscope and t.name not in oc.cscope:
                    bad('fun:variant-function-type-parameter(reference)', oc,
                        'reference to function type parameter %s is %s' % (t.name, var))
                elif lang in NO_DECL_SITE_VARIANCE:
                    bad('decl:variant-type-parameter(reference)', oc,
                        '%s type parameter %s in a %s program' % (var, t.name, lang))
    for oc in funcs:
        f = oc.obj
        tps = list(f.type_parameters or [])
        if tps:
            stats['parameterized_functions'] += 1
            if combo['pf']:
                bad('pf:function-type-parameters', oc, 'function %s declares type parameters %s although '
                    'parameterized functions are disabled' % (f.name, [str(x) for x in tps]))
        for q in tps:
            if _variance(q) != 'invariant':
                bad('fun:variant-function-type-parameter', oc,
                    'function %s declares %s type parameter %s' % (f.name, _variance(q), q.name))
    for oc in classes:
        c = oc.obj
        tps = list(c.type_parameters or [])
        if tps:
            stats['parameterized_classes'] += 1
        for q in tps:
            if _variance(q) != 'invariant':
                stats['variant_class_tparams'] += 1
                if lang in NO_DECL_SITE_VARIANCE:
                    bad('decl:variant-class-type-parameter', oc,
                        'class %s declares %s type parameter %s in a %s program' % (c.name, _variance(q), q.name, lang))
    if lang in NO_DECL_SITE_VARIANCE:
        # type constructors of program classes met inside types carry the declaration too
        for oc in types:
            t = oc.obj
            if isinstance(t, tp.TypeConstructor) and t.name in user_classes:
                for q in t.type_parameters:
                    if _variance(q) != 'invariant':
                        bad('decl:variant-class-type-parameter', oc,
                            'type constructor %s of a program class has %s type parameter %s in a %s program'
                            % (t.name, _variance(q), q.name, lang))
    return out, stats


def _show(t):
    try:
        if hasattr(t, 'variance') and hasattr(t, 'bound'):        # projection / type parameter: variance and bound
            return '%s %s' % (type(t).__name__, str(t))
        if hasattr(t, 'get_name') and not hasattr(t, 'params'):
            return '%s %s' % (type(t).__name__, t.get_name())
        return '%s %s' % (type(t).__name__, getattr(t, 'name', ''))
    except Exception as ex:      # printing must never hide a finding
        return '%s <unprintable: %r>' % (type(t).__name__, ex)


def origin_tag(v):
    o = v.get('origin')
    return o if o else 'unlabelled'


def check_name(v):
    k = v['kind']
    if k.startswith(('usv:', 'usc:', 'btp:')):
        return 'bounded[%s@%s]' % (k, origin_tag(v))
    return 'bounded[%s]' % k


def function_of(v):
    o = v.get('origin')
    if v['kind'].startswith(('usv:', 'usc:', 'btp:')) and o:
        fn, _, q = o.partition(':')
        return fn[:-3].replace('/', '.') + '.' + q if fn.endswith('.py') else o
    if v['kind'].startswith('pf:') or v['kind'].startswith('fun:'):
        return 'src.generators.generator.Generator.gen_func_decl'
    if v['kind'].startswith('decl:'):
        return 'src.generators.generator.Generator.gen_type_params'
    if v['kind'].startswith('cli:'):
        return 'src.args'
    return 'src.generators.generator.Generator.generate'


def nontrivial(stats, combo):
    """a (program, switches) input is non-trivial if at least one switch is on and the program exercises the
    construct each clause speaks about: it has parameterized types and type parameters at all"""
    return any(combo.values()) and stats['tparam_occurrences'] > 0 and stats['parameterized_classes'] > 0


# ----------------------------------------------------------------------------------------------------------------
# driver
# ----------------------------------------------------------------------------------------------------------------

class Abandon(BaseException):
    """raised by the work budget of one generation (BaseException: no handler of /repo may swallow it)"""


def _alarm(signum, frame):
    raise Abandon('cpu')


def eval_one(e, lang, seed, combo, via_cli=False, budget=None):
    """generate one program with the real generator and evaluate the six clauses on it
    -> dict(violations, stats, error, work).
    budget = (objects, cpu seconds): the generation is abandoned after that many objects were deep-copied (the
    generator's cost is dominated by deepcopy of type constructors; the count is deterministic, so the same
    generations are abandoned on every run) or, as a safety net only, after that much CPU time"""
    import copy
    import signal
    max_work, cpu = budget or (None, None)
    armed = False
    work = [0]
    orig = copy._reconstruct

    def counted(*a, **k):
        work[0] += 1
        if max_work and work[0] > max_work:
            raise Abandon('work')
        return orig(*a, **k)
    if cpu:
        try:
            signal.signal(signal.SIGVTALRM, _alarm)
            signal.setitimer(signal.ITIMER_VIRTUAL, cpu)
            armed = True
        except ValueError:      # not in the main thread: no timer
            armed = False
    copy._reconstruct = counted
    try:
        try:
            if via_cli:
                mod, err = cli(e, combo, lang)
                if err:
                    return dict(violations=[dict(kind='cli:command-line-rejected', path='', type='', detail=err,
                                                 origin=None)], stats=None, error=None, work=work[0])
                vio = cli_cfg_violations(e, combo)
                _prepare(e, lang, seed)
                prog = e.generator.Generator(language=lang).generate()
            else:
                vio = []
                prog = generate(e, lang, seed, combo)
        finally:
            copy._reconstruct = orig
            if armed:
                signal.setitimer(signal.ITIMER_VIRTUAL, 0)
    except Abandon as ex:
        return dict(violations=[], stats=None, work=work[0],
                    error='abandoned (%s)' % ('more than %d objects copied' % max_work if ex.args == ('work',)
                                              else 'cpu safety net %ss' % cpu))
    except RecursionError:
        return dict(violations=[], stats=None, error='RecursionError', work=work[0])
    except Exception as ex:     # generator failures are C18's subject; counted, not judged here
        return dict(violations=[], stats=None, error='%s: %s' % (type(ex).__name__, str(ex)[:100]), work=work[0])
    v, stats = check_program(e, prog, lang, combo)
    return dict(violations=vio + v, stats=stats, error=None, work=work[0])


def cli_cfg_violations(e, combo):
    """after the command line was processed the configuration must be what the switches mean"""
    c = e.cfg
    d = e.defaults
    out = []
    exp = dict(usv=('dis.use_site_variance', c.dis.use_site_variance, bool(combo['usv'])),
               usc=('dis.use_site_contravariance', c.dis.use_site_contravariance, bool(combo['usc'])),
               btp=('prob.bounded_type_parameters', c.prob.bounded_type_parameters, 0 if combo['btp'] else d[2]),
               pf=('prob.parameterized_functions', c.prob.parameterized_functions, 0 if combo['pf'] else d[3]))
    for s, (name, got, want) in exp.items():
        if got != want or (isinstance(want, bool) and got is not want):
            out.append(dict(kind='cli:%s' % FLAGS[s], path='cfg.' + name, type='',
                            detail='after %s cfg.%s is %r, expected %r'
                                   % ('the command line with ' + FLAGS[s] if combo[s] else 'a command line without '
                                      + FLAGS[s], name, got, want), origin=None))
    return out


_ENV = {}


def _job(job):
    """worker: one (index, language, seed, switches, direct|cli, budget)"""
    i, lang, seed, k, via_cli, budget = job
    e = _ENV.get('e')
    if e is None:
        e = _ENV['e'] = load()
    c0 = time.process_time()
    r = eval_one(e, lang, seed, combo_of(k), via_cli, budget)
    r['cpu'] = round(time.process_time() - c0, 3)
    return i, lang, seed, k, via_cli, r


TIERS = {
    # base seeds, extra seeds from VERIF_SEED, cli seeds, cli languages per combination,
    # budget per generation (objects deep-copied, cpu seconds as safety net), wall deadline (s)
    'quick': (BASE_SEEDS[:8], 1, [1], 1, (60000, 30), 75),
    'thorough': (BASE_SEEDS, 6, [1, 2, 3], 4, (400000, 240), 780),
}


def plan(tier, seed):
    """(jobs, description, deadline).  The base list is fixed; VERIF_SEED adds seeds, never replaces any."""
    rnd = random.Random(seed)
    keys = [combo_key(c) for c in COMBOS]
    base, extra, cli_seeds, cli_langs, budget, deadline = TIERS['quick' if tier == 'quick' else 'thorough']
    deadline = float(os.environ.get('C17_DEADLINE', deadline))      # experiments only; the tiers fix the defaults
    if os.environ.get('C17_BUDGET'):
        budget = (int(os.environ['C17_BUDGET']), 100000)
    seeds = list(base)
    while len(seeds) < len(base) + extra:
        s = rnd.randrange(1000, 10 ** 6)
        if s not in seeds:
            seeds.append(s)
    jobs = []
    # the command line once per combination (quick: the language rotates with the combination)
    for s in cli_seeds:
        for n, k in enumerate(keys):
            for j in range(cli_langs):
                jobs.append((LANGS[(n + n // 4 + j) % 4], s, k, True))
    # covering design: every (seed, language) gets 4 of the 16 combinations, one from each group of use-site
    # settings; the 4 languages of one seed cover all 16, and 4 consecutive seeds cover all 64 (language,
    # combination) pairs.  quick stops here (more distinct seeds for the same number of generations); thorough
    # continues with the remaining 12 combinations of every (seed, language), i.e. the full product -- the
    # covering part comes first so that a run cut by the deadline has seen every seed
    rest = []
    for si, s in enumerate(seeds):
        for li, lang in enumerate(LANGS):
            for n, k in enumerate(keys):
                if (n + n // 4 + li + si) % 4 == 0:
                    jobs.append((lang, s, k, False))
                else:
                    rest.append((lang, s, k, False))
    if tier != 'quick':
        jobs += rest
    jobs = [(i,) + j + (budget,) for i, j in enumerate(jobs)]
    desc = ('%d generator seeds (fixed %d..%d + %d from VERIF_SEED) x 4 languages x %s with the '
            'configuration set directly, plus seeds %s x 16 combinations x %d language(s) through a re-import of '
            'src.args with the command-line switches (= %d generations; each abandoned after %d deep-copied objects, the run stops '
            'scheduling after %g s wall)'
            % (len(seeds), base[0], base[-1], extra,
               '4 of the 16 switch combinations per (seed, language) in a covering design (all 64 (language, '
               'combination) pairs every 4 seeds)' if tier == 'quick' else '16 switch combinations',
               cli_seeds, cli_langs, len(jobs), budget[0], deadline))
    return jobs, desc, deadline


def run(tier, seed, stop_first=False, workers=None, stop_prefix='bounded[', stop_function=None, only=None,
        deadline=None):
    """the bounded run of one tier.  stop_first / stop_prefix / stop_function / only / deadline serve the replay
    search: stop at the first violation whose check name starts with stop_prefix (and whose offending object was
    built by stop_function), looking only at the generations selected by only(language, seed, switches, via_cli)"""
    t0 = time.time()
    jobs, desc, dl = plan(tier, seed)
    deadline = deadline or dl
    if only:
        jobs = [j for j in jobs if only(j[1], j[2], j[3], j[4])]
    workers = workers or int(os.environ.get('C17_WORKERS', '0')) or min(6 if tier == 'quick' else 8, os.cpu_count() or 1)
    _ENV['e'] = load()          # before the fork: the workers inherit the loaded tree
    results = []
    cut = False

    def hit(r):
        return any(check_name(v).startswith(stop_prefix) and (stop_function is None or function_of(v) == stop_function)
                   for v in r[5]['violations'])
    if workers > 1:
        import multiprocessing as mp
        pool = mp.get_context('fork').Pool(workers)
        try:
            it = pool.imap_unordered(_job, jobs, chunksize=1)
            while True:
                try:
                    r = it.next(timeout=max(0.05, deadline - (time.time() - t0)))
                except StopIteration:
                    break
                except mp.TimeoutError:
                    cut = True
                    break
                results.append(r)
                if stop_first and hit(r):
                    break
                if time.time() - t0 > deadline:
                    cut = True
                    break
        finally:
            pool.terminate()
            pool.join()
    else:
        for j in jobs:
            r = _job(j)
            results.append(r)
            if stop_first and hit(r):
                break
            if time.time() - t0 > deadline:
                cut = True
                break
    results.sort(key=lambda r: r[0])
    evaluations = 0
    failures = {}
    distinct = set()
    violations = []
    seen_kinds = {}
    samples = []
    totals = dict(projections=0, contra_projections=0, bounded_tparams=0, parameterized_functions=0,
                  variant_class_tparams=0, types=0)
    for i, lang, s, k, via_cli, r in results:
        combo = combo_of(k)
        if r['error']:
            key = r['error'].split(':')[0]
            failures[key] = failures.get(key, 0) + 1
            continue
        evaluations += 1
        st = r['stats']
        if st:
            for kk in totals:
                totals[kk] += st[kk]
            if nontrivial(st, combo):
                distinct.add((lang, s, k, via_cli))
            if len(samples) < 3 and k == '1111' and st['parameterized_classes'] and not via_cli:
                samples.append(dict(language=lang, seed=s, switches=k, types_walked=st['types'],
                                    classes=st['classes'], functions=st['functions'],
                                    projections=st['projections'], bounded_type_parameters=st['bounded_tparams'],
                                    parameterized_functions=st['parameterized_functions']))
        for v in r['violations']:
            name = check_name(v)
            size = st['types'] if st else 0
            old = seen_kinds.get(name)
            if old is not None and old['types_walked'] <= size:
                old['count'] += 1
                continue
            # one entry per kind: the witness is the smallest program (type occurrences walked) showing it
            rec = dict(check=name, function=function_of(v), language=lang, seed=s, switches=k,
                       switch_names=[x for x in SWITCHES if combo[x]], via_cli=via_cli, types_walked=size,
                       path=v['path'], offending=v['type'], origin=v.get('origin'),
                       expected='no such occurrence (%s)' % v['kind'], actual=v['detail'],
                       count=(old['count'] + 1) if old else 1)
            seen_kinds[name] = rec
    violations = list(seen_kinds.values())
    rule = (desc + '; every program is walked over every type occurrence reachable from the Program object '
            '(declarations, every attribute of every AST node, symbol table; recursively through type arguments, '
            'bounds, supertypes and type constructors) and the six clauses of the statement are evaluated '
            '(specs/switch_ref.py); library type constructors (name not declared by the program) are exempt from the '
            'declaration-site clause only; an input (language, seed, switches, direct|cli) is non-trivial if at least '
            'one switch is on and the program declares a parameterized class and contains type-parameter '
            'occurrences; generator exceptions / abandoned generations are counted (C18) and not judged')
    return dict(evaluations=evaluations, distinct_nontrivial=len(distinct), rule=rule, samples=samples,
                violations=violations, planned=len(jobs), not_run_deadline=(len(jobs) - len(results)) if cut else 0,
                generator_failures=failures, met=totals, objects_copied=sum(r[5].get('work', 0) for r in results),
                cpu_seconds=round(sum(r[5].get('cpu', 0) for r in results), 1), exhaustive=False, workers=workers,
                seconds=round(time.time() - t0, 1))


def replay(fi, verbose=True):
    """re-execute the recorded input on the current tree; True iff no violation of the recorded kind reproduces"""
    e = load()
    combo = combo_of(fi['switches'])
    r = eval_one(e, fi['language'], int(fi['seed']), combo, bool(fi.get('via_cli')))
    if r['error']:
        if verbose:
            print('generation failed on the recorded input: %s' % r['error'])
        return False
    same = [v for v in r['violations'] if check_name(v) == fi.get('check')]
    other = [v for v in r['violations'] if check_name(v) != fi.get('check')]
    if verbose:
        for v in (same or other)[:3]:
            print('%s seed %s switches %s: %s at %s: %s [%s]' % (fi['language'], fi['seed'], fi['switches'],
                                                                check_name(v), v['path'], v['detail'], v['type']))
    return not same if fi.get('check') else not r['violations']


if __name__ == '__main__':
    import json
    _t = sys.argv[1] if len(sys.argv) > 1 else 'quick'
    _s = int(sys.argv[2]) if len(sys.argv) > 2 else int(os.environ.get('VERIF_SEED', '0'))
    print(json.dumps(run(_t, _s), indent=1, default=str))
