"""Executable reference and bounded driver for C11 (translation is a pure function of the program).

Written from the property statement, not from the translators:

    There is a mathematical function  Text(program, language, package, options)  and translating has no effect on
    the program.  So, for one program P and one translator configuration (language, package, options):

      (U) pickle.dumps(P) is the same byte string before and after every translation of P;
      (T) every way of obtaining the text of P yields the same bytes as the first one (the reference text `a`):
            - the same translator object again,
            - a fresh translator object of the same configuration,
            - a translator object (fresh, or the one already used for P) that translated other programs in between
              (and, symmetrically, the texts of those other programs do not depend on P having been translated first),
            - the same and a fresh translator object after P was translated by the translators of the other three
              languages,
            - the same and a fresh translator object after translator objects of a *different* configuration
              (package, options) translated P,
            - a fresh translator on a structurally identical private copy of P taken before P was ever translated.

The reference model therefore is simply "the first text is the text"; the driver enumerates histories.  Nothing in
here looks at translator attributes (reset lists, stacks): a translator may keep any private state it likes as long
as (U) and (T) hold.

A translation that raises is not a "performed translation": such (program, translator) pairs are skipped and counted
(`skipped_raises`); a translation that raises *after* the same configuration produced a text for the same program is a
(T) violation.
"""
import hashlib
import importlib
import os
import pickle
import random
import sys
import time
import weakref

LANGS = ['java', 'kotlin', 'groovy', 'scala']

# fixed base seed lists (VERIF_SEED only adds the random histories and a few extra seeds)
# seven seeds (+ the hand-built job = 8 jobs for 8 workers) whose twelve programs are generated and translated fast enough for the quick tier
QUICK_SEEDS = [0, 1, 4, 11, 12, 13, 19]
THOROUGH_SEEDS = list(range(0, 36))
STAGES = ['generated', 'erased', 'overwritten']


class Env:
    pass


_HASHES = {}
_COUNTER = [0]


def _node_hash(self):
    h = _HASHES.get(id(self))
    if h is None:
        _COUNTER[0] += 1
        # the entry disappears with the node, so that a recycled id never inherits a stale counter
        h = _HASHES[id(self)] = (_COUNTER[0], weakref.ref(self, _dropper(id(self))))
    return h[0]


def _dropper(i):
    return lambda _ref: _HASHES.pop(i, None)


def _reset_hashes():
    _HASHES.clear()
    _COUNTER[0] = 0


def load(repo=None):
    """import the real code from `repo` (purging earlier imports), deterministically"""
    repo = repo or os.environ.get('HEPH_REPO', '/repo')
    for m in [k for k in sys.modules if k == 'src' or k.startswith('src.') or k == 'hephaestus']:
        del sys.modules[m]
    for p in [p for p in sys.path if p != repo and os.path.isfile(os.path.join(p, 'hephaestus.py'))]:
        sys.path.remove(p)          # another checkout of the code under test must not shadow `repo`
    if repo in sys.path:
        sys.path.remove(repo)
    sys.path.insert(0, repo)
    sys.setrecursionlimit(max(sys.getrecursionlimit(), 10000))
    random.seed(12345)              # src.utils samples its word pool with the global RNG at import
    node = importlib.import_module('src.ir.node')
    node.Node.__hash__ = _node_hash  # before any node exists; identity __eq__ untouched
    _reset_hashes()
    e = Env()
    e.repo = repo
    e.utils = importlib.import_module('src.utils')
    e.ast = importlib.import_module('src.ir.ast')
    e.tp = importlib.import_module('src.ir.types')
    e.ctx = importlib.import_module('src.ir.context')
    e.factories = importlib.import_module('src.ir').BUILTIN_FACTORIES
    e.Generator = importlib.import_module('src.generators.generator').Generator
    e.TypeErasure = importlib.import_module('src.transformations.type_erasure').TypeErasure
    e.TypeOverwriting = importlib.import_module('src.transformations.type_overwriting').TypeOverwriting
    e.TR = {
        'java': importlib.import_module('src.translators.java').JavaTranslator,
        'kotlin': importlib.import_module('src.translators.kotlin').KotlinTranslator,
        'groovy': importlib.import_module('src.translators.groovy').GroovyTranslator,
        'scala': importlib.import_module('src.translators.scala').ScalaTranslator,
    }
    for lang in LANGS:               # what src/args.py does for the selected language
        e.utils.random.remove_reserved_words(lang)
    assert os.path.realpath(e.utils.__file__).startswith(os.path.realpath(repo)), e.utils.__file__
    return e


# ---------------------------------------------------------------------------------------------------------------
# hand-built programs for rarely generated shapes
# ---------------------------------------------------------------------------------------------------------------

def _program(env, lang, decls, lambdas=()):
    ast = env.ast
    p = ast.Program(env.ctx.Context(), lang)
    for d in decls:
        p.add_declaration(d)
    for ns, lam in lambdas:
        p.context.add_lambda(ns, lam.name, lam)
        for prm in lam.params:
            p.context.add_var(ns + (lam.name,), prm.name, prm)
    return p


def hand_built(env, lang):
    """[(name, program)] for language `lang`"""
    ast, tp = env.ast, env.tp
    bt = env.factories[lang]
    String, Int, Void, Any = bt.get_string_type(), bt.get_integer_type(), bt.get_void_type(), bt.get_any_type()
    G = ast.GLOBAL_NAMESPACE
    FUN, METHOD = ast.FunctionDeclaration.FUNCTION, ast.FunctionDeclaration.CLASS_METHOD
    out = []

    def params(n, t=String, pre='p'):
        return [ast.ParameterDeclaration('%s%d' % (pre, i), Int if i % 2 else t) for i in range(n)]

    def args(n):
        return [ast.CallArgument(ast.IntegerConstant(i, Int) if i % 2 else ast.StringConstant('s%d' % i))
                for i in range(n)]

    # (1) nested functions with 4, 5 and 6 parameters, in a top-level function and in a method ------------------
    def nested(name, n, ret):
        if ret is String:
            body = ast.Block([ast.Variable('p0')])
        else:
            body = ast.Block([ast.VariableDeclaration('loc', ast.Variable('p0'), is_final=True, var_type=String)])
        return ast.FunctionDeclaration(name, params(n), ret, body, FUN)

    n4, n5 = nested('inner4', 4, String), nested('inner5', 5, Void)
    outer = ast.FunctionDeclaration('outer', [ast.ParameterDeclaration('q', String)], String, ast.Block([
        n4, n5,
        ast.FunctionCall('inner5', args(5)),
        ast.FunctionCall('inner4', args(4)),
    ]), FUN)
    m6 = nested('deep6', 6, String)
    meth = ast.FunctionDeclaration('meth', [], String, ast.Block([m6, ast.FunctionCall('deep6', args(6))]), METHOD,
                                   is_final=False)
    holder = ast.ClassDeclaration('Holder', [], ast.ClassDeclaration.REGULAR, fields=[], functions=[meth],
                                  is_final=False)
    main = ast.FunctionDeclaration('main', [], Void, ast.Block([
        ast.VariableDeclaration('r', ast.FunctionCall('outer', [ast.CallArgument(ast.StringConstant('a'))]),
                                is_final=True, var_type=String)]), FUN)
    out.append(('nested-functions-4-5-6-params', _program(env, lang, [holder, outer, main])))

    # (2) a class listing an interface before its superclass (and the usual order next to it) --------------------
    i_f = ast.FunctionDeclaration('describe', [], String, None, METHOD, is_final=False)
    iface = ast.ClassDeclaration('Shape', [], ast.ClassDeclaration.INTERFACE, fields=[], functions=[i_f],
                                 is_final=False)
    j_f = ast.FunctionDeclaration('weigh', [ast.ParameterDeclaration('w', Int)], Int, None, METHOD, is_final=False)
    iface2 = ast.ClassDeclaration('Heavy', [], ast.ClassDeclaration.INTERFACE, fields=[], functions=[j_f],
                                  is_final=False)
    b_field = ast.FieldDeclaration('tag', String, is_final=True, can_override=True)
    base = ast.ClassDeclaration('Base', [], ast.ClassDeclaration.REGULAR, fields=[b_field], functions=[
        ast.FunctionDeclaration('ident', [ast.ParameterDeclaration('z', String)], String,
                                ast.Block([ast.Variable('z')]), METHOD, is_final=False)], is_final=False)

    def impl(name):
        return [
            ast.FunctionDeclaration('describe', [], String, ast.Block([ast.StringConstant(name)]), METHOD,
                                    override=True),
            ast.FunctionDeclaration('weigh', [ast.ParameterDeclaration('w', Int)], Int,
                                    ast.Block([ast.Variable('w')]), METHOD, override=True)]

    first = ast.ClassDeclaration('IfaceFirst', [
        ast.SuperClassInstantiation(iface.get_type(), None),
        ast.SuperClassInstantiation(base.get_type(), [ast.StringConstant('t1')]),
        ast.SuperClassInstantiation(iface2.get_type(), None)],
        ast.ClassDeclaration.REGULAR, fields=[], functions=impl('first'), is_final=True)
    usual = ast.ClassDeclaration('ClassFirst', [
        ast.SuperClassInstantiation(base.get_type(), [ast.StringConstant('t2')]),
        ast.SuperClassInstantiation(iface2.get_type(), None),
        ast.SuperClassInstantiation(iface.get_type(), None)],
        ast.ClassDeclaration.REGULAR, fields=[], functions=impl('usual'), is_final=True)
    main = ast.FunctionDeclaration('main', [], Void, ast.Block([
        ast.VariableDeclaration('s', ast.New(first.get_type(), []), is_final=True, var_type=iface.get_type()),
        ast.VariableDeclaration('u', ast.New(usual.get_type(), []), is_final=True, var_type=base.get_type())]), FUN)
    out.append(('interface-before-superclass', _program(env, lang, [iface, iface2, base, first, usual, main])))

    # (3) expression-bodied lambdas used as statements in Unit functions -----------------------------------------
    def lam(name, n, ret, body):
        ps = params(n, pre=name + '_')
        sig = tp.ParameterizedType(bt.get_function_type(n), [p.param_type for p in ps] + [ret])
        return ast.Lambda(name, ps, ret, body, sig)

    l1 = lam('lam1', 1, Int, ast.IntegerConstant(7, Int))
    l2 = lam('lam2', 2, String, ast.StringConstant('k'))
    l3 = lam('lam3', 0, Int, ast.IntegerConstant(1, Int))
    l4 = lam('lam4', 1, String, ast.Block([ast.StringConstant('blk')]))
    unit1 = ast.FunctionDeclaration('sink', [], Void, ast.Block([
        ast.VariableDeclaration('before', ast.IntegerConstant(3, Int), is_final=True, var_type=Int),
        l1,
        ast.VariableDeclaration('mid', ast.StringConstant('m'), is_final=True, var_type=String),
        l2]), FUN)
    unit2 = ast.FunctionDeclaration('sink2', [], Void, ast.Block([l3]), FUN)
    after = ast.FunctionDeclaration('after', [], Int, ast.Block([
        ast.VariableDeclaration('f', l4, is_final=True, var_type=l4.signature),
        ast.IntegerConstant(5, Int)]), FUN)
    expr_fun = ast.FunctionDeclaration('plain', [], Int, ast.IntegerConstant(9, Int), FUN)
    main = ast.FunctionDeclaration('main', [], Void, ast.Block([
        ast.FunctionCall('sink', []), ast.FunctionCall('sink2', [])]), FUN)
    out.append(('expression-lambda-statements-in-unit-functions', _program(
        env, lang, [unit1, unit2, after, expr_fun, main],
        lambdas=[(G + ('sink',), l1), (G + ('sink',), l2), (G + ('sink2',), l3), (G + ('after',), l4)])))

    # (4a) the smallest program with a bounded class type parameter handed to a parameterized superclass whose
    #      abstract function mentions its own parameter
    T0 = tp.TypeParameter('T', bound=None)
    src0 = ast.ClassDeclaration('Origin', [], ast.ClassDeclaration.ABSTRACT, fields=[], functions=[
        ast.FunctionDeclaration('take', [ast.ParameterDeclaration('x', T0)], Void, None, METHOD, is_final=False)],
        is_final=False, type_parameters=[T0])
    cap0 = ast.ClassDeclaration('Cap', [], ast.ClassDeclaration.REGULAR, fields=[], functions=[], is_final=False)
    X0 = tp.TypeParameter('X', bound=cap0.get_type())
    sub0 = ast.ClassDeclaration('Derived', [ast.SuperClassInstantiation(src0.get_type().new([X0]), [])],
                                ast.ClassDeclaration.ABSTRACT, fields=[], functions=[], is_final=False,
                                type_parameters=[X0])
    out.append(('minimal-bounded-parameter-to-superclass', _program(env, lang, [cap0, src0, sub0])))

    # (4) bounded type parameters inherited through a parameterized superclass; function reference without a
    #     receiver inside a method (the IR helpers get_abstract_functions / get_callable_functions run on these) ----
    T = tp.TypeParameter('T', bound=None)
    U = tp.TypeParameter('U', bound=T)
    a_abs = ast.FunctionDeclaration('pick', [ast.ParameterDeclaration('x', T)], T, None, METHOD, is_final=False)
    a_gen = ast.FunctionDeclaration('conv', [ast.ParameterDeclaration('u', U)], T, None, METHOD, is_final=False,
                                    type_parameters=[U])
    a_cls = ast.ClassDeclaration('Source', [], ast.ClassDeclaration.ABSTRACT, fields=[],
                                 functions=[a_abs, a_gen], is_final=False, type_parameters=[T])
    lim = ast.ClassDeclaration('Limit', [], ast.ClassDeclaration.REGULAR, fields=[], functions=[], is_final=False)
    X = tp.TypeParameter('X', bound=lim.get_type())
    Y = tp.TypeParameter('Y', bound=X)
    sup_t = a_cls.get_type().new([X])
    b_cls = ast.ClassDeclaration('Mid', [ast.SuperClassInstantiation(sup_t, [])], ast.ClassDeclaration.ABSTRACT,
                                 fields=[], functions=[
        ast.FunctionDeclaration('twice', [ast.ParameterDeclaration('y', Y)], X, ast.Block([ast.Variable('y')]),
                                METHOD, is_final=False, type_parameters=[Y]),
        ast.FunctionDeclaration('refs', [], Void, ast.Block([
            ast.VariableDeclaration('g', ast.FunctionReference(
                'pick', None, tp.ParameterizedType(bt.get_function_type(1), [X, X])), is_final=True,
                var_type=tp.ParameterizedType(bt.get_function_type(1), [X, X]))]), METHOD, is_final=False)],
        is_final=False, type_parameters=[X])
    sam_f = ast.FunctionDeclaration('run', [ast.ParameterDeclaration('v', String)], String, None, METHOD,
                                    is_final=False)
    sam = ast.ClassDeclaration('Runner', [], ast.ClassDeclaration.INTERFACE, fields=[], functions=[sam_f],
                                is_final=False)
    main = ast.FunctionDeclaration('main', [], Void, ast.Block([
        ast.VariableDeclaration('n', ast.IntegerConstant(1, Int), is_final=True, var_type=Int)]), FUN)
    out.append(('bounded-type-parameters-through-superclass', _program(env, lang, [lim, a_cls, b_cls, sam, main])))
    # the program that widens translator state the most (function arities 4..6) is deliberately not the first one:
    # the references of the others are then taken before any translator has seen it
    return [out[1], out[0]] + out[2:]


# ---------------------------------------------------------------------------------------------------------------
# the contract
# ---------------------------------------------------------------------------------------------------------------

class Stop(Exception):
    pass


def _excerpt(a, b):
    """first differing line of two texts"""
    if not isinstance(a, str) or not isinstance(b, str):
        return dict(expected=str(a)[:300], actual=str(b)[:300])
    la, lb = a.split('\n'), b.split('\n')
    for i in range(max(len(la), len(lb))):
        x = la[i] if i < len(la) else '<end of text>'
        y = lb[i] if i < len(lb) else '<end of text>'
        if x != y:
            return dict(line=i + 1, expected=x[:300], actual=y[:300], expected_len=len(a), actual_len=len(b))
    return dict(expected_len=len(a), actual_len=len(b))


def struct_diff(x, y, path='program', seen=None, depth=0):
    """first path at which two object graphs differ structurally (sharing is not compared); None if none"""
    if seen is None:
        seen = set()
    if type(x) is not type(y):
        return '%s: type %s -> %s' % (path, type(x).__name__, type(y).__name__)
    if isinstance(x, (str, bytes, int, float, bool, type(None))):
        return None if x == y else '%s: %r -> %r' % (path, x, y)
    key = (id(x), id(y))
    if key in seen or depth > 400:
        return None
    seen.add(key)
    if isinstance(x, (list, tuple)):
        if len(x) != len(y):
            return '%s: length %d -> %d' % (path, len(x), len(y))
        for i, (u, v) in enumerate(zip(x, y)):
            d = struct_diff(u, v, '%s[%d]' % (path, i), seen, depth + 1)
            if d:
                return d
        return None
    if isinstance(x, dict):
        if len(x) != len(y):
            return '%s: %d keys -> %d keys' % (path, len(x), len(y))
        # pairs are taken from items(): keys may be objects whose hash changed since insertion (mutable type
        # parameters), so a lookup x[key] is not reliable; insertion order is part of the state
        for i, ((u, xv), (v, yv)) in enumerate(zip(list(x.items()), list(y.items()))):
            label = repr(u) if isinstance(u, (str, int, tuple)) else '<key %d: %s>' % (i, type(u).__name__)
            d = struct_diff(u, v, '%s.key(%s)' % (path, label), seen, depth + 1)
            if d:
                return d
            d = struct_diff(xv, yv, '%s[%s]' % (path, label), seen, depth + 1)
            if d:
                return d
        return None
    if isinstance(x, (set, frozenset)):
        if len(x) != len(y):
            return '%s: set of %d -> set of %d' % (path, len(x), len(y))
        rest = list(y)
        for u in x:                                               # no order to rely on: match structurally
            for j, v in enumerate(rest):
                if struct_diff(u, v, path, set(seen), depth + 1) is None:
                    del rest[j]
                    break
            else:
                return '%s: set element %.80r has no counterpart' % (path, u)
        return None
    dx, dy = getattr(x, '__dict__', None), getattr(y, '__dict__', None)
    if dx is None or dy is None:
        return None if repr(x) == repr(y) else '%s: %r -> %r' % (path, x, y)
    if sorted(dx) != sorted(dy):
        return '%s: attributes %s -> %s' % (path, sorted(set(dx) ^ set(dy)), '')
    for k in dx:
        d = struct_diff(dx[k], dy[k], '%s.%s' % (path, k), seen, depth + 1)
        if d:
            return d
    return None


CFG_A = ('src.alpha', {'cast_numbers': False})
CFG_B = ('src.beta', {'cast_numbers': True})
CFG_N = (None, {})


class Checker:
    """evaluates (U) and (T); collects one violation per check name (all of them with keep_all)"""

    def __init__(self, env, stop_first=False, keep_all=False):
        self.env = env
        self.stop_first = stop_first
        self.keep_all = keep_all
        self.evals = 0
        self.violations = []
        self.counts = {}
        self.skipped_raises = {}
        self.translations = 0
        self._refs = {}

    # -- primitives ------------------------------------------------------------------------------------------
    def mk(self, tl, cfg):
        return self.env.TR[tl](cfg[0], dict(cfg[1]))

    def tr(self, t, prog):
        self.translations += 1
        try:
            return self.env.utils.translate_program(t, prog)
        except RecursionError:
            raise
        except Exception as ex:  # compared like a text: a translation that starts raising is a difference
            return ('EXC', type(ex).__name__, str(ex)[:120])

    def report(self, name, ident, **kw):
        self.counts[name] = self.counts.get(name, 0) + 1
        if not self.keep_all and any(v['check'] == 'bounded[%s]' % name for v in self.violations):
            return
        v = dict(check='bounded[%s]' % name)
        v.update(ident)
        v.update(kw)
        self.violations.append(v)
        if self.stop_first:
            raise Stop()

    def ref_text(self, tl, cfg, key, prog):
        """reference text of a (small, hand-built) history program: fresh translator, nothing else involved"""
        k = (tl, cfg[0], key)
        if k not in self._refs:
            self._refs[k] = self.tr(self.mk(tl, cfg), prog)
        return self._refs[k]

    # -- the contract on one program ----------------------------------------------------------------------------
    def check_program(self, prog, where, home, hand, pool, rnd, depth):
        """where: dict identifying the program.  hand: {translator language: [(name, program)]} small programs used
        as histories and as follow-up targets.  pool: [(description, program)] further history programs.
        depth: 'quick' | 'thorough' | 'hand' (selects how many histories / configurations are enumerated)."""
        order = [home] + [l for l in LANGS if l != home]
        b0 = pickle.dumps(prog)
        pristine = pickle.loads(b0)

        def ident(tl, cfg):
            d = dict(function='src.translators.%s.%sTranslator.visit_program (via src.utils.translate_program)'
                     % (tl, tl.capitalize()))
            d.update(where)
            d.update(translator=tl, package=cfg[0], options=dict(cfg[1]))
            return d

        state = [b0]       # the last observed bytes: every change is reported once, at the step that made it

        def unchanged(tl, cfg, after):
            self.evals += 1
            b, before = pickle.dumps(prog), state[0]
            if b == before:
                return
            state[0] = b
            # like is compared with like: both states go through the same pickle round trip (a live dictionary
            # keyed by objects whose hash changed after insertion does not survive a round trip unchanged)
            d = struct_diff(pickle.loads(before), pickle.loads(b))
            exp = 'pickle.dumps(program) identical before and after (%d bytes)' % len(before)
            if d:
                self.report('program-unchanged:structure', ident(tl, cfg), after=after, expected=exp,
                            actual='%d bytes; first structural difference: %s' % (len(b), d))
            else:
                self.report('program-unchanged:sharing', ident(tl, cfg), after=after, expected=exp,
                            actual='%d bytes; same shape and leaf values, but an attribute of a program-owned object '
                                   'was re-bound (sharing of sub-objects changed): %s' % (len(b), rebound(cfg)))

        def rebound(cfg):
            """diagnosis only: repeat single translations on a private copy and name the re-bound attributes"""
            try:
                q = pickle.loads(b0)
                m0 = {}
                _idmap(q, 'program', m0, {})
                for l2 in order:
                    self.tr(self.mk(l2, cfg), q)
                    m1 = {}
                    _idmap(q, 'program', m1, {})
                    ch = [k for k in m0 if isinstance(m0[k], int) and m1.get(k) != m0[k]]
                    if ch:
                        return 'on a copy, the %s translator re-binds %s' % (l2, ch[:3])
                return 'not reproduced on a copy with single translations'
            except Exception as ex:
                return 'diagnosis failed: %r' % (ex,)

        def same(name, tl, cfg, a, text, how, **kw):
            self.evals += 1
            if text != a:
                self.report(name, ident(tl, cfg), scenario=how, **dict(_excerpt(a, text), **kw))

        def followers(t, tl, cfg, how):
            """the small programs translated by a translator object that already translated `prog`"""
            for n, h in hand[tl]:
                if h is prog:
                    continue
                r = self.ref_text(tl, cfg, n, h)
                if isinstance(r, str):
                    same('after-other-programs', tl, cfg, r, self.tr(t, h),
                         'hand-built program %r translated by a translator object that ' % n + how,
                         compared_program='hand:' + n)

        def history(tl, cfg, a, desc, progs, used=None):
            t = used or self.mk(tl, cfg)
            if all([isinstance(self.tr(t, h), str) for h in progs]):
                same('after-other-programs', tl, cfg, a, self.tr(t, prog),
                     ('translator object that translated the program, then: ' if used else
                      'fresh translator object that first translated: ') + desc)

        def block(tl, cfg, full):
            """first and second translation, fresh object, hand-built programs after and before the program"""
            t1 = self.mk(tl, cfg)
            a = self.tr(t1, prog)
            if not isinstance(a, str):
                k = (tl, where.get('lang'))
                self.skipped_raises[k] = self.skipped_raises.get(k, 0) + 1
                return None, None
            unchanged(tl, cfg, 'first translation (%s)' % tl)
            same('same-translator-twice', tl, cfg, a, self.tr(t1, prog),
                 'second translation with the same translator object')
            if full:
                same('fresh-translator', tl, cfg, a, self.tr(self.mk(tl, cfg), prog),
                     'fresh translator object, same configuration')
            followers(t1, tl, cfg, 'translated the program before')
            others = [(n, h) for n, h in hand[tl] if h is not prog]
            same('after-other-programs', tl, cfg, a, self.tr(t1, prog),
                 'translator object that translated the program, then all hand-built programs (%s)'
                 % ', '.join(n for n, _ in others))
            if full:
                history(tl, cfg, a, 'all hand-built programs', [h for _, h in others])
            unchanged(tl, cfg, 'repeated translations (%s)' % tl)
            return t1, a

        T, A = {}, {}
        for tl in order:
            T[tl], A[tl] = block(tl, CFG_A, full=(tl == home or depth != 'quick'))
        ok = [tl for tl in order if A[tl] is not None]
        # by now every translator has translated the program: "after translating it to another language"
        for tl in ok:
            how = 'after the translators of %s translated the program' % ', '.join(l for l in ok if l != tl)
            same('after-other-language', tl, CFG_A, A[tl], self.tr(T[tl], prog), how + ', same translator object')
            same('after-other-language', tl, CFG_A, A[tl], self.tr(self.mk(tl, CFG_A), prog),
                 how + ', fresh translator object')
        unchanged(home, CFG_A, 'translations by all four translators')
        for tl in ok:
            if depth == 'hand':                        # every other hand-built program alone, fresh and used object
                for n, h in hand[tl]:
                    if h is not prog:
                        history(tl, CFG_A, A[tl], 'hand:' + n, [h])
                        history(tl, CFG_A, A[tl], 'hand:' + n, [h], used=T[tl])
            elif tl == home:
                if depth == 'thorough':                # every hand-built program alone, fresh object
                    for n, h in hand[tl]:
                        history(tl, CFG_A, A[tl], 'hand:' + n, [h])
                if pool:
                    history(tl, CFG_A, A[tl], '; then '.join(n for n, _ in pool), [h for _, h in pool])
            full_pool = pool + [('hand:' + n, h) for n, h in hand[tl] if h is not prog]
            for _ in range({'quick': 1 if tl == home else 0, 'thorough': 2 if tl == home else 1, 'hand': 2}[depth]):
                pick = [rnd.choice(full_pool) for _ in range(rnd.randint(2, 4))]
                history(tl, CFG_A, A[tl], '; then '.join(n for n, _ in pick), [h for _, h in pick],
                        used=T[tl] if rnd.random() < 0.5 else None)
            if tl == home or depth != 'quick':
                # other configuration of the same translator class in between
                second = CFG_B if tl in (home, 'groovy') or depth == 'hand' else None
                if second:
                    tb, ab = block(tl, second, full=depth != 'quick')
                    self.tr(self.mk(tl, CFG_N), prog)
                    if ab is not None:
                        same('after-other-configuration', tl, second, ab, self.tr(tb, prog),
                             'same translator object, after translators with package=%r and package=None translated '
                             'the program' % CFG_A[0])
                same('after-other-configuration', tl, CFG_A, A[tl], self.tr(self.mk(tl, CFG_A), prog),
                     'fresh translator after translators of other package / options translated the program')
                same('after-other-configuration', tl, CFG_A, A[tl], self.tr(T[tl], prog),
                     'same translator object after translators of other package / options translated the program')
                same('pristine-copy', tl, CFG_A, A[tl], self.tr(self.mk(tl, CFG_A), pristine),
                     'fresh translator on a pickle copy of the program taken before its first translation')
        unchanged(home, CFG_A, 'all scenarios')
        return A[home]


def _idmap(x, path, out, seen):
    if isinstance(x, (str, bytes, int, float, bool, type(None))):
        return
    if id(x) in seen:
        out[path] = ('ref', seen[id(x)])
        return
    seen[id(x)] = path
    out[path] = id(x)
    if isinstance(x, (list, tuple)):
        for i, u in enumerate(x):
            _idmap(u, '%s[%d]' % (path, i), out, seen)
    elif isinstance(x, dict):
        for k, u in x.items():
            _idmap(u, '%s[%r]' % (path, k), out, seen)
    elif hasattr(x, '__dict__') and not isinstance(x, (set, frozenset)):
        for k, u in x.__dict__.items():
            _idmap(u, '%s.%s' % (path, k), out, seen)


# ---------------------------------------------------------------------------------------------------------------
# the driver
# ---------------------------------------------------------------------------------------------------------------

def _nontrivial(env, prog, text):
    """rule: >= 1 class, >= 1 function with a block body, home-language text of >= 10 lines"""
    decls = list(prog.context.get_declarations(env.ast.GLOBAL_NAMESPACE, only_current=True).values())
    has_cls = any(isinstance(d, env.ast.ClassDeclaration) for d in decls)
    funcs = [d for d in decls if isinstance(d, env.ast.FunctionDeclaration)]
    for d in decls:
        if isinstance(d, env.ast.ClassDeclaration):
            funcs += d.functions
    has_body = any(isinstance(f.body, env.ast.Block) for f in funcs)
    return has_cls and has_body and isinstance(text, str) and text.count('\n') + 1 >= 10


def _copy(p):
    return pickle.loads(pickle.dumps(p))


def _result(ck, fps, trivial, samples, programs):
    return dict(evals=ck.evals, translations=ck.translations, violations=ck.violations, counts=ck.counts,
                skipped=ck.skipped_raises, fingerprints=fps, trivial=trivial, samples=samples, programs=programs)


def run_hand(env, vseed, stop_first=False, keep_all=False):
    """contract on the hand-built programs; histories are the other hand-built programs"""
    _reset_hashes()
    env.utils.random.r.seed(977)
    env.utils.random.reset_word_pool()
    ck = Checker(env, stop_first, keep_all)
    rnd = random.Random(vseed * 7919 + 13)
    hand = {lang: hand_built(env, lang) for lang in LANGS}
    fps, samples = {}, []
    try:
        for lang in LANGS:
            for name, p in hand[lang]:
                fps[hashlib.sha1(pickle.dumps(p)).hexdigest()] = True     # every hand-built shape is non-trivial
                where = dict(seed='hand', lang=lang, stage='hand:' + name)
                a = ck.check_program(p, where, lang, hand, [], rnd, 'hand')
                if a is not None and len(samples) < 1 and lang == 'kotlin':
                    samples.append(dict(program='hand:' + name, language=lang, text_head=a.split('\n')[:6]))
    except Stop:
        pass
    return _result(ck, fps, 0, samples, len(fps))


def run_seed(env, seed, tier, vseed, stop_first=False, keep_all=False):
    """contract on the generated / erased / overwritten programs of one seed (one program per language)"""
    _reset_hashes()
    R = env.utils.random
    R.r.seed(seed)
    ck = Checker(env, stop_first, keep_all)
    rnd = random.Random((vseed + 1) * 1000003 + seed)
    hand = {lang: hand_built(env, lang) for lang in LANGS}
    progs = {}
    for lang in LANGS:
        R.reset_word_pool()
        progs[lang] = env.Generator(language=lang).generate()
    fps, samples, trivial = {}, [], 0
    earlier = {lang: [] for lang in LANGS}                    # copies of earlier stages of the same program
    current = {lang: _copy(progs[lang]) for lang in LANGS}    # copies used as "other programs" of sibling checks
    try:
        for stage in STAGES:
            for lang in LANGS:
                p = progs[lang]
                if stage == 'erased':
                    t = env.TypeErasure(p, lang, None, {'timeout': 600})
                    t.transform()
                    p = progs[lang] = t.result()
                elif stage == 'overwritten':
                    t = env.TypeOverwriting(p, lang, None, {'timeout': 600})
                    t.transform()
                    p = progs[lang] = t.result()
                fp = hashlib.sha1(pickle.dumps(p)).hexdigest()
                current[lang] = _copy(p)
                where = dict(seed=seed, lang=lang, stage=stage)
                # the generator's RNG is restored after the checks of this program, so that the programs of later
                # stages do not depend on how many scenarios were evaluated; it is NOT touched between the
                # translations of the scenarios themselves
                rng_state = R.r.getstate()
                pool = ([('the %s program of this seed' % l2, current[l2]) for l2 in LANGS if l2 != lang] +
                        [('its own %s stage' % s, q) for s, q in earlier[lang]])
                a = ck.check_program(p, where, lang, hand, pool, rnd, tier)
                if _nontrivial(env, p, a):
                    fps[fp] = True
                else:
                    trivial += 1
                if a is not None and len(samples) < 1 and seed == 1 and lang == 'kotlin':
                    samples.append(dict(program='seed %d, %s, %s' % (seed, lang, stage),
                                        text_lines=a.count('\n') + 1, text_head=a.split('\n')[:5]))
                earlier[lang].append((stage, current[lang]))
                R.r.setstate(rng_state)
    except Stop:
        pass
    return _result(ck, fps, trivial, samples, len(STAGES) * len(LANGS))


# -- process pool ---------------------------------------------------------------------------------------------------
_ENV = None


def _init(repo):
    global _ENV
    _ENV = load(repo)


def _job(args):
    kind, seed, tier, vseed, stop_first = args
    t0, c0 = time.time(), time.process_time()
    global _ENV
    try:
        # a freshly imported copy of the code under test for every job: module / class level state left behind by
        # an earlier job of the same worker process must not decide what this job sees
        _ENV = load(_ENV.repo)
        r = run_hand(_ENV, vseed, stop_first) if kind == 'hand' else run_seed(_ENV, seed, tier, vseed, stop_first)
    except Exception as ex:   # generation / transformation failed: not an input of this property (C18's business)
        import traceback
        tb = traceback.extract_tb(ex.__traceback__)
        r = dict(evals=0, translations=0, violations=[], counts={}, skipped={}, fingerprints={}, trivial=0,
                 samples=[], programs=0,
                 aborted='%s: %s @ %s' % (type(ex).__name__, str(ex)[:80], ' < '.join(
                     '%s:%d' % (os.path.basename(f.filename), f.lineno) for f in tb[-3:])))
    r['seed'] = seed
    r['seconds'] = time.time() - t0
    r['cpu'] = time.process_time() - c0
    return r


def seeds_for(tier, vseed):
    base = QUICK_SEEDS if tier == 'quick' else THOROUGH_SEEDS
    # quick: VERIF_SEED only drives the random histories; thorough: it also adds four seeds
    extra = random.Random(vseed).sample(range(1000, 100000), 0 if tier == 'quick' else 4)
    return base + extra


def run(tier, seed, stop_first=False, workers=None):
    repo = os.environ.get('HEPH_REPO', '/repo')
    seeds = seeds_for(tier, seed)
    base = QUICK_SEEDS if tier == 'quick' else THOROUGH_SEEDS
    # one self-contained job per seed (own RNG seed, own hash counter): the result does not depend on the workers
    # the seeds of unknown cost (VERIF_SEED) are started first; results are put back in (hand, ascending seed) order
    jobs = ([('hand', 'hand', tier, seed, stop_first)] + [('seed', s, tier, seed, stop_first) for s in seeds[len(base):]]
            + [('seed', s, tier, seed, stop_first) for s in base])
    workers = workers or int(os.environ.get('C11_WORKERS', '8' if tier == 'quick' else '12'))
    t0 = time.time()
    results = []
    if workers <= 1:
        _init(repo)
        for j in jobs:
            results.append(_job(j))
            if stop_first and results[-1]['violations']:
                break
    else:
        import multiprocessing as mp
        with mp.get_context('spawn').Pool(min(workers, len(jobs)), initializer=_init, initargs=(repo,)) as pool:
            for r in pool.imap(_job, jobs, chunksize=1):
                results.append(r)
                if stop_first and r['violations']:
                    pool.terminate()
                    break
    results.sort(key=lambda r: (r['seed'] != 'hand', r['seed'] if r['seed'] != 'hand' else 0))
    fps = {}
    violations, counts, skipped, samples, aborted = [], {}, {}, [], []
    for r in results:                     # job order = hand-built first, then ascending seed: smallest input first
        fps.update(r['fingerprints'])
        for v in r['violations']:
            if not any(w['check'] == v['check'] for w in violations):
                violations.append(v)
        for k, n in r['counts'].items():
            counts[k] = counts.get(k, 0) + n
        for k, n in r['skipped'].items():
            kk = '%s translator on %s program' % k
            skipped[kk] = skipped.get(kk, 0) + n
        samples += r['samples']
        if r.get('aborted'):
            aborted.append((r['seed'], r['aborted']))
    for v in violations:
        v['tier'] = tier
        v['verif_seed'] = seed
        v['occurrences_in_run'] = counts.get(v['check'][len('bounded['):-1])
    nprog = sum(r['programs'] for r in results)
    rule = (
        '%d seeds (fixed list %s + %d from VERIF_SEED) x 4 generator languages x {generated, erased, overwritten} '
        '(erasure, then overwriting, applied in place as the pipeline does) + 5 hand-built shapes per language (nested '
        'functions with 4/5/6 parameters; a class listing an interface before its superclass; expression-bodied '
        'lambdas as statements in Unit functions; a bounded class type parameter handed to a parameterized abstract '
        'superclass, minimal and with generic methods and a receiver-less function reference) = %d programs.  For '
        'every program, with each of the four translators: reference text = first translation by a fresh object; '
        'compared byte-for-byte with: the same object again; a fresh object; the same object after it went on to '
        'translate the 5 hand-built programs (whose own texts are compared with their references too); a fresh object '
        'that first translated all hand-built programs; the same and a fresh object after the other three translators '
        'translated the program; histories made of the programs of the other languages of the seed and of earlier '
        'stages of the same program; random histories of 2-4 programs from that pool (VERIF_SEED); a second '
        'package/options configuration (home translator and Groovy cast_numbers) and package=None in between; a fresh '
        'object on a pickle copy taken before the first translation.  thorough additionally: every hand-built '
        'program alone as history, more random histories, all scenarios for the three foreign translators too.  '
        'pickle.dumps(program) is compared with its value before the first translation after every group of '
        'scenarios (structure: a structural walk differs; sharing: only the aliasing of sub-objects differs).  '
        'One evaluation = one such comparison.  A program is non-trivial if it declares >= 1 class and >= 1 function '
        'with a block body and its home-language text has >= 10 lines (hand-built shapes count); distinct by sha1 of '
        'pickle bytes.  Not covered: histories containing a translation that raised (not a performed translation; '
        '%d (program, translator) pairs skipped because the first translation raised%s); %d seeds dropped because '
        'generation or a transformation raised (C18).  utils.random is deliberately NOT reseeded between the '
        'translations of a program (hidden RNG state is part of the history).'
        % (len(seeds), base if len(base) < 10 else '%d..%d' % (min(base), max(base)), len(seeds) - len(base), nprog,
           sum(skipped.values()), (': ' + repr(skipped)) if skipped else '', len(aborted)))
    return dict(evaluations=sum(r['evals'] for r in results), distinct_nontrivial=len(fps), rule=rule,
                samples=samples[:3], violations=violations, exhaustive=False, programs=nprog,
                translations=sum(r['translations'] for r in results), seconds=round(time.time() - t0, 1),
                cpu_seconds=round(sum(r['cpu'] for r in results), 1),
                slowest_jobs=sorted(((round(r['cpu'], 1), r['seed']) for r in results), reverse=True)[:4],
                aborted_seeds=aborted, violation_counts=counts)


def replay(fi):
    """re-execute the recorded input on the current tree: True if the property holds on it"""
    env = load(os.environ.get('HEPH_REPO', '/repo'))
    vseed = int(fi.get('verif_seed', 0))
    tier = fi.get('tier', 'thorough')
    # the whole job of that seed is re-run (the generator RNG and the node hash counter are job-wide state), every
    # violation is kept, and those of the recorded check on the recorded program decide
    if fi.get('seed') == 'hand':
        r = run_hand(env, vseed, keep_all=True)
    else:
        r = run_seed(env, int(fi['seed']), tier, vseed, keep_all=True)
    bad = [v for v in r['violations'] if v['check'] == fi['check'] and v.get('lang') == fi.get('lang')
           and v.get('stage') == fi.get('stage')]
    for v in bad[:3]:
        print('%s on program (seed=%s, %s, %s), %s translator: %s' % (
            v['check'], v.get('seed'), v.get('lang'), v.get('stage'), v.get('translator'),
            {k: v[k] for k in ('scenario', 'after', 'line', 'expected', 'actual') if k in v}))
    return not bad


if __name__ == '__main__':
    import json
    tier = sys.argv[1] if len(sys.argv) > 1 else 'quick'
    r = run(tier, int(os.environ.get('VERIF_SEED', '0')))
    print(json.dumps({k: v for k, v in r.items() if k != 'rule'}, indent=1, default=str)[:8000])
    print(r['rule'])
