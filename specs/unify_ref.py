"""C10 - bounded stand-in: executable reference for "type unification returns a unifier or nothing".

Everything in this file is written FROM THE PROPERTY STATEMENT, on a term representation of its own:

    ('B', key)              builtin of the language (Any / Number / Integer / String), hierarchy stated per language below
    ('S', name)             user class without parameters
    ('P', name, (args...))  instance of a generic class
    ('W', kind, bound)      use-site projection: kind 'out' / 'in' (bound is a term) or '*' (bound is None)
    ('V', name)             type variable: a *pattern* variable (may be assigned by unification) or a *scope* variable of
                            the target (rigid)

A class table is plain data (`Table`).  Inputs are generated as terms, the real IR objects are built from the terms, the
real `unify_types` is run on them, and a non-empty answer is read back into terms and judged by

  * `match_eq`   - the reference substitution applied to the pattern equals the target structurally, where a position
                   holding a variable the assignment leaves open accepts any target component that satisfies the
                   variable's (instantiated) bound; projection kinds must agree position by position;
  * `sub`        - the declarative subtype relation of the class table (reflexivity, top, declared supertypes with
                   substitution, upper bound of a variable, containment of arguments by declared variance / projection);
                   used for "one of the target's supertypes" (supertype-matching mode) and for every bound check;
  * `satisfies`  - "component c satisfies the bound of variable n" = upper(c) <: bound(n)[assignment].

The statement only constrains NON-EMPTY answers (an empty answer is always allowed), so nothing here asks for completeness.
An exception on a well-formed input is a violation.
"""
import itertools
import random

FUNCTION = 'src.ir.type_utils.unify_types'
TOP = ('B', 'Any')
INV, OUT, IN, STAR = 'inv', 'out', 'in', '*'
LANGS = ['kotlin', 'java', 'groovy', 'scala']

# Builtin hierarchy per language, from the language definitions (scala.Int is an AnyVal and not a java.lang.Number).
BUILTIN_SUPERS = {
    'kotlin': {'Any': [], 'Number': ['Any'], 'Integer': ['Number'], 'String': ['Any']},
    'java': {'Any': [], 'Number': ['Any'], 'Integer': ['Number'], 'String': ['Any']},
    'groovy': {'Any': [], 'Number': ['Any'], 'Integer': ['Number'], 'String': ['Any']},
    'scala': {'Any': [], 'Number': ['Any'], 'Integer': ['Any'], 'String': ['Any']},
}
B = {k: ('B', k) for k in ('Any', 'Number', 'Integer', 'String')}


def V(n):
    return ('V', n)


def S(n):
    return ('S', n)


def P(n, *args):
    return ('P', n, tuple(args))


def out(t):
    return ('W', OUT, t)


def inn(t):
    return ('W', IN, t)


STAR_T = ('W', STAR, None)


# ------------------------------------------------------------------------------------------------ class tables (data)
class Table:
    """simple:  [(name, [supertype terms])]                     declaration order
       generic: [(name, [(param, variance, bound|None)], [supertype terms over the params])]
       pvars:   [(name, bound|None)]    pattern variables        svars: [(name, bound|None)]  scope (rigid) variables
       small_t / small_p: atoms used where the full product would explode (two-parameter classes, nesting)"""

    def __init__(self, name, lang, simple, generic, pvars, svars, small_t=None, small_p=None, nest=None):
        self.name, self.lang = name, lang
        self.simple_l, self.generic_l, self.pvars_l, self.svars_l = simple, generic, pvars, svars
        self.simple = dict(simple)
        self.generic = {n: (ps, sups) for n, ps, sups in generic}
        self.pvars = dict(pvars)
        self.svars = dict(svars)
        self.small_t, self.small_p, self.nest = small_t, small_p, nest
        cp = {}
        for n, ps, sups in generic:
            for p in ps:
                assert p[0] not in cp and p[0] not in self.pvars and p[0] not in self.svars, 'parameter names are unique'
                cp[p[0]] = p
        self.cparams = cp

    def spec(self):
        return (self.name, self.lang, self.simple_l, self.generic_l, self.pvars_l, self.svars_l)

    @staticmethod
    def from_spec(sp):
        return Table(*sp)

    def with_lang(self, lang):
        return Table(self.name, lang, self.simple_l, self.generic_l, self.pvars_l, self.svars_l, self.small_t,
                     self.small_p, self.nest)


def table_k1(lang='kotlin'):
    simple = [('C1', []), ('C2', [S('C1')]), ('SB', [P('A', B['String'])]), ('M', [S('C1'), P('A', B['Integer'])])]
    generic = [
        ('A', [('AP', INV, None)], []),
        ('Aco', [('CoP', OUT, None)], []),
        ('Ain', [('CnP', IN, None)], []),
        ('B2', [('BP', INV, None), ('BQ', INV, None)], []),
        ('Base', [('BaP', INV, None)], []),
        ('Derived', [('DeP', INV, None)], [P('Base', V('DeP'))]),
        ('Deep', [('DpP', INV, None)], [P('Derived', P('A', V('DpP')))]),
        ('DI', [('DiP', INV, None)], [P('A', B['Integer'])]),
        ('Two', [('TwP', INV, None), ('TwQ', INV, None)], [P('B2', V('TwQ'), V('TwP'))]),
        ('N', [('NP', INV, B['Number'])], []),
    ]
    pvars = [('T', None), ('U', None), ('Tn', B['Number']), ('Ti', B['Integer']), ('Tv', V('T')),
             ('Tg', P('A', B['String'])), ('Tp', P('A', V('T'))), ('Tq', P('B2', B['String'], V('U'))),
             ('To', P('A', out(B['Number']))), ('Tb', P('Base', V('T')))]
    svars = [('Y', None), ('Z', B['Number']), ('Zi', B['Integer'])]
    return Table('K1', lang, simple, generic, pvars, svars,
                 small_t=[B['String'], B['Integer'], V('Y'), V('Z'), S('C2')],
                 small_p=[B['String'], V('T'), V('U'), V('Tn'), V('Tp'), V('Tq'), V('Ti')],
                 nest=['A', 'Derived', 'Aco', 'B2', 'Base'])


def table_k2(lang='java'):
    simple = [('R0', []), ('R1', [S('R0')]), ('R2', [S('R1')]), ('SL', [S('R0'), P('L', S('R1'))]),
              ('SP', [P('Pair', B['String'], S('R1')), S('R0')])]
    generic = [
        ('L', [('LE', OUT, None)], []),
        ('F', [('FA', IN, None), ('FR', OUT, None)], []),
        ('Pair', [('PaK', INV, None), ('PaV', INV, None)], []),
        ('Box', [('BoP', INV, S('R0'))], []),
        ('SubPair', [('SpP', INV, None)], [P('Pair', V('SpP'), P('L', V('SpP')))]),
        ('Chain1', [('C1A', INV, None), ('C1B', INV, None)], []),
        ('Chain2', [('C2P', INV, None)], [P('Chain1', V('C2P'), S('R1'))]),
        ('Chain3', [('C3P', INV, None)], [S('R0'), P('Chain2', P('L', V('C3P')))]),
        ('Cell', [('CeP', INV, None)], []),
    ]
    pvars = [('T', None), ('U', None), ('Tr', S('R1')), ('Tl', P('L', V('T'))), ('Tc', P('Cell', V('T'))),
             ('Tpp', P('Pair', V('T'), V('T'))), ('Tu', V('Tr'))]
    svars = [('Y', None), ('Z', S('R1'))]
    return Table('K2', lang, simple, generic, pvars, svars,
                 small_t=[B['String'], S('R1'), S('R2'), V('Y'), V('Z')],
                 small_p=[B['String'], S('R1'), V('T'), V('U'), V('Tr'), V('Tc'), V('Tpp')],
                 nest=['Cell', 'Pair', 'L', 'Chain2', 'Chain1'])


def random_table(rnd, idx):
    """a random class table (random part only): 2-3 simple classes in a chain, 4-6 generic classes with random arity /
    declared variance / parameter bound, each possibly inheriting from an earlier generic class"""
    lang = rnd.choice(LANGS)
    simple = [('Q0', []), ('Q1', [S('Q0')])]
    if rnd.random() < 0.6:
        simple.append(('Q2', [S('Q1')]))
    grounds = [B['String'], B['Integer'], B['Number']] + [S(n) for n, _ in simple]
    generic = []
    for k in range(rnd.randint(4, 6)):
        name = 'G%d' % k
        ar = 1 if rnd.random() < 0.6 else 2
        params = []
        for j in range(ar):
            var = rnd.choice([INV, INV, INV, OUT, IN])
            bnd = rnd.choice([None, None, None, B['Number'], S('Q0')])
            params.append(('%sp%d' % (name, j), var, bnd))
        sups = []
        if generic and rnd.random() < 0.7:
            pn, pps, _ = rnd.choice(generic)
            args = []
            for pp in pps:
                own = [V(q[0]) for q in params if q[2] == pp[2] or pp[2] is None]
                inv_own = [V(q[0]) for q in params if q[1] == INV and (q[2] == pp[2] or pp[2] is None)]
                r = rnd.random()
                if inv_own and r < 0.55:
                    args.append(rnd.choice(inv_own))
                elif inv_own and generic and r < 0.75 and pp[2] is None:
                    one = [g for g in generic if len(g[1]) == 1 and g[1][0][2] is None]
                    args.append(P(rnd.choice(one)[0], rnd.choice(inv_own)) if one else rnd.choice(inv_own))
                else:
                    ok = [g for g in grounds if pp[2] is None or g == pp[2] or (pp[2] == S('Q0') and g[0] == 'S')
                          or (pp[2] == B['Number'] and g == B['Number'])]
                    args.append(rnd.choice(ok))
            sups = [P(pn, *args)]
            if rnd.random() < 0.3:
                sups = [S('Q0')] + sups if rnd.random() < 0.5 else sups + [S('Q0')]
        generic.append((name, params, sups))
    if rnd.random() < 0.7:
        g = rnd.choice([g for g in generic])
        args = [rnd.choice([x for x in grounds if p[2] is None or x == p[2]]) for p in g[1]]
        simple.append(('QS', [P(g[0], *args)]))
    one = [g[0] for g in generic if len(g[1]) == 1 and g[1][0][2] is None]
    pvars = [('T', None), ('U', None), ('Tn', B['Number']), ('Tq', S('Q1')), ('Tv', V('T'))]
    if one:
        pvars.append(('Tp', P(rnd.choice(one), V('T'))))
        pvars.append(('Tg', P(rnd.choice(one), B['String'])))
    svars = [('Y', None), ('Z', B['Number']), ('Zq', S('Q1'))]
    return Table('R%d' % idx, lang, simple, generic, pvars, svars)


# ------------------------------------------------------------------------------------------------ reference semantics
def subst(t, m):
    """reference substitution of variables by name"""
    k = t[0]
    if k == 'V':
        return m.get(t[1], t)
    if k == 'P':
        return ('P', t[1], tuple(subst(a, m) for a in t[2]))
    if k == 'W' and t[2] is not None:
        return ('W', t[1], subst(t[2], m))
    return t


def show(t):
    if t is None:
        return 'None'
    k = t[0]
    if k == 'B':
        return t[1]
    if k in ('S', 'V'):
        return t[1]
    if k == 'P':
        return '%s<%s>' % (t[1], ', '.join(show(a) for a in t[2]))
    if k == 'W':
        return '*' if t[1] == STAR else '%s %s' % (t[1], show(t[2]))
    return repr(t)


def show_map(pairs):
    return '{' + ', '.join('%s: %s' % (show(k), show(v)) for k, v in pairs) + '}'


def variables(t, acc=None):
    acc = [] if acc is None else acc
    if t[0] == 'V':
        if t[1] not in acc:
            acc.append(t[1])
    elif t[0] == 'P':
        for a in t[2]:
            variables(a, acc)
    elif t[0] == 'W' and t[2] is not None:
        variables(t[2], acc)
    return acc


def depth(t):
    if t[0] == 'P':
        return 1 + max(depth(a) for a in t[2])
    if t[0] == 'W' and t[2] is not None:
        return depth(t[2])
    return 0


def upper(c):
    """upper bound of a component that is a projection (a projection is not a type)"""
    if c[0] == 'W':
        return c[2] if c[1] == OUT else TOP
    return c


class Env:
    """class table + an assignment (pattern variable name -> term); the pattern variables outside it are 'open'"""

    def __init__(self, table, sigma):
        self.t, self.sigma = table, sigma

    def is_open(self, n):
        return n in self.t.pvars and n not in self.sigma

    def bound(self, n):
        if n in self.t.pvars:
            b = self.t.pvars[n]
            return None if b is None else subst(b, self.sigma)
        if n in self.t.svars:
            return self.t.svars[n]
        if n in self.t.cparams:
            return self.t.cparams[n][2]
        return None

    def supers(self, t):
        k = t[0]
        if k == 'B':
            return [('B', n) for n in BUILTIN_SUPERS[self.t.lang][t[1]]]
        if k == 'S':
            return list(self.t.simple[t[1]])
        if k == 'P':
            params, sups = self.t.generic[t[1]]
            m = {p[0]: a for p, a in zip(params, t[2])}
            return [subst(u, m) for u in sups]
        if k == 'V':
            b = self.bound(t[1])
            return [b] if b is not None else []
        return []

    def supstar(self, t):
        seen = [t]
        for x in seen:
            for u in self.supers(x):
                if u not in seen:
                    seen.append(u)
        return seen


def satisfies(c, n, env, d=0):
    """component c (a type or a projection) satisfies the bound of variable n under env's assignment"""
    b = env.bound(n)
    if b is None:
        return True
    return sub(upper(c), b, env, d + 1)


def sub(s, t, env, d=0):
    """declarative subtyping s <: t.  An OPEN pattern variable on the right is existential: it can be chosen to be s
    provided s satisfies its bound ("up to variables the assignment leaves open")."""
    if d > 16:
        return False
    if s == t or t == TOP:
        return True
    if s[0] == 'W':
        return False
    if t[0] == 'V' and env.is_open(t[1]):
        return satisfies(s, t[1], env, d + 1)
    if s[0] == 'V' and env.is_open(s[1]) and satisfies(t, s[1], env, d + 1):
        return True
    for u in env.supers(s):
        if sub(u, t, env, d + 1):
            return True
    if s[0] == 'P' and t[0] == 'P' and s[1] == t[1] and len(s[2]) == len(t[2]):
        params = env.t.generic[s[1]][0]
        return all(contained(a, b, p[1], env, d + 1) for a, b, p in zip(s[2], t[2], params))
    return False


def contained(a, b, v, env, d):
    """type-argument containment a <= b for a parameter of declared variance v (Kotlin spec, type containment)"""
    if b[0] == 'W' and b[1] == STAR:
        return True
    if b[0] == 'V' and env.is_open(b[1]):
        return satisfies(a, b[1], env, d + 1)          # open position: any component within the variable's bound
    if a[0] == 'V' and env.is_open(a[1]):
        return satisfies(b, a[1], env, d + 1)          # (the pattern side is on the left below an `in` projection)
    if a[0] == 'W' and a[1] == STAR:
        return b == ('W', OUT, TOP)
    va, xa = (a[1], a[2]) if a[0] == 'W' else (v, a)
    vb, xb = (b[1], b[2]) if b[0] == 'W' else (v, b)
    if vb == INV:
        return va == INV and (match_eq(xa, xb, env, d + 1) is None or match_eq(xb, xa, env, d + 1) is None)
    if vb == OUT:
        return va in (INV, OUT) and sub(xa, xb, env, d + 1)
    return va in (INV, IN) and sub(xb, xa, env, d + 1)


def match_eq(c, p, env, d=0):
    """None if the assignment applied to pattern p equals component c up to open variables, else the reason"""
    if d > 16:
        return 'mismatch'
    if p[0] == 'V' and p[1] in env.sigma:
        return None if c == env.sigma[p[1]] else 'conflict'       # the variable would need two different types
    if p[0] == 'V' and env.is_open(p[1]):
        return None if satisfies(c, p[1], env, d + 1) else 'open-bound'
    if p[0] == 'W' or c[0] == 'W':
        if p[0] != c[0] or p[1] != c[1]:
            return 'projection'
        if p[2] is None or c[2] is None:
            return None if p[2] is None and c[2] is None else 'projection'
        return match_eq(c[2], p[2], env, d + 1)
    if p[0] == 'P':
        if c[0] != 'P' or c[1] != p[1] or len(c[2]) != len(p[2]):
            return 'mismatch'
        for a, b in zip(c[2], p[2]):
            r = match_eq(a, b, env, d + 1)
            if r:
                return r
        return None
    return None if c == p else 'mismatch'


def judge(table, target, pattern, same_type, pairs):
    """pairs: the non-empty answer as [(key term, value term)].  Returns [(kind, expected-text)] (empty: property holds)"""
    bad = []
    sigma = {}
    for k, v in pairs:
        if k[0] != 'V' or k[1] not in table.pvars:
            bad.append(('assigned-non-variable', 'every key is a variable of the pattern (or of a bound of one)'))
            continue
        if v is None or v[0] in ('NONE', '?'):
            bad.append(('assigned-not-a-type', 'variable %s is assigned a type' % k[1]))
            continue
        if k[1] in sigma and sigma[k[1]] != v:
            bad.append(('conflict', 'variable %s has one type' % k[1]))
            continue
        sigma[k[1]] = v
    if bad:
        return bad
    # an assigned type is (part of) the target or of one of its supertypes: it can only mention variables of the target
    tv = variables(target)
    for n, v in sigma.items():
        alien = [x for x in variables(v) if x not in tv]
        if alien:
            bad.append(('assigned-out-of-scope-variable', 'the type assigned to %s mentions only variables of the target '
                        '%s (found %s)' % (n, tv, alien)))
    if bad:
        return bad          # the clauses below would only repeat the same fault
    env = Env(table, sigma)
    inst = subst(pattern, sigma)
    if same_type:
        r = match_eq(target, pattern, env)
        if r:
            bad.append(('unifier:' + r, 'pattern under the assignment = %s equals the target %s up to open variables '
                        'within their bounds' % (show(inst), show(target))))
    else:
        # literally: a declared (transitive) supertype equal to the instantiated pattern up to open variables;
        # more generally: any supertype in the declarative relation
        if all(match_eq(s, pattern, env) for s in env.supstar(target)) and not sub(target, inst, env):
            rs = [match_eq(s, pattern, env) for s in env.supstar(target)
                  if s[0] == pattern[0] and (s[0] != 'P' or s[1] == pattern[1])]
            r = rs[0] if rs and rs[0] else 'mismatch'
            bad.append(('supertype:' + r, 'pattern under the assignment = %s is the target %s or one of its supertypes %s'
                        % (show(inst), show(target), [show(x) for x in env.supstar(target)[1:]])))
    for n, v in sigma.items():
        if not satisfies(v, n, env):
            bad.append(('assigned-bound', '%s assigned to %s satisfies its bound %s'
                        % (show(v), n, show(env.bound(n)))))
    return bad


def wellformed(t, table, env=None):
    """the input domain: arguments (and the bounds of projections) respect the bounds of the class parameters; a use-site
    projection never conflicts with the declared variance and is not nested directly in a projection; the same holds
    for every declared supertype after substitution of the arguments (a type whose supertype would be ill-formed, e.g.
    `class G<P> : Cov<P>` used as G<in X>, is not a type of the language)"""
    env = env or Env(table, {})
    if t[0] == 'P':
        params = table.generic[t[1]][0]
        if len(params) != len(t[2]):
            return False
        rigid = Env(table, {n: V(n) for n in table.pvars})     # a pattern variable is judged by its own bound
        for a, p in zip(t[2], params):
            if a[0] == 'W' and a[1] == STAR:
                continue
            x = a
            if a[0] == 'W':
                if (p[1] != INV and p[1] != a[1]) or a[2][0] == 'W':
                    return False
                x = a[2]
            if not wellformed(x, table, env):
                return False
            if p[2] is not None and not sub(x, p[2], rigid):
                return False
        return all(wellformed(u, table, env) for u in env.supers(t))
    if t[0] == 'W':
        return t[2] is None or wellformed(t[2], table, env)
    return True


# ------------------------------------------------------------------------------------------------ real objects
class Real:
    """builds the real IR objects of a class table from terms and reads real answers back into terms"""

    def __init__(self, table):
        import importlib
        self.table = table
        self.tp = importlib.import_module('src.ir.types')
        self.tu = importlib.import_module('src.ir.type_utils')
        mod = importlib.import_module('src.ir.%s_types' % table.lang)
        self.factory = getattr(mod, table.lang.capitalize() + 'BuiltinFactory')()
        f = self.factory
        self.builtins = {'Any': f.get_any_type(), 'Number': f.get_number_type(), 'Integer': f.get_integer_type(),
                         'String': f.get_string_type()}
        self.cache = {}
        self.cons = {}
        self.simple = {}
        self.varobj = {}
        tp = self.tp
        self.variance = {INV: tp.Invariant, OUT: tp.Covariant, IN: tp.Contravariant}
        # declaration order: a supertype / bound refers only to classes declared earlier (simple classes that inherit
        # from a generic instance are built lazily for that reason)
        for name, params, sups in table.generic_l:
            self._ensure_simple_in(sups + [p[2] for p in params if p[2] is not None])
            ps = [tp.TypeParameter(p[0], self.variance[p[1]], self.build(p[2]) if p[2] is not None else None)
                  for p in params]
            for p, o in zip(params, ps):
                self.varobj[p[0]] = o
            self.cons[name] = tp.TypeConstructor(name, ps, [self.build(u) for u in sups])
        for name, _ in table.simple_l:
            self._simple(name)

    def _ensure_simple_in(self, terms):
        for t in terms:
            if t[0] == 'S':
                self._simple(t[1])
            elif t[0] == 'P':
                self._ensure_simple_in(list(t[2]))
            elif t[0] == 'W' and t[2] is not None:
                self._ensure_simple_in([t[2]])

    def _simple(self, name):
        if name not in self.simple:
            self.simple[name] = self.tp.SimpleClassifier(name, [self.build(u) for u in self.table.simple[name]])
        return self.simple[name]

    def build(self, t):
        if t in self.cache:
            return self.cache[t]
        tp = self.tp
        k = t[0]
        if k == 'B':
            r = self.builtins[t[1]]
        elif k == 'S':
            r = self._simple(t[1])
        elif k == 'V':
            if t[1] not in self.varobj:
                b = self.table.pvars[t[1]] if t[1] in self.table.pvars else self.table.svars[t[1]]
                self.varobj[t[1]] = tp.TypeParameter(t[1], tp.Invariant, self.build(b) if b is not None else None)
            r = self.varobj[t[1]]
        elif k == 'P':
            r = self.cons[t[1]].new([self.build(a) for a in t[2]])
        elif k == 'W':
            r = tp.WildCardType() if t[1] == STAR else tp.WildCardType(self.build(t[2]), self.variance[t[1]])
        else:
            raise ValueError(t)
        self.cache[t] = r
        return r

    def norm(self, o):
        tp = self.tp
        if o is None:
            return ('NONE',)
        if isinstance(o, tp.TypeParameter):
            return ('V', o.name)
        if isinstance(o, tp.WildCardType):
            if o.bound is None:
                return STAR_T
            kind = OUT if o.variance.is_covariant() else IN if o.variance.is_contravariant() else INV
            return ('W', kind, self.norm(o.bound))
        if isinstance(o, tp.ParameterizedType):
            return ('P', o.name, tuple(self.norm(a) for a in o.type_args))
        if isinstance(o, tp.Builtin):
            for k, b in self.builtins.items():
                if type(b) is type(o):
                    return ('B', k)
            return ('?', type(o).__name__)
        if isinstance(o, tp.SimpleClassifier):
            return ('S', o.name)
        return ('?', type(o).__name__)

    def model_check(self):
        """the class table the real objects carry is the one stated in the terms (guards the harness, not the property)"""
        env = Env(self.table, {})
        for k, o in self.builtins.items():
            want = sorted(x[1] for x in env.supstar(('B', k)))
            got = sorted(self.norm(x)[1] for x in o.get_supertypes() | {o} if self.norm(x)[0] == 'B')
            assert want == got, ('builtin hierarchy of the model differs from the code', self.table.lang, k, want, got)

    def unify(self, target, pattern, same_type):
        """-> ('ok', [(key term, value term)]) or ('exc', text)"""
        a, b = self.build(target), self.build(pattern)
        try:
            r = self.tu.unify_types(a, b, self.factory, same_type=same_type)
        except RecursionError as e:
            return 'exc', 'RecursionError'
        except Exception as e:
            return 'exc', '%s: %s' % (type(e).__name__, e)
        if not isinstance(r, dict):
            return 'exc', 'returned %r instead of a dict' % (r,)
        return 'ok', [(self.norm(k), self.norm(v)) for k, v in r.items()]


def evaluate(real, target, pattern, same_type):
    """-> (nontrivial, [(kind, expected, actual)])"""
    st, res = real.unify(target, pattern, same_type)
    if st == 'exc':
        return True, [('exception:' + res.split(':')[0], 'an assignment (possibly empty) is returned', res)]
    if not res:
        return False, []
    return True, [(k, e, show_map(res)) for k, e in judge(real.table, target, pattern, same_type, res)]


# ------------------------------------------------------------------------------------------------ input spaces
def grounds(table):
    return [B['String'], B['Integer'], B['Number']] + [S(n) for n, _ in table.simple_l]


def arg_forms(atoms, variance, stars=True):
    res = list(atoms)
    if variance == INV:
        res += [out(a) for a in atoms] + [inn(a) for a in atoms]
    if stars:
        res.append(STAR_T)
    return res


def level1(table, atoms, small):
    """every instance of every generic class whose arguments are atoms (plain / out / in) or *; two-parameter classes
    use the small atom list"""
    res = []
    for name, params, _ in table.generic_l:
        at = atoms if len(params) == 1 else small
        choices = [arg_forms(at, p[1]) if len(params) == 1 else
                   list(at) + ([out(a) for a in at] + [inn(at[1])] if p[1] == INV else []) + [STAR_T] for p in params]
        for args in itertools.product(*choices):
            t = P(name, *args)
            if wellformed(t, table):
                res.append(t)
    return res


def level2(table, small, inner_small, twos):
    """nested generic arguments: outer class from table.nest, inner = small instances (plain or out-projected) or atom"""
    inner = []
    for name in table.nest:
        params = table.generic[name][0]
        choices = [list(inner_small) + ([out(inner_small[1]), STAR_T] if p[1] == INV else []) for p in params]
        if len(params) == 2:
            choices = [list(inner_small[:3]) for p in params]
        for args in itertools.product(*choices):
            t = P(name, *args)
            if wellformed(t, table):
                inner.append(t)
    res = []
    for name in table.nest:
        params = table.generic[name][0]
        if len(params) == 1:
            forms = inner + ([out(x) for x in inner] + [inn(x) for x in inner[:6]] if params[0][1] == INV else [])
            cands = [P(name, a) for a in forms]
        else:
            cands = [P(name, a, b) for a in small for b in inner] + [P(name, a, b) for a in inner for b in small]
            cands += [P(name, a, b) for a in twos for b in twos]
        res += [t for t in cands if wellformed(t, table)]
    return res


def heads(env, t):
    return [(x[0], x[1]) for x in env.supstar(t)]


def uniq(xs):
    return list(dict.fromkeys(xs))


def fixed_space(table, tier):
    """yields groups (target, [patterns], same_type); exhaustive within the stated bounds and free of repetitions"""
    env = Env(table, {})
    at = grounds(table) + [V(n) for n, _ in table.svars_l]
    ap = grounds(table) + [V(n) for n, _ in table.pvars_l]
    t1 = uniq(at + level1(table, at, table.small_t))
    p1 = uniq(ap + level1(table, ap, table.small_p))
    # (1) every depth<=1 target against every depth<=1 pattern, both modes
    for mode in (True, False):
        for t in t1:
            yield t, p1, mode
    # depth 2, related heads only (same head, or the pattern's head among the heads of the target's supertypes)
    it, ip = table.small_t[:4], table.small_p[:4]
    n = table.nest
    one = len(table.generic[n[1]][0]) == 1
    tw_t = [P(n[0], x) for x in it[:3]] + ([P(n[1], it[0])] if one else [])
    tw_p = [P(n[0], x) for x in ip[:4]] + ([P(n[1], ip[1])] if one else [])
    t2 = uniq(level2(table, it, it, tw_t))
    p2 = uniq(level2(table, ip, ip, tw_p))
    # subclasses of the nest classes instantiated with small atoms / one nested instance: targets for supertype mode
    sub_t = []
    for name, params, sups in table.generic_l:
        if sups and name not in table.nest:
            for args in itertools.product(*[it + [P(n[0], it[0]), P(n[0], it[2])] for _ in params]):
                t = P(name, *args)
                if wellformed(t, table):
                    sub_t.append(t)
    p2h, p1h = {}, {}
    for p in p2:
        p2h.setdefault((p[0], p[1]), []).append(p)
    for p in p1:
        p1h.setdefault((p[0], p[1]), []).append(p)
    in_t1 = set(t1)
    # (2) depth-2 / subclass targets against depth-2 and depth-1 patterns with a related head
    for t in uniq(t2 + sub_t):
        hs = uniq(heads(env, t))
        for h in hs:
            ps = p2h.get(h, []) + ([] if t in in_t1 else p1h.get(h, []))
            if ps:
                yield t, ps, False
                if h == hs[0]:
                    yield t, ps, True
    # (3) depth-1 targets against depth-2 patterns with a related head
    for t in t1:
        if t[0] != 'P':
            continue
        hs = uniq(heads(env, t))
        for h in hs:
            ps = p2h.get(h, [])
            if ps:
                yield t, ps, False
                if h == hs[0]:
                    yield t, ps, True


# ---- random part
def rnd_target(rnd, table, d, allow_proj=True):
    at = grounds(table) + [V(n) for n, _ in table.svars_l]
    if d == 0 or rnd.random() < 0.35:
        return rnd.choice(at)
    for _ in range(20):
        name, params, _s = rnd.choice(table.generic_l)
        args = []
        for p in params:
            x = rnd_target(rnd, table, d - 1)
            r = rnd.random()
            if p[1] == INV and allow_proj and r < 0.15:
                x = out(x)
            elif p[1] == INV and allow_proj and r < 0.25:
                x = inn(x)
            elif r < 0.30:
                x = STAR_T
            args.append(x)
        t = P(name, *args)
        if wellformed(t, table):
            return t
    return rnd.choice(at)


def generalize(rnd, table, t, q):
    """anti-unification style pattern of t: sub-terms are replaced by pattern variables (the same variable may be used
    at positions holding different sub-terms: those patterns must NOT unify)"""
    pv = [n for n, _ in table.pvars_l]
    if rnd.random() < q or t[0] == 'V':               # every variable of a pattern is a pattern variable
        return V(rnd.choice(pv[:2]) if rnd.random() < 0.6 else rnd.choice(pv))
    if t[0] == 'P':
        return ('P', t[1], tuple(generalize(rnd, table, a, q * 1.6) for a in t[2]))
    if t[0] == 'W' and t[2] is not None:
        kind = t[1] if rnd.random() < 0.85 else (IN if t[1] == OUT else OUT)
        return ('W', kind, generalize(rnd, table, t[2], q * 1.6))
    return t


def positions(t, pre=()):
    yield pre
    if t[0] == 'P':
        for i, a in enumerate(t[2]):
            for x in positions(a, pre + (i,)):
                yield x
    elif t[0] == 'W' and t[2] is not None:
        for x in positions(t[2], pre + ('b',)):
            yield x


def replace_at(t, pos, f):
    if not pos:
        return f(t)
    if pos[0] == 'b':
        return ('W', t[1], replace_at(t[2], pos[1:], f))
    args = list(t[2])
    args[pos[0]] = replace_at(args[pos[0]], pos[1:], f)
    return ('P', t[1], tuple(args))


def mutate(rnd, table, t):
    """a near miss of t: one position changed (projection kind, atom, class of an instance, whole sub-term)"""
    pos = rnd.choice(list(positions(t)))

    def f(x):
        r = rnd.random()
        if x[0] == 'W' and x[2] is not None and r < 0.5:
            return rnd.choice([('W', IN if x[1] == OUT else OUT, x[2]), x[2], STAR_T])
        if x[0] == 'P' and r < 0.5:
            same = [g[0] for g in table.generic_l if len(g[1]) == len(x[2]) and g[0] != x[1]]
            if same:
                return ('P', rnd.choice(same), x[2])
        if x[0] != 'W' and r < 0.7 and pos and pos[-1] != 'b':
            return rnd.choice([out(x), inn(x)])
        return rnd_target(rnd, table, 1)
    m = replace_at(t, pos, f)
    return m if wellformed(m, table) else t


def random_space(table, rnd, n):
    """n random (pattern, target) families: a random target, a pattern generalized from it or from one of its supertypes,
    the target itself, near misses of it and an unrelated target, in both modes"""
    env = Env(table, {})
    for _ in range(n):
        t = rnd_target(rnd, table, rnd.choice([1, 2, 2, 3]))
        sup = env.supstar(t)
        src = rnd.choice(sup) if rnd.random() < 0.5 else t
        if src == TOP:
            src = t
        p = generalize(rnd, table, src, 0.12)
        if not wellformed(p, table):
            continue
        targets = [t, mutate(rnd, table, t), mutate(rnd, table, mutate(rnd, table, t)), rnd_target(rnd, table, 2)]
        for x in uniq(targets):
            yield x, [p], True
            yield x, [p], False


# ------------------------------------------------------------------------------------------------ driver
def _tables(tier):
    if tier == 'quick':
        return [table_k1('kotlin'), table_k2('java')]
    return [table_k1(l) for l in LANGS] + [table_k2(l) for l in LANGS]


def run(tier, seed, stop_first=False):
    random.seed(0)
    evals = 0
    nontrivial = 0
    per_table = {}
    samples = []
    violations = []
    seen_kinds = set()
    nt_seen = set()

    def record(table, origin, t, p, mode, found):
        for kind, expected, actual in found:
            if kind in seen_kinds:
                continue
            seen_kinds.add(kind)
            violations.append(dict(
                check='bounded[%s]' % kind, function=FUNCTION, table=repr(table.spec()), lang=table.lang,
                target=repr(t), pattern=repr(p), same_type=mode, origin=origin,
                call='unify_types(%s, %s, same_type=%s)' % (show(t), show(p), mode),
                expected=expected, actual=actual))

    def drive(table, origin, space, dedup=False):
        nonlocal evals, nontrivial
        real = Real(table)
        real.model_check()
        unify, factory, build = real.tu.unify_types, real.factory, real.build
        objs = {}
        seen = set()
        tname = table.name + '/' + table.lang
        for t, ps, mode in space:
            a = build(t)
            k = id(ps)
            if k not in objs:
                objs[k] = (ps, [build(p) for p in ps])     # (ps kept alive so that id() stays unique)
            for p, b in zip(*objs[k]):
                if dedup:
                    key = (t, p, mode)
                    if key in seen:
                        continue
                    seen.add(key)
                evals += 1
                try:
                    r = unify(a, b, factory, same_type=mode)
                    if not r and isinstance(r, dict):
                        continue                           # empty answer: nothing to judge
                except Exception:
                    pass
                nt, found = evaluate(real, t, p, mode)
                key = (tname, t, p, mode)
                if key not in nt_seen:
                    nt_seen.add(key)
                    nontrivial += 1
                    per_table[tname] = per_table.get(tname, 0) + 1
                if not found and len(samples) < 6 and depth(p) >= 1 + (len(samples) % 2) and (nontrivial % 97 == 1):
                    samples.append('unify_types(%s, %s, same_type=%s) = %s'
                                   % (show(t), show(p), mode, show_map(real.unify(t, p, mode)[1])))
                if found:
                    record(table, origin, t, p, mode, found)
                    if stop_first:
                        return True
            if len(ps) == 1:
                del objs[k]
        return False

    stop = False
    for table in _tables(tier):
        stop = drive(table, 'exhaustive', fixed_space(table, tier))
        if stop:
            break
    n_rt, n_fam = (6, 400) if tier == 'quick' else (60, 2500)
    if not stop:
        # fixed base seeds first, then the VERIF_SEED part: runs are reproducible and the seed only adds inputs
        for base in (1, 2) if tier == 'quick' else (1, 2, 3, 4):
            rnd = random.Random(1000 + base)
            for table in _tables(tier):
                stop = stop or drive(table, 'random(base %d)' % base, random_space(table, rnd, n_fam), dedup=True)
        rnd = random.Random('c10-%s' % seed)
        for i in range(n_rt):
            if stop:
                break
            table = random_table(rnd, i)
            stop = drive(table, 'random(seed %s, table %d)' % (seed, i), random_space(table, rnd, n_fam), dedup=True)
    if stop_first and violations:
        return dict(violations=violations)
    nt_tables = len(_tables(tier))
    rule = ('unify_types run on (target, pattern, mode) triples built from term-level class tables: %d fixed tables '
            '(K1: A/Aco/Ain/B2/Base/Derived:Base/Deep:Derived<A<.>>/DI:A<Integer>/Two:B2 swapped/N<P:Number>, simple classes '
            'inheriting generic instances; K2: covariant L, F<in,out>, Pair, bounded Box, SubPair, Chain3:Chain2:Chain1; '
            'languages %s); EXHAUSTIVELY all pairs of depth <= 1 types (every class, arguments = every ground atom / scope '
            'variable / pattern variable [unbounded, bounded by a class, by another variable, by a parameterized type '
            'mentioning a variable, by a projected type], plain / out / in / *; two-parameter classes over a reduced atom list, '
            'so repeated variables are covered) in both modes, plus all depth-2 pairs with related head classes over a '
            'reduced atom list (nested generic arguments, nested projections, subclass targets for supertype mode); plus '
            'random families (target, pattern generalized from the target or one of its supertypes, near-miss targets) on '
            'the fixed tables (fixed base seeds) and on %d random class tables (VERIF_SEED). Each non-empty answer is judged by '
            'an independent reference substitution / structural match up to open variables / declarative subtype relation; '
            'an exception is a violation; an empty answer is always accepted (the statement does not ask for completeness; its '
            'last clause "types that cannot be made to match yield the empty assignment" is checked as the contrapositive of the '
            'first). Input domain = well-formed types: class-parameter bounds respected, no projection against the declared '
            'variance (also not in a supertype after substitution), no projection directly inside a projection. '
            'A triple is non-trivial if the real answer is non-empty (or an exception): only then the property constrains '
            'anything; distinct by (table, target, pattern, mode).' % (nt_tables, sorted({t.lang for t in _tables(tier)}), n_rt))
    return dict(evaluations=evals, distinct_nontrivial=nontrivial, rule=rule, samples=samples, violations=violations,
                exhaustive=True, nontrivial_per_table=per_table)


def replay(fi):
    """re-execute a recorded input on the current tree; True if the property holds on it"""
    random.seed(0)
    table = Table.from_spec(eval(fi['table'], {}))
    t, p, mode = eval(fi['target'], {}), eval(fi['pattern'], {}), bool(fi['same_type'])
    real = Real(table)
    nt, found = evaluate(real, t, p, mode)
    want = fi.get('check', '')
    st, res = real.unify(t, p, mode)
    print('unify_types(%s, %s, same_type=%s) = %s' % (show(t), show(p), mode, show_map(res) if st == 'ok' else res))
    for kind, expected, actual in found:
        print('  bounded[%s]: expected: %s; actual: %s' % (kind, expected, actual))
    return not found
