"""Executable reference definitions for the graph queries of C19 (written from the textbook
definitions, not from the code).  Used for replay search, the bounded stand-ins, and the engine cross-check."""
import itertools


def succ(g, u):
    return list(g.get(u, []))


def closure(g, s, step):
    seen = {s}
    todo = [s]
    while todo:
        u = todo.pop()
        for v in step(u):
            if v not in seen:
                seen.add(v)
                todo.append(v)
    return seen


def reach_keys(g, s):
    """Reach: reflexive-transitive closure over key vertices only (empty if s is not a key)"""
    if s not in g:
        return set()
    return closure(g, s, lambda u: [v for v in succ(g, u) if v in g])


def reachable(g, s, d):
    return d in reach_keys(g, s)


def bi_reachable(g, s, d):
    return reachable(g, s, d) or reachable(g, d, s)


def wreach(g, s):
    if s not in g:
        return set()

    def step(u):
        out = [v for v in succ(g, u) if v in g]
        out += [w for w in g if u in succ(g, w)]
        return out
    return closure(g, s, step)


def connected(g, s, d):
    return d in wreach(g, s)


def ereach(eg, s):
    """closure following e.target, targets need not be keys"""
    return closure(eg, s, lambda u: [e.target for e in eg.get(u, [])])


def dfs(eg, s):
    return ereach(eg, s) - {s}


def find_all_bi_reachable(g, v):
    return {n for n in g if bi_reachable(g, v, n)}


def find_all_connected(g, v):
    return {n for n in g if connected(g, v, n)}


def none_reachable(g, v, none):
    return any(bi_reachable(g, n, none) for n in find_all_bi_reachable(g, v))


def none_connected(g, v, none):
    return any(connected(g, n, none) for n in find_all_connected(g, v))


def find_sources(g, v):
    """vertices of in-degree 0 (w.r.t. key vertices) that reach v"""
    anc = {a for a in g if v in reach_keys(g, a)}
    return {a for a in anc if not any(a in succ(g, n) for n in g)}


def simple_paths(g, start):
    """all simple paths (as tuples) beginning at start; a vertex that is not a key has no successors"""
    out = []

    def go(path):
        out.append(tuple(path))
        for v in succ(g, path[-1]):
            if v not in path:
                go(path + [v])
    go([start])
    return out


def all_reach(g, s):
    """closure following edges also into vertices that are not keys"""
    return closure(g, s, lambda u: succ(g, u))


def maximal(paths):
    ps = [tuple(p) for p in paths]
    return [p for p in ps if not any(len(p) < len(q) and q[:len(p)] == p for q in ps)]


def all_graphs(vertices, extra=()):
    """every digraph (self-loops allowed) over `vertices` as adjacency lists in a fixed order;
    `extra` vertices may appear as edge targets without being keys"""
    vs = list(vertices)
    targets = vs + list(extra)
    subsets = []
    for r in range(len(targets) + 1):
        subsets.extend(itertools.combinations(targets, r))
    for choice in itertools.product(subsets, repeat=len(vs)):
        yield {v: list(adj) for v, adj in zip(vs, choice)}
