"""C13 - saved programs replay faithfully: executable reference + bounded driver.

Written from the property statement, not from the code:

  "A program written by the tool's binary dump and read back is indistinguishable from the original: it translates to
   identical text in every language, the mutations applied to it (with the same random choices) produce the same
   result as on the original, and dumping it again is stable."
  for all programs at every stage at which the driver saves them (generated, after each erasure, after overwriting).

Oracle (per saved program p, q = read-back of the .bin written next to the source text):
  indistinguishable   canon(q) == canon(p): the two object graphs are isomorphic - same classes, same attributes in the
                      same order, equal atoms, same aliasing between mutable objects (identity of immutable atoms and
                      tuples is not observable and is ignored); and every symbol-table query answers alike
                      (names per namespace and kind, reverse lookup declaration -> namespace).
  identical text      for each of the four translators, translate(q) == translate(p) (an exception counts as an outcome);
                      in the program's own language the text must also equal the source file stored next to the .bin.
  same mutation       with the generator of random choices put in the same state, mutation(q) gives the same outcome as
                      mutation(p): same "not transformed"/flag/error message/exception, isomorphic result, identical
                      text of the result in the four languages.  q is taken both untouched (--replay) and after it has
                      been translated (--replay --keep-all).
  stable dump         b2 = dump(load(dump p)); dump(load(b2)) == b2 byte for byte, and load(b2) is still isomorphic to p.
                      (dump(p) == b2 byte for byte is NOT required: pickle memoises by object identity, and the identity
                      of equal immutable strings is not preserved by any read-back; measured on the unchanged tree:
                      about one third of the programs differ there by a few memo opcodes.)

The real code is used for every step: hephaestus.save_program (utils.save_text + utils.dump_program),
ProgramProcessor.get_program with args.replay (utils.load_program), ProgramProcessor.transform_program / inject_fault
(TypeErasure / TypeOverwriting), utils.translate_program with the four translators.

Determinism: `random` is seeded before src.utils is imported (word pool), PYTHONHASHSEED=0 is expected, a counter-based
__hash__ is installed on src.ir.node.Node before any node exists (identity __eq__ untouched; the counter lives in a side
table, not in the instance, so it is neither pickled nor disturbed by unpickling), and every (language, seed, lineage)
task runs in a process forked from the freshly loaded state, so a recorded input replays exactly.
"""
import argparse
import hashlib
import itertools
import multiprocessing
import os
import random
import shutil
import sys
import tempfile
import time
import traceback
import weakref

HERE = os.path.dirname(os.path.dirname(os.path.abspath(__file__)))
REPO = os.environ.get('HEPH_REPO', '/repo')

LANGS = ('java', 'kotlin', 'groovy', 'scala')
GLOBAL_SEED = 12345            # global `random` state at import of src.utils (word pool)
KINDS = ('types', 'funcs', 'lambdas', 'vars', 'classes', 'decls')

# a lineage is the word of mutations applied to the ORIGINAL (E = type erasure, O = type overwriting); at every prefix
# the program is saved, read back and compared; the next letter is the mutation compared on original vs read-back.
# together the lineages cover both mutations on every kind of stage: generated (E,O), erased (E,O), overwritten (E,O).
LINEAGES = {
    'quick': ('EEO', 'OE'),
    'thorough': ('EEO', 'EOE', 'OEO', 'OO'),
}
BASE_SEEDS = {'quick': 5, 'thorough': 40}     # seeds 0..n-1 for each of the four languages
EXTRA_SEEDS = {'quick': 1, 'thorough': 8}     # additional seeds per language drawn from VERIF_SEED
WORKERS = {'quick': 6, 'thorough': 12}
BUDGET_S = {'quick': 50, 'thorough': 800}


class _R:
    """the loaded real code"""


_LOADED = None


def _install_node_hash(node_cls):
    table = {}
    counter = itertools.count(1)

    def drop(key):
        def cb(_ref):
            table.pop(key, None)
        return cb

    def __hash__(self):
        key = id(self)
        e = table.get(key)
        if e is None:
            n = next(counter)
            table[key] = (n, weakref.ref(self, drop(key)))
            return n
        return e[0]
    node_cls.__hash__ = __hash__


def _load():
    """(re)import the real code from REPO in a reproducible initial state"""
    global _LOADED
    for m in [k for k in sys.modules if k == 'src' or k.startswith('src.') or k == 'hephaestus']:
        del sys.modules[m]
    if REPO in sys.path:
        sys.path.remove(REPO)
    sys.path.insert(0, REPO)
    import importlib
    random.seed(GLOBAL_SEED)                       # BEFORE src.utils samples its word pool
    node = importlib.import_module('src.ir.node')
    _install_node_hash(node.Node)                  # BEFORE any node exists
    base = tempfile.mkdtemp(prefix='c13_imp_')
    old_argv, old_cwd = sys.argv, os.getcwd()
    sys.argv = ['hephaestus.py', '--language', 'java', '--bugs', os.path.join(base, 'bugs'), '--name', 'c13',
                '--iterations', '1', '--batch', '1', '--transformations', '1']
    os.chdir(base)
    try:
        H = importlib.import_module('hephaestus')
    finally:
        sys.argv = old_argv
        os.chdir(old_cwd)
        shutil.rmtree(base, ignore_errors=True)
    R = _R()
    R.H = H
    R.utils = importlib.import_module('src.utils')
    R.Generator = importlib.import_module('src.generators.generator').Generator
    R.ProgramProcessor = importlib.import_module('src.modules.processor').ProgramProcessor
    R.TRANSLATORS = dict(H.TRANSLATORS)
    for lang in LANGS:
        R.utils.random.remove_reserved_words(lang)
    sys.setrecursionlimit(max(sys.getrecursionlimit(), 10000))
    _LOADED = R
    return R


# ----------------------------------------------------------------------------------------------------------------------
# reference: what "indistinguishable" means for two object graphs

_ATOMS = (str, int, float, bool, type(None), bytes, complex)


class _Tok:
    __slots__ = ('v',)

    def __init__(self, v):
        self.v = v


def _state(o):
    """attributes of an instance, read directly (not through the pickling hooks)"""
    items = []
    d = getattr(o, '__dict__', None)
    if d is not None:
        items.extend(d.items())
    for c in type(o).__mro__:
        sl = c.__dict__.get('__slots__', ())
        if isinstance(sl, str):
            sl = (sl,)
        for s in sl:
            if s in ('__dict__', '__weakref__'):
                continue
            try:
                items.append((s, object.__getattribute__(o, s)))
            except AttributeError:
                items.append((s, _Tok(('unset',))))
    return items


def canon(root):
    """pre-order token list of the object graph; mutable objects are numbered by first visit, so two graphs have the
    same token list iff they are isomorphic (attribute order, dict order and list order included)"""
    out = []
    memo = {}
    keep = []
    stack = [root]
    while stack:
        o = stack.pop()
        t = type(o)
        if t is _Tok:
            out.append(o.v)
            continue
        if t in _ATOMS:
            out.append((t.__name__, repr(o) if t is float else o))
            continue
        if t is tuple:
            out.append(('tuple', len(o)))
            stack.extend(reversed(o))
            continue
        if isinstance(o, type) or callable(o) and hasattr(o, '__qualname__') and not hasattr(o, '__self__') \
                and getattr(o, '__dict__', None) in (None, {}):
            out.append(('global', getattr(o, '__module__', None), o.__qualname__))
            continue
        i = memo.get(id(o))
        if i is not None:
            out.append(('ref', i))
            continue
        memo[id(o)] = len(memo)
        keep.append(o)
        name = t.__module__ + '.' + t.__qualname__
        if isinstance(o, list):
            out.append(('list', name, len(o)))
            stack.extend(reversed(o))
        elif isinstance(o, dict):
            out.append(('dict', name, len(o)))
            if hasattr(o, 'default_factory'):
                stack.append(o.default_factory)
            for k, v in reversed(list(o.items())):
                stack.append(v)
                stack.append(k)
        elif isinstance(o, (set, frozenset)):
            out.append(('set', name, len(o)))
            elems = list(o)
            if not all(type(e) in _ATOMS for e in elems):
                elems.sort(key=lambda e: repr(canon(e)))
            else:
                elems.sort(key=repr)
            stack.extend(reversed(elems))
        else:
            st = _state(o)
            out.append(('obj', name, len(st)))
            for k, v in reversed(st):
                stack.append(v)
                stack.append(_Tok(('attr', k)))
    return out


def canon_diff(a, b):
    """None if equal, else a short description of the first difference (with the enclosing object / attribute)"""
    if a == b:
        return None
    n = min(len(a), len(b))
    i = next((k for k in range(n) if a[k] != b[k]), n)
    where = []
    for k in range(i, -1, -1):
        tok = a[k] if k < len(a) else None
        if tok and tok[0] == 'attr' and not where:
            where.append('.' + str(tok[1]))
        if tok and tok[0] == 'obj':
            where.append(tok[1])
            break
    return dict(at_token=i, inside=''.join(reversed(where)),
                expected=repr(a[i] if i < len(a) else '<end>')[:160], actual=repr(b[i] if i < len(b) else '<end>')[:160],
                tokens_expected=len(a), tokens_actual=len(b))


def context_view(program):
    """everything the symbol table answers about the program, with declarations named by position"""
    ctx = program.context
    getters = dict(types=ctx.get_types, funcs=ctx.get_funcs, lambdas=ctx.get_lambdas, vars=ctx.get_vars,
                   classes=ctx.get_classes, decls=ctx.get_declarations)
    view = []
    for ns in list(ctx._context):
        for kind in KINDS:
            cur = getters[kind](ns, only_current=True)
            for name, decl in cur.items():
                view.append((ns, kind, name, type(decl).__name__, ctx.get_namespace(decl)))
    return view


# ----------------------------------------------------------------------------------------------------------------------
# driver

def _mkargs(R, lang, replay=None, transformations=4):
    a = argparse.Namespace(**vars(R.H.cli_args))
    a.language = lang
    a.replay = replay
    a.debug = False
    a.log = False
    a.transformations = transformations
    a.transformation_schedule = None
    a.transformation_types = ['TypeErasure']
    return a


def _texts(R, program, pkg='src.pkg'):
    """outcome of each of the four translators (fresh translator per call)"""
    res = {}
    for lang in LANGS:
        try:
            t = R.TRANSLATORS[lang](pkg, R.H.cli_args.options['Translator'])
            res[lang] = ('text', R.utils.translate_program(t, program))
        except Exception as e:                      # an exception is an outcome to be reproduced, not hidden
            res[lang] = ('exception', type(e).__name__, str(e)[:200])
    return res


def _first_diff(a, b):
    if a[0] != 'text' or b[0] != 'text':
        return dict(expected=repr(a)[:300], actual=repr(b)[:300])
    la, lb = a[1].split('\n'), b[1].split('\n')
    for i in range(max(len(la), len(lb))):
        x = la[i] if i < len(la) else '<end of text>'
        y = lb[i] if i < len(lb) else '<end of text>'
        if x != y:
            return dict(line=i + 1, expected=x[:200], actual=y[:200])
    return dict(expected='<equal>', actual='<equal>')


def _mutate(R, proc, letter, program, state):
    """apply one mutation through the real ProgramProcessor under the given random state; normalised outcome"""
    R.utils.random.r.setstate(state)
    try:
        if letter == 'E':
            res = proc.transform_program(program)
        else:
            res = proc.inject_fault(program)
    except Exception as e:
        return ('exception', type(e).__name__, str(e)[:200]), None
    if res is None:
        return ('not transformed',), None
    return ('transformed', res[1]), res[0]


def _sha(b):
    return hashlib.sha256(b).hexdigest()[:16]


def run_lineage(R, lang, seed, word, stop_first=False):
    """one original program (language, seed) driven through the mutations of `word`; at every stage the saved program
    is read back and the contract evaluated.  returns dict(stages=[...], violations=[...], skipped=str|None)"""
    utils = R.utils
    H = R.H
    out = dict(language=lang, seed=seed, lineage=word, stages=[], violations=[], skipped=None, checks=0)

    def bad(check, function, stage, **kw):
        if any(v['check'] == 'bounded[%s]' % check for v in out['violations']):
            return
        v = dict(check='bounded[%s]' % check, function=function, language=lang, seed=seed, lineage=word, stage=stage)
        v.update(kw)
        out['violations'].append(v)

    tmp = tempfile.mkdtemp(prefix='c13_run_')
    try:
        utils.random.r.seed(seed)
        utils.random.reset_word_pool()
        own = R.TRANSLATORS[lang]
        proc_p = R.ProgramProcessor(seed, _mkargs(R, lang, transformations=len(word) + 1))
        try:
            p, _ = proc_p.get_program()              # generate_program(): the real generator
        except Exception as e:
            out['skipped'] = 'generator failed: %s: %s' % (type(e).__name__, str(e)[:100])
            return out
        for si in range(len(word) + 1):
            stage = 'generated' if si == 0 else word[:si]
            # --- the driver translates, then saves text and .bin side by side
            try:
                own_text = utils.translate_program(own('src.pkg', H.cli_args.options['Translator']), p)
            except Exception as e:
                out['skipped'] = 'translator failed on the original at stage %s: %s: %s' % (stage, type(e).__name__,
                                                                                           str(e)[:100])
                return out
            src_file = os.path.join(tmp, 'stage%d' % si, own.get_filename())
            H.save_program(p, own_text, src_file)
            with open(src_file + '.bin', 'rb') as f:
                b1 = f.read()
            cp = canon(p)
            ndecl = len(p.get_declarations())

            def read_back():
                pr = R.ProgramProcessor(seed, _mkargs(R, lang, replay=src_file + '.bin', transformations=1))
                return pr, pr.get_program()[0]
            # --- indistinguishable: structure and symbol table
            proc_a, q_a = read_back()
            out['checks'] += 1
            d = canon_diff(cp, canon(q_a))
            if d:
                bad('roundtrip-structure', 'src.utils.load_program', stage, what='read-back program is not isomorphic '
                    'to the original', **d)
            out['checks'] += 1
            va, vb = context_view(p), context_view(q_a)
            if va != vb:
                k = next((i for i in range(min(len(va), len(vb))) if va[i] != vb[i]), min(len(va), len(vb)))
                bad('roundtrip-context', 'src.ir.context.Context', stage, what='symbol table of the read-back program '
                    'answers differently', expected=repr(va[k] if k < len(va) else '<end>'),
                    actual=repr(vb[k] if k < len(vb) else '<end>'))
            # --- stable dump
            out['checks'] += 1
            f2 = os.path.join(tmp, 'stage%d' % si, 'again.bin')
            utils.dump_program(f2, q_a)
            with open(f2, 'rb') as f:
                b2 = f.read()
            q_b = utils.load_program(f2)
            f3 = os.path.join(tmp, 'stage%d' % si, 'again2.bin')
            utils.dump_program(f3, q_b)
            with open(f3, 'rb') as f:
                b3 = f.read()
            if b2 != b3:
                k = next((i for i in range(min(len(b2), len(b3))) if b2[i] != b3[i]), min(len(b2), len(b3)))
                bad('dump-stable', 'src.utils.dump_program', stage, what='dump(load(dump(load(dump p)))) differs from '
                    'dump(load(dump p))', expected='%d bytes sha %s' % (len(b2), _sha(b2)),
                    actual='%d bytes sha %s, first difference at byte %d' % (len(b3), _sha(b3), k))
            d = canon_diff(cp, canon(q_b))
            if d:
                bad('dump-stable', 'src.utils.dump_program', stage, what='program dumped again and read back is not '
                    'isomorphic to the original', **d)
            # --- identical text in every language (fresh read-back, as --replay starts from the file)
            proc_c, q_c = read_back()
            tp, tq = _texts(R, p), _texts(R, q_c)
            for l2 in LANGS:
                out['checks'] += 1
                if tp[l2] != tq[l2]:
                    bad('roundtrip-text', 'src.utils.load_program', stage, translator=l2,
                        what='translation of the read-back program differs', **_first_diff(tp[l2], tq[l2]))
            out['checks'] += 1
            with open(src_file) as f:
                stored = f.read()
            if tq[lang] != ('text', stored):
                bad('roundtrip-text', 'src.modules.processor.ProgramProcessor.get_program', stage, translator=lang,
                    what='the .bin does not reproduce the source file stored next to it',
                    **_first_diff(('text', stored), tq[lang]))
            rec = dict(stage=stage, bin_sha=_sha(b1), bin_bytes=len(b1), top_level_decls=ndecl,
                       text_sha={l2: _sha(repr(tp[l2]).encode()) for l2 in LANGS}, transformed=None)
            out['stages'].append(rec)
            if si == len(word) or (stop_first and out['violations']):
                break
            # --- same mutation, same random choices: original vs untouched read-back vs translated read-back
            letter = word[si]
            fn = ('src.transformations.type_erasure.TypeErasure' if letter == 'E'
                  else 'src.transformations.type_overwriting.TypeOverwriting')
            st = utils.random.r.getstate()
            o_p, r_p = _mutate(R, proc_p, letter, p, st)
            end_state = utils.random.r.getstate()
            rec['mutation'] = letter
            rec['transformed'] = o_p[0] == 'transformed'
            cr = canon(r_p) if r_p is not None else None
            tr = _texts(R, r_p) if r_p is not None else None
            for mode, pr, q in (('--replay', proc_a, q_a), ('--replay --keep-all', proc_c, q_c)):
                out['checks'] += 1
                o_q, r_q = _mutate(R, pr, letter, q, st)
                if o_q != o_p:
                    bad('mutation-outcome', fn, stage, mutation=letter, mode=mode, what='mutation of the read-back '
                        'program ends differently', expected=repr(o_p)[:300], actual=repr(o_q)[:300])
                    continue
                if utils.random.r.getstate() != end_state:
                    bad('mutation-outcome', fn, stage, mutation=letter, mode=mode, what='mutation of the read-back '
                        'program consumed different random choices', expected='same generator state afterwards',
                        actual='different generator state')
                if r_p is None:
                    continue
                d = canon_diff(cr, canon(r_q))
                if d:
                    bad('mutation-result', fn, stage, mutation=letter, mode=mode, what='mutated read-back program is '
                        'not isomorphic to the mutated original', **d)
                tq2 = _texts(R, r_q)
                for l2 in LANGS:
                    if tr[l2] != tq2[l2]:
                        bad('mutation-text', fn, stage, mutation=letter, mode=mode, translator=l2,
                            what='text of the mutated read-back program differs', **_first_diff(tr[l2], tq2[l2]))
            utils.random.r.setstate(end_state)
            if r_p is None:
                if o_p[0] == 'exception':
                    out['skipped'] = 'mutation %s failed on the original at stage %s: %s' % (letter, stage, o_p[1:])
                    break
                # not transformed: the driver keeps the program (mutations work in place); go on with it
            else:
                p = r_p
        return out
    finally:
        shutil.rmtree(tmp, ignore_errors=True)


def _task(t):
    lang, seed, word, stop_first = t
    try:
        return run_lineage(_LOADED, lang, seed, word, stop_first)
    except Exception:
        return dict(language=lang, seed=seed, lineage=word, stages=[], violations=[], checks=0,
                    skipped=None, crashed=traceback.format_exc()[-1500:])


def task_list(tier, seed):
    rnd = random.Random(seed)
    extra = sorted(rnd.sample(range(1000, 1000000), EXTRA_SEEDS[tier]))
    seeds = list(range(BASE_SEEDS[tier])) + extra
    return [(lang, s, w) for s in seeds for lang in LANGS for w in LINEAGES[tier]], seeds


def run(tier, seed, stop_first=False):
    t0 = time.time()
    _load()
    tasks, seeds = task_list(tier, seed)
    ctx = multiprocessing.get_context('fork')
    results = []
    unfinished = 0
    pool = ctx.Pool(min(WORKERS[tier], os.cpu_count() or 1), maxtasksperchild=1)
    try:
        pending = [(t, pool.apply_async(_task, (t + (stop_first,),))) for t in tasks]
        for t, h in pending:
            left = BUDGET_S[tier] - (time.time() - t0)
            try:
                results.append(h.get(timeout=max(left, 0.01)))
            except multiprocessing.TimeoutError:
                unfinished += 1
                continue
            if stop_first and results[-1]['violations']:
                break
    finally:
        pool.terminate()
        pool.join()
    evaluations = 0
    checks = 0
    distinct = set()
    violations = []
    skipped = []
    crashed = []
    samples = []
    per_stage = {}
    transformed = {'E': 0, 'O': 0}
    for r in results:
        if r.get('crashed'):
            crashed.append(dict(language=r['language'], seed=r['seed'], lineage=r['lineage'], error=r['crashed']))
            continue
        if r['skipped']:
            skipped.append(dict(language=r['language'], seed=r['seed'], lineage=r['lineage'], reason=r['skipped']))
        checks += r['checks']
        for s in r['stages']:
            evaluations += 1
            kind = 'generated' if s['stage'] == 'generated' else ('overwritten' if 'O' in s['stage'] else 'erased')
            per_stage[kind] = per_stage.get(kind, 0) + 1
            if s.get('transformed'):
                transformed[s['mutation']] += 1
            if s['top_level_decls'] >= 1:
                distinct.add(s['bin_sha'])
        if len(samples) < 3 and r['stages'] and r['lineage'] == LINEAGES[tier][0] and r['seed'] == len(samples):
            samples.append(dict(language=r['language'], seed=r['seed'], lineage=r['lineage'],
                                stages=[dict(stage=s['stage'], bin_sha=s['bin_sha'], bin_bytes=s['bin_bytes'],
                                             next_mutation=s.get('mutation'), transformed=s.get('transformed'))
                                        for s in r['stages']]))
        for v in r['violations']:
            if not any(w['check'] == v['check'] for w in violations):
                violations.append(v)
    if crashed:
        raise RuntimeError('C13 harness crashed on %r' % crashed[:2])
    return dict(
        evaluations=evaluations, distinct_nontrivial=len(distinct),
        rule='programs of src.generators.generator.Generator for seeds %s x languages %s, each regenerated for the '
             'lineages %s (E = TypeErasure, O = TypeOverwriting, applied through ProgramProcessor); at every stage '
             '(generated, after each erasure, after overwriting) the program is translated and saved with '
             'hephaestus.save_program, read back with ProgramProcessor.get_program(--replay) and checked: isomorphic '
             'object graph and identical symbol-table answers; identical text from all four translators and identical '
             'to the stored source file; next mutation under the same random state gives the same outcome, an '
             'isomorphic result and identical texts, on an untouched and on an already translated read-back; '
             'dump(load(dump(load(dump p)))) == dump(load(dump p)) byte for byte and still isomorphic to p. An '
             'evaluation is one saved program; it is non-trivial if it has >= 1 top-level declaration, distinct by '
             'sha256 of its .bin. Not checkable in this domain: dump(p) == dump(load(dump p)) byte for byte (pickle '
             'memoises by object identity of immutable strings, which no read-back preserves); programs of seeds on '
             'which the generator or a mutation of the original itself fails are skipped and listed'
             % (seeds, list(LANGS), list(LINEAGES[tier])),
        samples=samples, violations=violations, checks_evaluated=checks, stages=per_stage,
        mutations_that_transformed=transformed, skipped=skipped, unfinished_tasks=unfinished,
        tasks=len(tasks), wall_s=round(time.time() - t0, 1), exhaustive=False)


def replay(fi):
    """re-execute the recorded (language, seed, lineage) on the current tree; True iff the property holds on it"""
    R = _load()
    r = run_lineage(R, fi['language'], int(fi['seed']), fi['lineage'])
    if r['skipped']:
        print('note: %s' % r['skipped'])
    for v in r['violations']:
        print('%s %s seed %s lineage %s stage %s: %s: expected %s, got %s'
              % (v['check'], v['language'], v['seed'], v['lineage'], v['stage'], v.get('what'), v.get('expected'),
                 v.get('actual')))
    return not r['violations']
