"""C13 - saved programs replay faithfully: executable reference + bounded driver.

Written from the property statement, not from the code:

  "A program written by the tool's binary dump and read back is indistinguishable from the original: it translates to
   identical text in every language, the mutations applied to it (with the same random choices) produce the same
   result as on the original, and dumping it again is stable."
  for all programs at every stage at which the driver saves them (generated, after each erasure, after overwriting).

Oracle (per saved program p, q = read-back of the .bin written next to the source text):
  indistinguishable   canon(q) == canon(p): the two object graphs are isomorphic - same classes, same attributes in the
                      same order, equal atoms, same aliasing between mutable objects (identity of immutable atoms and
                      tuples is not observable and is ignored; a dict is its item sequence inserted again, because a
                      hash table cannot be stored).  This holds for every read-back of the file, also for one made
                      after an earlier read-back has been mutated (--replay with several iterations).
                      Every scoped query of the symbol table answers alike (names per namespace and kind), and so does
                      the reverse lookup declaration -> namespace: check [roundtrip-context] for AST declarations
                      (identity-hashed keys), check [roundtrip-reverse-index-of-types] for type parameters
                      (value-hashed, mutable keys) and the size of the reverse index.
  identical text      for each of the four translators, translate(q) == translate(p) (an exception counts as an outcome);
                      in the program's own language the text must also equal the source file stored next to the .bin.
  same mutation       with the generator of random choices put in the same state, mutation(q) gives the same outcome as
                      mutation(p): same "not transformed"/flag/error message/exception, same generator state afterwards,
                      equal result (class by class, attribute by attribute; sharing is not compared here because a
                      mutation may install interpreter-wide singletons, e.g. built-in type objects, of which a
                      read-back program holds its own copies), identical text of the result in the four languages.
                      q is taken both untouched (--replay) and after it has been translated (--replay --keep-all).
  stable dump         q1 = load(dump p), b2 = dump(q1), q2 = load(b2): dump(q2) == b2 byte for byte and q2 is isomorphic
                      to q1.
                      (dump(p) == b2 byte for byte is NOT required: pickle memoises by object identity, and the identity
                      of equal immutable strings is not preserved by any read-back; measured on the unchanged tree:
                      about one third of the programs differ there by a few memo opcodes.)

The real code is used for every step: hephaestus.save_program (utils.save_text + utils.dump_program),
ProgramProcessor.get_program with args.replay (utils.load_program), ProgramProcessor.transform_program / inject_fault
(TypeErasure / TypeOverwriting), utils.translate_program with the four translators.

Determinism: `random` is seeded before src.utils is imported (word pool), PYTHONHASHSEED=0 is expected, a counter-based
__hash__ is installed on src.ir.node.Node before any node exists (identity __eq__ untouched; the counter lives in a side
table, not in the instance, so it is neither pickled nor disturbed by unpickling), and every (language, seed, lineage)
task runs in a process forked from the freshly loaded state, so a recorded input replays exactly.
"""
import argparse
import hashlib
import itertools
import multiprocessing
import os
import random
import shutil
import sys
import tempfile
import time
import traceback
import weakref

HERE = os.path.dirname(os.path.dirname(os.path.abspath(__file__)))
REPO = os.environ.get('HEPH_REPO', '/repo')

LANGS = ('java', 'kotlin', 'groovy', 'scala')
GLOBAL_SEED = 12345            # global `random` state at import of src.utils (word pool)
KINDS = ('types', 'funcs', 'lambdas', 'vars', 'classes', 'decls')

# a lineage is the word of mutations applied to the ORIGINAL (E = type erasure, O = type overwriting); at every prefix
# the program is saved, read back and compared; the next letter is the mutation compared on original vs read-back.
# together the lineages cover both mutations on every kind of stage: generated (E,O), erased (E,O), overwritten (E,O).
LINEAGES = {
    'quick': ('EEO', 'OE'),
    'thorough': ('EEO', 'EOE', 'OEO', 'OO'),
}
BASE_SEEDS = {'quick': (1, 3, 4), 'thorough': tuple(range(40))}   # fixed list, used for each of the four languages
EXTRA_SEEDS = {'quick': 1, 'thorough': 8}     # additional seeds drawn from VERIF_SEED (extend, never replace)
WORKERS = {'quick': 8, 'thorough': 12}        # the real generator / translators / mutations cost 1-15 s per lineage
BUDGET_S = {'quick': 36, 'thorough': 780}     # tasks not finished in time are counted in `unfinished_tasks`


class _R:
    """the loaded real code"""


_LOADED = None
_TMPROOT = None          # set by run(): one directory for all tasks, removed at the end even if tasks are killed


def _install_node_hash(node_cls):
    table = {}
    counter = itertools.count(1)

    def drop(key):
        def cb(_ref):
            table.pop(key, None)
        return cb

    def __hash__(self):
        key = id(self)
        e = table.get(key)
        if e is None:
            n = next(counter)
            table[key] = (n, weakref.ref(self, drop(key)))
            return n
        return e[0]
    node_cls.__hash__ = __hash__


def _load():
    """(re)import the real code from REPO in a reproducible initial state"""
    global _LOADED
    for m in [k for k in sys.modules if k == 'src' or k.startswith('src.') or k == 'hephaestus']:
        del sys.modules[m]
    if REPO in sys.path:
        sys.path.remove(REPO)
    sys.path.insert(0, REPO)
    import importlib
    random.seed(GLOBAL_SEED)                       # BEFORE src.utils samples its word pool
    node = importlib.import_module('src.ir.node')
    _install_node_hash(node.Node)                  # BEFORE any node exists
    base = tempfile.mkdtemp(prefix='c13_imp_')
    old_argv, old_cwd = sys.argv, os.getcwd()
    sys.argv = ['hephaestus.py', '--language', 'java', '--bugs', os.path.join(base, 'bugs'), '--name', 'c13',
                '--iterations', '1', '--batch', '1', '--transformations', '1']
    os.chdir(base)
    try:
        H = importlib.import_module('hephaestus')
    finally:
        sys.argv = old_argv
        os.chdir(old_cwd)
        shutil.rmtree(base, ignore_errors=True)
    R = _R()
    R.H = H
    R.Node = node.Node
    R.utils = importlib.import_module('src.utils')
    R.Generator = importlib.import_module('src.generators.generator').Generator
    R.ProgramProcessor = importlib.import_module('src.modules.processor').ProgramProcessor
    R.TRANSLATORS = dict(H.TRANSLATORS)
    for lang in LANGS:
        R.utils.random.remove_reserved_words(lang)
    sys.setrecursionlimit(max(sys.getrecursionlimit(), 10000))
    _LOADED = R
    return R


# ----------------------------------------------------------------------------------------------------------------------
# reference: what "indistinguishable" means for two object graphs

_ATOMS = (str, int, float, bool, type(None), bytes, complex)


class _Tok:
    __slots__ = ('v',)

    def __init__(self, v):
        self.v = v


def _state(o):
    """attributes of an instance, read directly (not through the pickling hooks)"""
    items = []
    d = getattr(o, '__dict__', None)
    if d is not None:
        items.extend(d.items())
    for c in type(o).__mro__:
        sl = c.__dict__.get('__slots__', ())
        if isinstance(sl, str):
            sl = (sl,)
        for s in sl:
            if s in ('__dict__', '__weakref__'):
                continue
            try:
                items.append((s, object.__getattribute__(o, s)))
            except AttributeError:
                items.append((s, _Tok(('unset',))))
    return items


_PLAIN_KEYS = (str, int, tuple)


def _reinserted(d):
    """the persistent content of a dict is its item sequence: a hash table cannot be stored, every read-back has to
    insert the items again.  For a healthy dict this is the dict itself; if keys were mutated after insertion (stale
    hashes, two equal keys) it is what any faithful read-back must produce."""
    if all(type(k) in _PLAIN_KEYS and (type(k) is not tuple or all(type(e) in (str, int) for e in k)) for k in d):
        return d
    r = {}
    for k, v in d.items():
        r[k] = v
    return r


def vdigest(root):
    """value digest of an object graph: like canon() but sharing between objects is not observed (an object is its
    class + attribute values); used for results of mutations, which may legitimately refer to interpreter-wide
    singletons (built-in type objects) that a read-back program holds as its own copies.  returns (digest, memo)"""
    memo = {}
    onpath = {}
    keep = []

    def go(o):
        t = type(o)
        if t in _ATOMS:
            return hash((t.__name__, repr(o) if t is float else o))
        if t is tuple:
            return hash(('tuple',) + tuple(go(x) for x in o))
        if isinstance(o, type) or callable(o) and hasattr(o, '__qualname__') and not hasattr(o, '__self__') \
                and getattr(o, '__dict__', None) in (None, {}):
            return hash(('global', getattr(o, '__module__', None), o.__qualname__))
        i = id(o)
        if i in memo:
            return memo[i]
        if i in onpath:
            return hash(('cycle', len(onpath) - onpath[i]))
        onpath[i] = len(onpath)
        keep.append(o)
        name = t.__module__ + '.' + t.__qualname__
        if isinstance(o, list):
            d = hash(('list', name) + tuple(go(x) for x in o))
        elif isinstance(o, dict):
            d = hash(('dict', name, go(getattr(o, 'default_factory', None)))
                     + tuple((go(k), go(v)) for k, v in _reinserted(o).items()))
        elif isinstance(o, (set, frozenset)):
            d = hash(('set', name) + tuple(sorted(go(x) for x in o)))
        else:
            d = hash(('obj', name) + tuple((k, go(v)) for k, v in _state(o)))
        del onpath[i]
        memo[i] = d
        return d
    return go(root), memo, keep


def vdiff(a, b, ma, mb, path='program', depth=0):
    """path to the first place where two value-compared graphs differ"""
    def same(x, y):
        if type(x) is not type(y):
            return False
        if id(x) in ma and id(y) in mb:
            return ma[id(x)] == mb[id(y)]
        return vdigest(x)[0] == vdigest(y)[0]
    if type(a) is not type(b):
        return dict(inside=path, expected=type(a).__name__ + ' ' + repr(a)[:120],
                    actual=type(b).__name__ + ' ' + repr(b)[:120])
    if depth > 300:
        return dict(inside=path, expected='<differs below>', actual='<differs below>')
    if isinstance(a, (list, tuple)):
        if len(a) != len(b):
            return dict(inside=path, expected='%d elements' % len(a), actual='%d elements' % len(b))
        pairs = [('[%d]' % i, x, y) for i, (x, y) in enumerate(zip(a, b))]
    elif isinstance(a, dict):
        ia, ib = list(_reinserted(a).items()), list(_reinserted(b).items())
        if len(ia) != len(ib):
            return dict(inside=path, expected='%d entries' % len(ia), actual='%d entries' % len(ib))
        pairs = []
        for (k1, v1), (k2, v2) in zip(ia, ib):
            pairs.append(('<key %s>' % str(k1)[:40], k1, k2))
            pairs.append(('[%s]' % str(k1)[:40], v1, v2))
    elif type(a) in _ATOMS or isinstance(a, (set, frozenset, type)) or not hasattr(a, '__dict__'):
        return dict(inside=path, expected=repr(a)[:160], actual=repr(b)[:160])
    else:
        sa, sb = _state(a), _state(b)
        if [k for k, _ in sa] != [k for k, _ in sb]:
            return dict(inside=path + ' (%s)' % type(a).__name__, expected='attributes %r' % [k for k, _ in sa],
                        actual='attributes %r' % [k for k, _ in sb])
        pairs = [('.' + k, x, y) for (k, x), (_, y) in zip(sa, sb)]
    for lbl, x, y in pairs:
        if not same(x, y):
            return vdiff(x, y, ma, mb, path + lbl, depth + 1)
    return dict(inside=path, expected='<digest differs>', actual='<digest differs>')


def canon(root):
    """pre-order token list of the object graph; mutable objects are numbered by first visit, so two graphs have the
    same token list iff they are isomorphic (attribute order, dict order and list order included)"""
    out = []
    memo = {}
    keep = []
    stack = [root]
    while stack:
        o = stack.pop()
        t = type(o)
        if t is _Tok:
            out.append(o.v)
            continue
        if t in _ATOMS:
            out.append((t.__name__, repr(o) if t is float else o))
            continue
        if t is tuple:
            out.append(('tuple', len(o)))
            stack.extend(reversed(o))
            continue
        if isinstance(o, type) or callable(o) and hasattr(o, '__qualname__') and not hasattr(o, '__self__') \
                and getattr(o, '__dict__', None) in (None, {}):
            out.append(('global', getattr(o, '__module__', None), o.__qualname__))
            continue
        i = memo.get(id(o))
        if i is not None:
            out.append(('ref', i))
            continue
        memo[id(o)] = len(memo)
        keep.append(o)
        name = t.__module__ + '.' + t.__qualname__
        if isinstance(o, list):
            out.append(('list', name, len(o)))
            stack.extend(reversed(o))
        elif isinstance(o, dict):
            items = list(_reinserted(o).items())
            out.append(('dict', name, len(items)))
            if hasattr(o, 'default_factory'):
                stack.append(o.default_factory)
            for k, v in reversed(items):
                stack.append(v)
                stack.append(k)
        elif isinstance(o, (set, frozenset)):
            out.append(('set', name, len(o)))
            elems = list(o)
            if not all(type(e) in _ATOMS for e in elems):
                elems.sort(key=lambda e: repr(canon(e)))
            else:
                elems.sort(key=repr)
            stack.extend(reversed(elems))
        else:
            st = _state(o)
            out.append(('obj', name, len(st)))
            for k, v in reversed(st):
                stack.append(v)
                stack.append(_Tok(('attr', k)))
    return out


def canon_diff(a, b, ra=None, rb=None):
    """None if the token lists are equal, else a short description of the first difference; with the two roots given,
    the place is named by an attribute path"""
    if a == b:
        return None
    n = min(len(a), len(b))
    i = next((k for k in range(n) if a[k] != b[k]), n)
    d = dict(at_token=i, expected=repr(a[i] if i < len(a) else '<end>')[:160],
             actual=repr(b[i] if i < len(b) else '<end>')[:160], tokens_expected=len(a), tokens_actual=len(b))
    if ra is not None:
        da, db = vdigest(ra), vdigest(rb)
        if da[0] != db[0]:
            v = vdiff(ra, rb, da[1], db[1])
            d.update(inside=v['inside'], expected=v['expected'], actual=v['actual'])
        else:
            d['inside'] = '<equal attribute values; the sharing between mutable objects differs>'
    return d


def context_view(program, node_cls):
    """everything the symbol table answers about the program, with declarations named by position:
    names   - (namespace, kind, name, class of the declaration) in the order of the scoped queries
    rev     - reverse lookup (declaration -> namespace) of every listed AST declaration (identity-hashed objects)
    rev_ty  - reverse lookup of every listed type (type parameters: value-hashed, mutable objects used as keys)"""
    ctx = program.context
    getters = dict(types=ctx.get_types, funcs=ctx.get_funcs, lambdas=ctx.get_lambdas, vars=ctx.get_vars,
                   classes=ctx.get_classes, decls=ctx.get_declarations)
    names, rev, rev_ty = [], [], []
    for ns in list(ctx._context):
        for kind in KINDS:
            cur = getters[kind](ns, only_current=True)
            for name, decl in cur.items():
                names.append((ns, kind, name, type(decl).__name__))
                by_identity = type(decl).__hash__ is node_cls.__hash__
                (rev if by_identity else rev_ty).append((ns, kind, name, ctx.get_namespace(decl)))
    rev_ty.append(('<number of entries of the reverse index>', len(ctx._namespaces)))
    return names, rev, rev_ty


def _list_diff(va, vb):
    k = next((i for i in range(min(len(va), len(vb))) if va[i] != vb[i]), min(len(va), len(vb)))
    return dict(expected=repr(va[k] if k < len(va) else '<end>'), actual=repr(vb[k] if k < len(vb) else '<end>'))


# ----------------------------------------------------------------------------------------------------------------------
# driver

def _mkargs(R, lang, replay=None, transformations=4):
    a = argparse.Namespace(**vars(R.H.cli_args))
    a.language = lang
    a.replay = replay
    a.debug = False
    a.log = False
    a.transformations = transformations
    a.transformation_schedule = None
    a.transformation_types = ['TypeErasure']
    return a


def _texts(R, program, pkg='src.pkg'):
    """outcome of each of the four translators (fresh translator per call)"""
    res = {}
    for lang in LANGS:
        try:
            t = R.TRANSLATORS[lang](pkg, R.H.cli_args.options['Translator'])
            res[lang] = ('text', R.utils.translate_program(t, program))
        except Exception as e:                      # an exception is an outcome to be reproduced, not hidden
            res[lang] = ('exception', type(e).__name__, str(e)[:200])
    return res


def _first_diff(a, b):
    if a[0] != 'text' or b[0] != 'text':
        return dict(expected=repr(a)[:300], actual=repr(b)[:300])
    la, lb = a[1].split('\n'), b[1].split('\n')
    for i in range(max(len(la), len(lb))):
        x = la[i] if i < len(la) else '<end of text>'
        y = lb[i] if i < len(lb) else '<end of text>'
        if x != y:
            return dict(line=i + 1, expected=x[:200], actual=y[:200])
    return dict(expected='<equal>', actual='<equal>')


def _mutate(R, proc, letter, program, state):
    """apply one mutation through the real ProgramProcessor under the given random state; normalised outcome"""
    R.utils.random.r.setstate(state)
    try:
        if letter == 'E':
            res = proc.transform_program(program)
        else:
            res = proc.inject_fault(program)
    except Exception as e:
        return ('exception', type(e).__name__, str(e)[:200]), None
    if res is None:
        return ('not transformed',), None
    return ('transformed', res[1]), res[0]


def _sha(b):
    return hashlib.sha256(b).hexdigest()[:16]


def run_lineage(R, lang, seed, word, stop_first=False):
    """one original program (language, seed) driven through the mutations of `word`; at every stage the saved program
    is read back and the contract evaluated.  returns dict(stages=[...], violations=[...], skipped=str|None)"""
    utils = R.utils
    H = R.H
    out = dict(language=lang, seed=seed, lineage=word, stages=[], violations=[], skipped=None, checks=0)

    def bad(check, function, stage, **kw):
        if any(v['check'] == 'bounded[%s]' % check for v in out['violations']):
            return
        v = dict(check='bounded[%s]' % check, function=function, language=lang, seed=seed, lineage=word, stage=stage,
                 pythonhashseed=os.environ.get('PYTHONHASHSEED'))
        v.update(kw)
        out['violations'].append(v)

    tmp = tempfile.mkdtemp(prefix='c13_run_', dir=_TMPROOT)
    try:
        utils.random.r.seed(seed)
        utils.random.reset_word_pool()
        own = R.TRANSLATORS[lang]
        proc_p = R.ProgramProcessor(seed, _mkargs(R, lang, transformations=len(word) + 1))
        try:
            p, _ = proc_p.get_program()              # generate_program(): the real generator
        except Exception as e:
            out['skipped'] = 'generator failed: %s: %s' % (type(e).__name__, str(e)[:100])
            return out
        next_tp = None
        for si in range(len(word) + 1):
            stage = 'generated' if si == 0 else word[:si]
            # --- the driver translates, then saves text and .bin side by side
            tp = next_tp if next_tp is not None else _texts(R, p)
            if tp[lang][0] != 'text':
                out['skipped'] = 'translator failed on the original at stage %s: %s' % (stage, tp[lang][1:])
                return out
            own_text = tp[lang][1]
            src_file = os.path.join(tmp, 'stage%d' % si, own.get_filename())
            H.save_program(p, own_text, src_file)
            with open(src_file + '.bin', 'rb') as f:
                b1 = f.read()
            cp = canon(p)
            ndecl = len(p.get_declarations())

            def read_back():
                pr = R.ProgramProcessor(seed, _mkargs(R, lang, replay=src_file + '.bin', transformations=1))
                return pr, pr.get_program()[0]
            # --- indistinguishable: structure and symbol table
            proc_a, q_a = read_back()
            out['checks'] += 1
            d = canon_diff(cp, canon(q_a), p, q_a)
            if d:
                bad('roundtrip-structure', 'src.utils.load_program', stage, what='read-back program is not isomorphic '
                    'to the original', **d)
            out['checks'] += 2
            va, vb = context_view(p, R.Node), context_view(q_a, R.Node)
            if va[0] != vb[0]:
                bad('roundtrip-context', 'src.ir.context.Context', stage, what='scoped queries of the symbol table of '
                    'the read-back program answer differently', **_list_diff(va[0], vb[0]))
            elif va[1] != vb[1]:
                bad('roundtrip-context', 'src.ir.context.Context.get_namespace', stage, what='reverse lookup of a '
                    'declaration answers differently on the read-back program', **_list_diff(va[1], vb[1]))
            if va[2] != vb[2]:
                bad('roundtrip-reverse-index-of-types', 'src.ir.context.Context.get_namespace', stage,
                    what='reverse lookup of a type parameter (value-hashed key) answers differently on the read-back '
                    'program', **_list_diff(va[2], vb[2]))
            # --- stable dump
            out['checks'] += 1
            f2 = os.path.join(tmp, 'stage%d' % si, 'again.bin')
            utils.dump_program(f2, q_a)
            with open(f2, 'rb') as f:
                b2 = f.read()
            q_b = utils.load_program(f2)
            f3 = os.path.join(tmp, 'stage%d' % si, 'again2.bin')
            utils.dump_program(f3, q_b)
            with open(f3, 'rb') as f:
                b3 = f.read()
            if b2 != b3:
                k = next((i for i in range(min(len(b2), len(b3))) if b2[i] != b3[i]), min(len(b2), len(b3)))
                bad('dump-stable', 'src.utils.dump_program', stage, what='dump(load(dump(load(dump p)))) differs from '
                    'dump(load(dump p))', expected='%d bytes sha %s' % (len(b2), _sha(b2)),
                    actual='%d bytes sha %s, first difference at byte %d' % (len(b3), _sha(b3), k))
            d = canon_diff(canon(q_a), canon(q_b), q_a, q_b)
            if d:
                bad('dump-stable', 'src.utils.dump_program', stage, what='the read-back program dumped again and read '
                    'back once more is not isomorphic to the first read-back', **d)
            # --- identical text in every language (fresh read-back, as --replay starts from the file)
            proc_c, q_c = read_back()
            tq = _texts(R, q_c)
            for l2 in LANGS:
                out['checks'] += 1
                if tp[l2] != tq[l2]:
                    bad('roundtrip-text', 'src.utils.load_program', stage, translator=l2,
                        what='translation of the read-back program differs', **_first_diff(tp[l2], tq[l2]))
            out['checks'] += 1
            with open(src_file) as f:
                stored = f.read()
            if tq[lang] != ('text', stored):
                bad('roundtrip-text', 'src.modules.processor.ProgramProcessor.get_program', stage, translator=lang,
                    what='the .bin does not reproduce the source file stored next to it',
                    **_first_diff(('text', stored), tq[lang]))
            rec = dict(stage=stage, bin_sha=_sha(b1), bin_bytes=len(b1), top_level_decls=ndecl,
                       text_sha={l2: _sha(repr(tp[l2]).encode()) for l2 in LANGS}, transformed=None)
            out['stages'].append(rec)
            if si == len(word) or (stop_first and out['violations']):
                break
            # --- same mutation, same random choices: original vs untouched read-back vs translated read-back
            letter = word[si]
            fn = ('src.transformations.type_erasure.TypeErasure' if letter == 'E'
                  else 'src.transformations.type_overwriting.TypeOverwriting')
            st = utils.random.r.getstate()
            o_p, r_p = _mutate(R, proc_p, letter, p, st)
            end_state = utils.random.r.getstate()
            rec['mutation'] = letter
            rec['transformed'] = o_p[0] == 'transformed'
            if o_p[0] == 'exception':
                e_p = None
            else:
                e_p = r_p if r_p is not None else p      # not transformed: the (in place) mutation left p as it is
            cr = vdigest(e_p) if e_p is not None else None
            tr = _texts(R, e_p) if e_p is not None else None
            for mode, pr, q in (('--replay', proc_a, q_a), ('--replay --keep-all', proc_c, q_c)):
                out['checks'] += 1
                o_q, r_q = _mutate(R, pr, letter, q, st)
                if o_q != o_p:
                    bad('mutation-outcome', fn, stage, mutation=letter, mode=mode, what='mutation of the read-back '
                        'program ends differently', expected=repr(o_p)[:300], actual=repr(o_q)[:300])
                    continue
                if utils.random.r.getstate() != end_state:
                    bad('mutation-outcome', fn, stage, mutation=letter, mode=mode, what='mutation of the read-back '
                        'program consumed different random choices', expected='same generator state afterwards',
                        actual='different generator state')
                if e_p is None:
                    continue
                e_q = r_q if r_q is not None else q
                cq = vdigest(e_q)
                if cq[0] != cr[0]:
                    bad('mutation-result', fn, stage, mutation=letter, mode=mode, what='mutated read-back program is '
                        'not equal (class by class, attribute by attribute) to the mutated original',
                        **vdiff(e_p, e_q, cr[1], cq[1]))
                tq2 = _texts(R, e_q)
                for l2 in LANGS:
                    if tr[l2] != tq2[l2]:
                        bad('mutation-text', fn, stage, mutation=letter, mode=mode, translator=l2,
                            what='text of the mutated read-back program differs', **_first_diff(tr[l2], tq2[l2]))
            # --- the file can be replayed any number of times: a later read-back is still the saved program, whatever
            #     was done to earlier read-backs in this process
            out['checks'] += 1
            q_d = read_back()[1]
            d = canon_diff(cp, canon(q_d))          # p has been mutated by now: no path, token position only
            if d:
                bad('roundtrip-structure', 'src.utils.load_program', stage, what='a later read-back of the same .bin '
                    '(after mutation %s was applied to earlier read-backs) is not isomorphic to the saved original'
                    % letter, **d)
            utils.random.r.setstate(end_state)
            if e_p is None:
                out['skipped'] = 'mutation %s failed on the original at stage %s: %s' % (letter, stage, o_p[1:])
                break
            p = e_p
            next_tp = tr
        return out
    finally:
        shutil.rmtree(tmp, ignore_errors=True)


def _task(t):
    lang, seed, word, stop_first = t
    try:
        c0 = time.process_time()
        r = run_lineage(_LOADED, lang, seed, word, stop_first)
        r['cpu_s'] = round(time.process_time() - c0, 2)
        return r
    except Exception:
        return dict(language=lang, seed=seed, lineage=word, stages=[], violations=[], checks=0,
                    skipped=None, crashed=traceback.format_exc()[-1500:])


def task_list(tier, seed):
    rnd = random.Random(seed)
    extra = sorted(rnd.sample(range(1000, 1000000), EXTRA_SEEDS[tier]))
    seeds = list(BASE_SEEDS[tier]) + extra
    return [(lang, s, w) for s in seeds for lang in LANGS for w in LINEAGES[tier]], seeds


def run(tier, seed, stop_first=False):
    global _TMPROOT
    t0 = time.time()
    _load()
    tasks, seeds = task_list(tier, seed)
    _TMPROOT = tempfile.mkdtemp(prefix='c13_')
    ctx = multiprocessing.get_context('fork')
    results = []
    unfinished = 0
    pool = ctx.Pool(min(WORKERS[tier], os.cpu_count() or 1), maxtasksperchild=1)
    try:
        pending = [(t, pool.apply_async(_task, (t + (stop_first,),))) for t in tasks]
        for t, h in pending:
            left = BUDGET_S[tier] - (time.time() - t0)
            try:
                results.append(h.get(timeout=max(left, 0.01)))
            except multiprocessing.TimeoutError:
                unfinished += 1
                continue
            if stop_first and results[-1]['violations']:
                break
    finally:
        pool.terminate()
        pool.join()
        shutil.rmtree(_TMPROOT, ignore_errors=True)
        _TMPROOT = None
    evaluations = 0
    checks = 0
    cpu = 0.0
    distinct = set()
    violations = []
    skipped = []
    crashed = []
    samples = []
    per_stage = {}
    transformed = {'E': 0, 'O': 0}
    for r in results:
        if r.get('crashed'):
            crashed.append(dict(language=r['language'], seed=r['seed'], lineage=r['lineage'], error=r['crashed']))
            continue
        if r['skipped']:
            skipped.append(dict(language=r['language'], seed=r['seed'], lineage=r['lineage'], reason=r['skipped']))
        checks += r['checks']
        cpu += r.get('cpu_s', 0)
        for s in r['stages']:
            evaluations += 1
            kind = 'generated' if s['stage'] == 'generated' else ('overwritten' if 'O' in s['stage'] else 'erased')
            per_stage[kind] = per_stage.get(kind, 0) + 1
            if s.get('transformed'):
                transformed[s['mutation']] += 1
            if s['top_level_decls'] >= 1:
                distinct.add(s['bin_sha'])
        if len(samples) < 3 and r['stages'] and not any(x['language'] == r['language'] for x in samples):
            samples.append(dict(language=r['language'], seed=r['seed'], lineage=r['lineage'],
                                stages=[dict(stage=s['stage'], bin_sha=s['bin_sha'], bin_bytes=s['bin_bytes'],
                                             next_mutation=s.get('mutation'), transformed=s.get('transformed'))
                                        for s in r['stages']]))
        for v in r['violations']:
            if not any(w['check'] == v['check'] for w in violations):
                violations.append(v)
    if crashed:
        raise RuntimeError('C13 harness crashed on %r' % crashed[:2])
    return dict(
        evaluations=evaluations, distinct_nontrivial=len(distinct),
        rule='programs of src.generators.generator.Generator for seeds %s x languages %s, each regenerated for the '
             'lineages %s (E = TypeErasure, O = TypeOverwriting, applied through ProgramProcessor); at every stage '
             '(generated, after each erasure, after overwriting, and erasure after overwriting) the program is '
             'translated and saved with hephaestus.save_program, read back with ProgramProcessor.get_program(--replay) '
             'and checked: isomorphic object graph (also for a later read-back of the same file) and identical '
             'symbol-table answers; identical text from all four translators and identical to the stored source file; '
             'next mutation under the same random state gives the same outcome, the same random state afterwards, an '
             'equal result and identical texts, on an untouched and on an already translated read-back; second dump is '
             'byte-identical to the third and its read-back isomorphic. An evaluation is one saved program; it is '
             'non-trivial if it has >= 1 top-level declaration, distinct by sha256 of its .bin. Not checkable in this '
             'domain: dump(p) == dump(load(dump p)) byte for byte (pickle memoises by object identity of immutable '
             'strings, which no read-back preserves). Seeds on which the generator or a mutation of the original '
             'itself fails are listed under skipped (stages before the failure are evaluated); tasks that did not '
             'finish within the time budget are counted in unfinished_tasks'
             % (seeds, list(LANGS), list(LINEAGES[tier])),
        samples=samples, violations=violations, checks_evaluated=checks, stages=per_stage,
        mutations_that_transformed=transformed, skipped=skipped, unfinished_tasks=unfinished,
        tasks=len(tasks), cpu_s=round(cpu, 1), wall_s=round(time.time() - t0, 1), exhaustive=False)


def replay(fi):
    """re-execute the recorded (language, seed, lineage) on the current tree; True iff the property holds on it"""
    R = _load()
    r = run_lineage(R, fi['language'], int(fi['seed']), fi['lineage'])
    if r['skipped']:
        print('note: %s' % r['skipped'])
    for v in r['violations']:
        print('%s %s seed %s lineage %s stage %s: %s: expected %s, got %s'
              % (v['check'], v['language'], v['seed'], v['lineage'], v['stage'], v.get('what'), v.get('expected'),
                 v.get('actual')))
    return not r['violations']
