"""Bounded stand-in for C03 (type erasure) and C04 (type overwriting).

Everything here that judges the real code is written from the two property statements:

  * `Snap` / `diff`  - structural walk of every attribute of every node, of the symbol table and of every recorded
                       type (frame clauses: "every other node, name, modifier and recorded type stays identical",
                       "differs in exactly one declared type", "nothing injected => unchanged");
  * `Oracle`/`Walker`- a small, independent local type inference over the *mutated* program (own scoping, class
                       members through the inheritance chain, constraints from constructor / call arguments and from
                       the expected type, joint inference of nested generic calls) that answers, for each removed
                       annotation, "what does a compiler infer here from the remaining program": three-valued
                       (holds / violated / undecided; undecided is never counted either way);
  * `Oracle.sub`,
    `_related`       - declarative nominal subtyping over the program's own class table + the language's assignment
                       conversions (C04: "unrelated, not assignable either way");
  * `RejectWalker`   - three-valued approximation of "a correct type checker must reject" (+ real javac on a budgeted
                       subset of the Java translations in the thorough tier).  That clause is NOT decided here.

The real code (src.transformations.*, src.analysis.type_dependency_analysis) is only *driven*.  Harness-side
steering, all outside the judged behaviour: (1) the order in which `itertools.combinations` enumerates equally large
candidate sets inside TypeErasure ("all subsets of omittable annotations the mutation may choose": it applies the
first feasible set of maximal size, and which one comes first depends only on enumeration order); (2) the seed of
utils.random before TypeOverwriting; (3) the 600 s watchdog Timer of Transformation.visit_program is replaced by an
inert one (it never fires here; thread start latency dominates small programs on a loaded machine).

Inputs: 17 hand-built scenarios x 2 element types x 4 languages, and generator programs for the fixed seed lists
SEEDS_QUICK / SEEDS_THOROUGH (+ VERIF_SEED-derived extras in the thorough tier); every input is rebuilt from
(source, language, ident) alone, so each violation record is replayable with `replay`.

Check names (all `bounded[...]`): erasure-frame, erasure-inferable:{var-type,return-type,constructor-type-arguments,
call-type-arguments}[-narrowed][:from-outer-declaration], erasure:exception; overwrite-exactly-one,
overwrite-unrelated:{same,subtype,supertype,conversion}[:type-variable], overwrite-message,
overwrite-translation-changes:{variable,function,constructor-call,function-call,type-arguments-not-printed},
overwrite-must-reject[:javac], overwrite-noinject:{message,translation,frame}, overwrite-frame, overwrite:exception.
"-narrowed" = the compiler infers a strict subtype of the removed annotation (counted in the statistics, NOT a violation:
the statement only demands that the program stays well-typed; the ill-typed consequences are reported under the plain name); ":from-outer-declaration" = the initializer / body is a bare name
bound outside the analysed function (field of the enclosing class, global variable) - a cause discriminator only.
"""
import copy
import importlib
import itertools as _it
import os
import random as _pyrandom
import shutil
import subprocess
import sys
import tempfile
import time

HERE = os.path.dirname(os.path.dirname(os.path.abspath(__file__)))
LANGS = ['java', 'kotlin', 'groovy', 'scala']
BASE_SEED = 12345


# ----------------------------------------------------------------------------------------------------------------
# loading the real code deterministically
# ----------------------------------------------------------------------------------------------------------------

class Mods:
    pass


class _NoTimer:
    def __init__(self, *a, **k):
        pass

    def start(self):
        pass

    def cancel(self):
        pass


class _NoThreading:
    Timer = _NoTimer


def repo_path():
    return os.environ.get('HEPH_REPO', '/repo')


def load(repo=None):
    """import the real code from `repo` (purging earlier imports), deterministic word pool, counter-based node hash"""
    repo = repo or repo_path()
    for m in [k for k in sys.modules if k == 'src' or k.startswith('src.') or k == 'hephaestus'
              or k == 'tests' or k.startswith('tests.')]:
        del sys.modules[m]
    sys.path[:] = [p for p in sys.path if p != repo]
    sys.path.insert(0, repo)
    if HERE not in sys.path:
        sys.path.append(HERE)
    sys.setrecursionlimit(max(sys.getrecursionlimit(), 10000))
    _pyrandom.seed(BASE_SEED)               # src.utils samples its word pool with the global RNG at import
    nodemod = importlib.import_module('src.ir.node')
    counter = [0]

    def _node_hash(self):
        h = self.__dict__.get('_vh')
        if h is None:
            counter[0] += 1
            h = counter[0]
            self.__dict__['_vh'] = h
        return h
    nodemod.Node.__hash__ = _node_hash      # identity __eq__ untouched: only set iteration order becomes reproducible
    M = Mods()
    M.repo = repo
    M.counter = counter
    M.utils = importlib.import_module('src.utils')
    M.ast = importlib.import_module('src.ir.ast')
    M.tp = importlib.import_module('src.ir.types')
    M.tu = importlib.import_module('src.ir.type_utils')
    M.ctx = importlib.import_module('src.ir.context')
    M.gen = importlib.import_module('src.generators.generator')
    M.te = importlib.import_module('src.transformations.type_erasure')
    M.to = importlib.import_module('src.transformations.type_overwriting')
    M.tda = importlib.import_module('src.analysis.type_dependency_analysis')
    # the 600 s watchdog of visit_program starts one thread per run; it never fires here and thread start latency
    # dominates small programs on a loaded machine, so the harness gives the module an inert Timer
    M.base = importlib.import_module('src.transformations.base')
    M.base.threading = _NoThreading
    M.builtins = importlib.import_module('src.ir').BUILTIN_FACTORIES
    M.translators = {
        'java': importlib.import_module('src.translators.java').JavaTranslator,
        'kotlin': importlib.import_module('src.translators.kotlin').KotlinTranslator,
        'groovy': importlib.import_module('src.translators.groovy').GroovyTranslator,
        'scala': importlib.import_module('src.translators.scala').ScalaTranslator,
    }
    M.base_words = sorted(M.utils.random.INITIAL_WORDS)
    M.reserved = {l: M.utils.get_reserved_words(M.utils.RandomUtils.resource_path, l) for l in LANGS}
    return M


def gen_program(M, lang, seed):
    """the program the real generator produces for (language, seed); independent of what ran before in this process"""
    pool = [w for w in M.base_words if w not in M.reserved[lang]]
    M.utils.random.INITIAL_WORDS = set(pool)
    M.utils.random.WORDS = set(pool)
    M.utils.random.r.seed(seed)
    M.counter[0] = 0
    return M.gen.Generator(language=lang).generate()


def translate(M, program, lang=None):
    lang = lang or program.language
    t = M.translators[lang]('src.pkg')
    return M.utils.translate_program(t, program)


# ----------------------------------------------------------------------------------------------------------------
# structural snapshot (frame clause)
# ----------------------------------------------------------------------------------------------------------------

_INTERN = {}


def _intern(tup):
    k = _INTERN.get(tup)
    if k is None:
        k = len(_INTERN) + 1
        _INTERN[tup] = k
    return k


class Snap:
    """path -> value for every attribute reachable from the program; `nodes` path -> live object"""

    def __init__(self, M):
        self.M = M
        self.items = {}
        self.nodes = {}
        self.owner = {}          # path of an attribute entry -> (owner path, attribute name)
        self._seen = {}
        self._tmemo = {}
        self._tbusy = set()

    # -- types: every attribute of the type object, recursively, hash-consed; the inference flag is kept apart ------
    def tkey(self, t):
        M = self.M
        if t is None:
            return 0
        i = id(t)
        if i in self._tmemo:
            return self._tmemo[i]
        if i in self._tbusy:
            return -1
        self._tbusy.add(i)
        if isinstance(t, M.tp.Variance):
            k = _intern(('Variance', t.value))
        elif isinstance(t, (str, int, float, bool)):
            k = _intern(('v', repr(t)))
        elif isinstance(t, (list, tuple)):
            k = _intern(('l',) + tuple(self.tkey(x) for x in t))
        elif isinstance(t, (set, frozenset)):
            k = _intern(('s',) + tuple(sorted(self.tkey(x) for x in t)))
        elif isinstance(t, dict):
            k = _intern(('d',) + tuple(sorted((self.tkey(a), self.tkey(b)) for a, b in t.items())))
        elif hasattr(t, '__dict__'):
            parts = []
            for a in sorted(t.__dict__):
                if a in ('_vh', '_can_infer_type_args'):
                    continue
                parts.append((a, self.tkey(t.__dict__[a])))
            k = _intern((type(t).__module__ + '.' + type(t).__name__,) + tuple(parts))
        else:
            k = _intern(('o', repr(t)))
        self._tbusy.discard(i)
        self._tmemo[i] = k
        return k

    def _type_entry(self, path, t, owner):
        self.items[path] = ('type', self.tkey(t), str(t))
        self.owner[path] = owner
        self.nodes[path] = t
        self._flags(path, t, owner, 0)
        if isinstance(t, self.M.tp.ParameterizedType):
            # explicit type arguments are declared types of their own (C04 replaces one of them in place)
            for i, a in enumerate(t.type_args):
                ap = '%s<%d>' % (path, i)
                self.items[ap] = ('targ', self.tkey(a), str(a))
                self.owner[ap] = owner
                self.nodes[ap] = a

    def _flags(self, path, t, owner, depth):
        M = self.M
        if isinstance(t, M.tp.ParameterizedType):
            fp = path + '#infer'
            self.items[fp] = ('flag', bool(t._can_infer_type_args))
            self.owner[fp] = owner
            self.nodes[fp] = t
            if depth < 6:
                for i, a in enumerate(t.type_args):
                    self._flags('%s<%d>' % (path, i), a, owner, depth + 1)
        elif isinstance(t, M.tp.WildCardType) and t.bound is not None and depth < 6:
            self._flags(path + '<b>', t.bound, owner, depth + 1)

    # -- nodes -----------------------------------------------------------------------------------------------------
    def value(self, path, v, owner):
        M = self.M
        if isinstance(v, M.tp.Type) or isinstance(v, M.tp.Variance):
            self._type_entry(path, v, owner)
        elif isinstance(v, M.ast.Node):
            self.node(path, v)
        elif isinstance(v, (list, tuple)):
            self.items[path] = ('list', len(v))
            self.owner[path] = owner
            for i, x in enumerate(v):
                self.value('%s[%d]' % (path, i), x, owner)
        elif isinstance(v, dict):
            self.items[path] = ('dict', len(v))
            self.owner[path] = owner
            for i, (a, b) in enumerate(v.items()):
                self.value('%s{%d}k' % (path, i), a, owner)
                self.value('%s{%d}v' % (path, i), b, owner)
        elif v is None or isinstance(v, (str, int, float, bool)):
            self.items[path] = ('val', repr(v))
            self.owner[path] = owner
        else:
            self.items[path] = ('obj', type(v).__name__, repr(getattr(v, '__dict__', v)))
            self.owner[path] = owner

    def node(self, path, n):
        first = self._seen.get(id(n))
        if first is not None:
            self.items[path] = ('ref', first)
            return
        self._seen[id(n)] = path
        self.items[path] = ('node', type(n).__name__)
        self.nodes[path] = n
        for a in n.__dict__:                      # insertion order of attributes is the constructor's order
            if a == '_vh':
                continue
            self.value('%s.%s' % (path, a), n.__dict__[a], (path, a))

    def program(self, p):
        self.items['<program>.language'] = ('val', repr(p.language))
        self.items['<program>.bt_factory'] = ('val', type(p.bt_factory).__name__)
        ctx = p.context._context
        glob = ctx.get(('global',), {}).get('decls', {})
        self.items['<program>.decls'] = ('names', tuple(glob))
        for name, d in glob.items():
            self.node('global/%s' % name, d)
        for ns, kinds in ctx.items():
            for kind, entries in kinds.items():
                base = '<ctx>%s:%s' % ('/'.join(ns), kind)
                self.items[base] = ('names', tuple(map(str, entries)))
                for name, d in entries.items():
                    path = '%s:%s' % (base, name)
                    if isinstance(d, self.M.ast.Node) and not isinstance(d, self.M.tp.Type):
                        self.node(path, d)
                    else:
                        self.value(path, d, (base, name))
        ns_map = p.context.__dict__.get('_namespaces')
        if isinstance(ns_map, dict):
            ents = []
            for k, ns in ns_map.items():
                if id(k) in self._seen:
                    kk = self._seen[id(k)]
                elif isinstance(k, self.M.tp.Type):
                    kk = 'type:%d' % self.tkey(k)
                else:
                    kk = '?' + type(k).__name__
                ents.append((kk, ns))
            self.items['<ctx>._namespaces'] = ('val', repr(ents))
        return self


def snapshot(M, program):
    return Snap(M).program(program)


def diff(a, b):
    """list of (path, before, after) over two snapshots"""
    out = []
    for k in a.items:
        if k not in b.items:
            out.append((k, a.items[k], None))
        elif a.items[k][:2] != b.items[k][:2]:
            out.append((k, a.items[k], b.items[k]))
    for k in b.items:
        if k not in a.items:
            out.append((k, None, b.items[k]))
    return out


# ----------------------------------------------------------------------------------------------------------------
# independent local type inference over the mutated program (inferability clause) + declarative subtyping (C04)
# ----------------------------------------------------------------------------------------------------------------

class Unknown(Exception):
    """the reference cannot tell what a compiler infers here (never counted as holding or as violated)"""


class NoInfer(Exception):
    """no compiler can infer a type here from the remaining program"""


class Env:
    def __init__(self, parent=None, cls=None, func=None):
        self.parent = parent
        self.vars = {}
        self.funcs = {}
        self.tv = {}
        self.cls = cls if cls is not None else (parent.cls if parent else None)
        self.func = func if func is not None else (parent.func if parent else None)

    def lookup_var(self, name, stop=None):
        e = self
        while e is not None and e is not stop:
            if name in e.vars:
                return e.vars[name]
            e = e.parent
        return None

    def lookup_func(self, name, stop=None):
        e = self
        while e is not None and e is not stop:
            if name in e.funcs:
                return e.funcs[name]
            e = e.parent
        return None

    def bound(self, name):
        e = self
        while e is not None:
            if name in e.tv:
                return e.tv[name]
            e = e.parent
        return None

    def has_tv(self, name):
        e = self
        while e is not None:
            if name in e.tv:
                return True
            e = e.parent
        return False


class ClsInfo:
    pass


JAVA_WIDEN = {
    'ByteType': ['ShortType', 'IntegerType', 'LongType', 'FloatType', 'DoubleType'],
    'ShortType': ['IntegerType', 'LongType', 'FloatType', 'DoubleType'],
    'CharType': ['IntegerType', 'LongType', 'FloatType', 'DoubleType'],
    'IntegerType': ['LongType', 'FloatType', 'DoubleType'],
    'LongType': ['FloatType', 'DoubleType'],
    'FloatType': ['DoubleType'],
}


class Oracle:
    def __init__(self, M, program):
        self.M = M
        self.p = program
        self.lang = program.language
        self.f = program.bt_factory
        self.objs = {}
        g = program.context._context.get(('global',), {})
        self.cls = {}
        for name, cd in g.get('classes', {}).items():
            self.cls[name] = self._clsinfo(cd)
        self.genv = Env()
        for name, d in g.get('vars', {}).items():
            self.genv.vars[name] = d
        for name, d in g.get('funcs', {}).items():
            self.genv.funcs[name] = d
        self.top = self.skey(self.f.get_any_type())
        self.void = self.skey(self.f.get_void_type())
        self.boolean = self.skey(self.f.get_boolean_type())
        self.inferring = set()
        self.results = []
        self.visited = set()

    # -- types as nominal keys ---------------------------------------------------------------------------------
    def skey(self, t):
        tp = self.M.tp
        if t is None:
            return None
        if isinstance(t, tp.ParameterizedType):
            k = ('P', t.name, tuple(self.skey(a) for a in t.type_args))
        elif isinstance(t, tp.WildCardType):
            k = ('W', t.variance.value if t.bound is not None else -1, self.skey(t.bound))
        elif isinstance(t, tp.TypeParameter):
            k = ('V', t.name)
        elif isinstance(t, tp.TypeConstructor):
            k = ('C', t.name)
        elif isinstance(t, tp.Builtin):
            k = ('B', type(t).__name__)
        else:
            k = ('S', t.name)
        if k not in self.objs:
            self.objs[k] = t
        return k

    def show(self, k):
        if k is None:
            return 'None'
        if k[0] == 'P':
            return '%s<%s>' % (k[1], ', '.join(self.show(a) for a in k[2]))
        if k[0] == 'W':
            return '*' if k[1] == -1 else ('out ' if k[1] == 1 else 'in ') + self.show(k[2])
        return str(k[1])

    def _clsinfo(self, cd):
        ci = ClsInfo()
        ci.decl = cd
        ci.name = cd.name
        ci.params = [t.name for t in cd.type_parameters]
        ci.variances = [t.variance.value for t in cd.type_parameters]
        ci.bounds = {t.name: self.skey(t.bound) for t in cd.type_parameters}
        ci.fields = [(f.name, f) for f in cd.fields]
        ci.fieldmap = {f.name: f for f in cd.fields}
        ci.funcs = {f.name: f for f in cd.functions}
        ci.supers = [self.skey(s.class_type) for s in cd.superclasses]
        return ci

    def subst(self, k, m):
        if k is None or not m:
            return k
        if k[0] == 'V':
            return m.get(k[1], k)
        if k[0] == 'P':
            return ('P', k[1], tuple(self.subst(a, m) for a in k[2]))
        if k[0] == 'W' and k[2] is not None:
            b = self.subst(k[2], m)
            if b is not None and b[0] == 'W':
                return b
            return ('W', k[1], b)
        return k

    def mentions(self, k, names):
        if k is None:
            return False
        if k[0] == 'V':
            return k[1] in names
        if k[0] == 'P':
            return any(self.mentions(a, names) for a in k[2])
        if k[0] == 'W':
            return self.mentions(k[2], names)
        return False

    def has_open(self, k):
        if k is None:
            return False
        if k[0] == '?':
            return True
        if k[0] == 'P':
            return any(self.has_open(a) for a in k[2])
        if k[0] == 'W':
            return self.has_open(k[2])
        return False

    def supers(self, k):
        """declared direct supertypes of a type (class table for user classes, the type object's own list otherwise)"""
        if k is None:
            return []
        if k[0] in 'SP' and k[1] in self.cls:
            ci = self.cls[k[1]]
            m = dict(zip(ci.params, k[2])) if k[0] == 'P' else {}
            return [self.subst(s, m) for s in ci.supers]
        o = self.objs.get(k)
        if o is None:
            return []
        return [self.skey(s) for s in (getattr(o, 'supertypes', None) or [])]

    def variances(self, k):
        if k[1] in self.cls:
            return self.cls[k[1]].variances
        o = self.objs.get(k)
        tc = getattr(o, 't_constructor', None)
        if tc is None:
            return [0] * len(k[2])
        return [t.variance.value for t in tc.type_parameters]

    def instance_of(self, k, name, depth=0):
        """the instance of class `name` among the supertypes of k (k itself included)"""
        if k is None or depth > 30:
            return None
        if k[0] in 'SP' and k[1] == name:
            return k
        for s in self.supers(k):
            r = self.instance_of(s, name, depth + 1)
            if r is not None:
                return r
        return None

    def is_nothing(self, k):
        return k is not None and k[0] in 'BS' and ('Nothing' in k[1] or k[1] == 'Null')

    def strip_tv(self, k, env, depth=0):
        """type variable / projection -> the class type members are looked up in"""
        while k is not None and depth < 20:
            depth += 1
            if k[0] == 'V':
                k = env.bound(k[1]) if env is not None else None
            elif k[0] == 'W':
                k = k[2] if k[1] == 1 else None
            else:
                return k
        return k

    # -- declarative subtyping / assignment conversion (C04) ----------------------------------------------------
    def sub(self, s, t, env=None, depth=0):
        if s is None or t is None or depth > 40:
            raise Unknown('subtyping on an unknown type')
        if s == t or t == self.top:
            return True
        if self.is_nothing(s):
            return True
        if s[0] == 'V':
            b = env.bound(s[1]) if env is not None else None
            return b is not None and self.sub(b, t, env, depth + 1)
        if t[0] == 'V' or s[0] == 'W' or t[0] == 'W' or s[0] == 'C' or t[0] == 'C':
            return False
        for u in self.supers(s):
            if self.sub(u, t, env, depth + 1):
                return True
        if s[0] == 'P' and t[0] == 'P' and s[1] == t[1] and len(s[2]) == len(t[2]):
            return all(self.contained(a, b, v, env, depth + 1) for a, b, v in zip(s[2], t[2], self.variances(s)))
        return False

    def contained(self, a, b, v, env, depth):
        def proj(x):
            if x[0] == 'W':
                return (x[1], x[2])
            return (v, x)
        va, xa = proj(a)
        vb, xb = proj(b)
        if vb == -1:
            return True
        if va == -1:
            return False
        if vb == 0:
            return va == 0 and xa == xb
        if vb == 1:
            return va in (0, 1) and self.sub(xa, xb, env, depth)
        return va in (0, 2) and self.sub(xb, xa, env, depth)

    def is_prim(self, k):
        o = self.objs.get(k)
        return bool(getattr(o, 'primitive', False)) if k and k[0] == 'B' else False

    def assignable(self, s_t, t_t, env=None):
        """may a value of (type object) s_t be assigned to a variable of (type object) t_t in this language"""
        s, t = self.skey(s_t), self.skey(t_t)
        sp, tpp = bool(getattr(s_t, 'primitive', False)), bool(getattr(t_t, 'primitive', False))
        if self.lang in ('java', 'groovy') and s[0] == 'B' and t[0] == 'B' and (sp or tpp):
            if sp and tpp:
                return s == t or t[1] in JAVA_WIDEN.get(s[1], [])
            if sp and not tpp:          # boxing, then widening reference
                return self.sub(s, t, env)
            # unboxing, then widening primitive
            return s == t or t[1] in JAVA_WIDEN.get(s[1], [])
        return self.sub(s, t, env)

    # -- members -----------------------------------------------------------------------------------------------
    def member(self, k, name, env, kind, depth=0):
        """(declaration, substitution of the declaring class's parameters) of field/function `name` of type k"""
        k = self.strip_tv(k, env)
        if k is None or k[0] not in 'SP' or depth > 30:
            return None
        ci = self.cls.get(k[1])
        if ci is None:
            return None
        m = dict(zip(ci.params, k[2])) if k[0] == 'P' else {}
        d = (ci.fieldmap if kind == 'field' else ci.funcs).get(name)
        if d is not None:
            return d, m
        for s in ci.supers:
            r = self.member(self.subst(s, m), name, env, kind, depth + 1)
            if r is not None:
                return r
        return None

    def self_type(self, ci):
        if ci.params:
            return ('P', ci.name, tuple(('V', n) for n in ci.params))
        return ('S', ci.name)

    def resolve_var(self, name, env):
        """declared type (key) of the variable `name` visible in env"""
        d = env.lookup_var(name, stop=self.genv)        # locals and parameters, then fields, then globals
        if d is not None:
            return self.decl_type(d)
        if env.cls is not None:
            r = self.member(self.self_type(env.cls), name, env, 'field')
            if r is not None:
                return self.subst(self.skey(r[0].get_type()), r[1])
        d = self.genv.vars.get(name)
        if d is not None:
            return self.decl_type(d)
        raise Unknown('unresolved variable ' + name)

    def decl_type(self, d):
        ast = self.M.ast
        if isinstance(d, ast.ParameterDeclaration):
            return self.skey(d.param_type)
        if isinstance(d, ast.FieldDeclaration):
            return self.skey(d.field_type)
        if isinstance(d, ast.VariableDeclaration):
            if d.var_type is not None:
                return self.skey(d.var_type)
            return self.skey(d.inferred_type)     # an omitted annotation: validated at its own declaration
        return self.skey(d.get_type())

    def resolve_call(self, call, env):
        """(function declaration | None, substitution from the receiver, function-typed variable key | None)"""
        ast = self.M.ast
        if call.receiver is None:
            d = env.lookup_func(call.func, stop=self.genv)
            if d is not None:
                return d, {}, None
            v = env.lookup_var(call.func, stop=self.genv)
            if v is not None:
                return None, {}, self.decl_type(v)
            if env.cls is not None:
                r = self.member(self.self_type(env.cls), call.func, env, 'func')
                if r is not None:
                    return r[0], r[1], None
                r = self.member(self.self_type(env.cls), call.func, env, 'field')
                if r is not None:
                    return None, {}, self.subst(self.skey(r[0].get_type()), r[1])
            d = self.genv.funcs.get(call.func)
            if d is not None:
                return d, {}, None
            v = self.genv.vars.get(call.func)
            if v is not None:
                return None, {}, self.decl_type(v)
            raise Unknown('unresolved function ' + call.func)
        rt = self.typeof(call.receiver, env, None)
        r = self.member(rt, call.func, env, 'func')
        if r is not None:
            return r[0], r[1], None
        r = self.member(rt, call.func, env, 'field')
        if r is not None:
            return None, {}, self.subst(self.skey(r[0].get_type()), r[1])
        raise Unknown('unresolved method %s on %s' % (call.func, self.show(rt)))

    # -- constraint collection for omitted type arguments --------------------------------------------------------
    def _slot(self, out, name):
        return out.setdefault(name, {'exact': set(), 'lower': set(), 'upper': set(), 'soft': False})

    def _soft(self, out, k, tv):
        if k is None:
            return
        if k[0] == 'V' and k[1] in tv:
            self._slot(out, k[1])['soft'] = True
        elif k[0] == 'P':
            for a in k[2]:
                self._soft(out, a, tv)
        elif k[0] == 'W':
            self._soft(out, k[2], tv)

    def _pairwise(self, fargs, aargs, variances, tv, out):
        for fa, aa, v in zip(fargs, aargs, variances):
            if not self.mentions(fa, tv):
                continue
            if fa[0] == 'W' or aa is None or aa[0] in 'W?' or v != 0:
                self._soft(out, fa, tv)
            elif fa[0] == 'V':
                self._slot(out, fa[1])['exact'].add(aa)
            elif fa[0] == 'P':
                if aa[0] == 'P' and aa[1] == fa[1] and len(aa[2]) == len(fa[2]):
                    self._pairwise(fa[2], aa[2], self.variances(fa), tv, out)
                else:
                    self._soft(out, fa, tv)

    def constrain_arg(self, formal, actual, tv, out):
        """an argument of type `actual` is passed where `formal` (over the variables tv) is declared"""
        if not self.mentions(formal, tv):
            return
        if actual is None or self.is_nothing(actual):
            self._soft(out, formal, tv) if actual is None else None
            return
        if formal[0] == 'V':
            self._slot(out, formal[1])['lower'].add(actual)
        elif formal[0] == 'P':
            a = self.strip_tv(actual, None) if actual[0] == 'W' else actual
            inst = self.instance_of(a, formal[1]) if a is not None and a[0] in 'SP' else None
            if inst is None or inst[0] != 'P' or len(inst[2]) != len(formal[2]):
                self._soft(out, formal, tv)
            else:
                self._pairwise(formal[2], inst[2], self.variances(formal), tv, out)
        else:
            self._soft(out, formal, tv)

    def constrain_expected(self, produced, expected, tv, out):
        """a value of type `produced` (over tv) is used where `expected` is required"""
        if expected is None or not self.mentions(produced, tv):
            return
        if expected[0] == '?':          # an enclosing call's own inference variable: a source, but not a known one
            self._soft(out, produced, tv)
            return
        if produced[0] == 'V':
            if expected[0] == 'W':
                self._slot(out, produced[1])['soft'] = True
            else:
                self._slot(out, produced[1])['upper'].add(expected)
        elif produced[0] == 'P':
            if expected[0] != 'P':
                return          # a non-generic expected type says nothing about the arguments
            inst = self.instance_of(produced, expected[1])
            if inst is None or inst[0] != 'P' or len(inst[2]) != len(expected[2]):
                return
            self._pairwise(inst[2], expected[2], self.variances(expected), tv, out)

    def partial_solution(self, produced, expected, names):
        """joint inference of nested calls: what the expected type alone fixes for the enclosing call's parameters;
        the others stay open inference variables ('?', name)"""
        out = {}
        try:
            self.constrain_expected(produced, expected, set(names), out)
        except (Unknown, NoInfer):
            out = {}
        m = {}
        for n in names:
            slot = out.get(n)
            if slot is not None and len(slot['exact']) == 1 and not slot['soft']:
                m[n] = next(iter(slot['exact']))
            else:
                m[n] = ('?', n)
        return m

    def resolve_tv(self, name, slot):
        """what the remaining program determines for one omitted type argument"""
        if slot is None:
            raise NoInfer('nothing in the remaining program mentions type parameter %s' % name)
        if len(slot['exact']) == 1:
            return next(iter(slot['exact']))
        if slot['exact'] or slot['soft']:
            raise Unknown('projection / variance / several constraints on ' + name)
        if slot['lower']:
            if len(slot['lower']) != 1:
                raise Unknown('least upper bound of several argument types for ' + name)
            l = next(iter(slot['lower']))
            if slot['upper'] and slot['upper'] != {l}:
                raise Unknown('lower and upper constraint differ for ' + name)
            return l
        if len(slot['upper']) == 1:
            return next(iter(slot['upper']))
        if slot['upper']:
            raise Unknown('several upper constraints on ' + name)
        raise NoInfer('nothing in the remaining program mentions type parameter %s' % name)

    def solve(self, names, bounds, out, recorded):
        """the inferred argument list; raises Mismatch / NoInfer (violations) or Unknown"""
        inferred = {}
        pending = []
        unknown = None
        rec_of = dict(zip(names, recorded))
        for n in names:
            try:
                inferred[n] = self.resolve_tv(n, out.get(n))
            except NoInfer:
                pending.append(n)
            except Unknown as e:
                unknown = unknown or e
                inferred[n] = rec_of[n]
        for n in pending:
            rec = rec_of[n]
            b = bounds.get(n)
            dflt = self.subst(b, inferred) if b is not None else self.top
            if rec is not None and rec == dflt:
                # only the declared bound constrains the parameter: Java resolves it to the bound (JLS 18.4);
                # Kotlin reports "not enough information", Scala picks Nothing or the bound by variance
                if self.lang != 'java':
                    unknown = unknown or Unknown('%s is constrained by its declared bound only' % n)
                inferred[n] = rec
            else:
                raise NoInfer('nothing in the remaining program (constructor / call arguments, expected type) '
                              'determines type parameter %s; recorded argument %s' % (n, self.show(rec)))
        bad = []
        for n in names:
            rec = rec_of[n]
            if rec is not None and rec[0] == 'W':
                unknown = unknown or Unknown('recorded argument is a projection')
                inferred[n] = rec
            elif inferred[n] != rec:
                bad.append((n, inferred[n], rec))
        if bad:
            raise Mismatch(bad, self)
        if unknown is not None:
            raise unknown
        return [inferred[n] for n in names]

    # -- expression typing -------------------------------------------------------------------------------------
    def unwrap(self, e):
        while isinstance(e, self.M.ast.CallArgument):
            e = e.expr
        return e

    def try_type(self, e, env, expected=None):
        try:
            return self.typeof(e, env, expected)
        except (Unknown, NoInfer, Mismatch):
            return None

    def typeof(self, e, env, expected=None):
        ast = self.M.ast
        e = self.unwrap(e)
        if isinstance(e, ast.IntegerConstant):
            return self.skey(e.integer_type) if e.integer_type is not None else self.skey(self.f.get_integer_type())
        if isinstance(e, ast.RealConstant):
            return self.skey(e.real_type)
        if isinstance(e, ast.BooleanConstant):
            return self.boolean
        if isinstance(e, ast.CharConstant):
            return self.skey(self.f.get_char_type())
        if isinstance(e, ast.StringConstant):
            return self.skey(self.f.get_string_type())
        if isinstance(e, ast.BottomConstant):
            if e.t is None:
                raise Unknown('untyped bottom constant')
            return self.skey(e.t)          # printed with an explicit cast to t
        if isinstance(e, (ast.LogicalExpr, ast.EqualityExpr, ast.ComparisonExpr, ast.Is)):
            return self.boolean
        if isinstance(e, ast.ArithExpr):
            raise Unknown('arithmetic promotion')
        if isinstance(e, ast.ArrayExpr):
            return self.skey(e.array_type)
        if isinstance(e, ast.Variable):
            return self.resolve_var(e.name, env)
        if isinstance(e, ast.Assignment):
            return self.void
        if isinstance(e, ast.Block):
            if not e.body:
                return self.void
            return self.typeof(e.body[-1], self.block_env(e, env), expected)
        if isinstance(e, ast.Conditional):
            a = self.typeof(e.true_branch, env, expected)
            b = self.typeof(e.false_branch, env, expected)
            if a == b:
                return a
            if self.is_nothing(a):
                return b
            if self.is_nothing(b):
                return a
            if expected is not None and not self.has_open(expected):
                return expected
            raise Unknown('least upper bound of two branch types')
        if isinstance(e, ast.FieldAccess):
            rt = self.typeof(e.expr, env, None)
            r = self.member(rt, e.field, env, 'field')
            if r is None:
                raise Unknown('unresolved field ' + e.field)
            return self.read(self.subst(self.skey(r[0].get_type()), r[1]))
        if isinstance(e, ast.New):
            return self.type_new(e, env, expected)
        if isinstance(e, ast.FunctionCall):
            return self.type_call(e, env, expected)
        if isinstance(e, ast.Lambda):
            raise Unknown('lambda')
        if isinstance(e, ast.FunctionReference):
            raise Unknown('function reference')
        if isinstance(e, (ast.VariableDeclaration, ast.FunctionDeclaration)):
            return self.void
        raise Unknown('expression ' + type(e).__name__)

    def read(self, k):
        if k is not None and k[0] == 'W':
            if k[1] == 1:
                return k[2]
            raise Unknown('reading through a projection')
        return k

    def type_new(self, e, env, expected):
        tp = self.M.tp
        ct = e.class_type
        k = self.skey(ct)
        if not isinstance(ct, tp.ParameterizedType) or not ct._can_infer_type_args:
            return k
        inferred = self.infer_new(e, env, expected)
        return ('P', k[1], tuple(inferred))

    def constraints_new(self, e, env, expected):
        k = self.skey(e.class_type)
        ci = self.cls.get(k[1])
        if ci is None:
            raise Unknown('constructor of a builtin generic class')
        tv = set(ci.params)
        out = {}
        args = [self.unwrap(a) for a in e.args]
        for (fname, fd), a in zip(ci.fields, args):
            ft = self.skey(fd.get_type())
            if self.mentions(ft, tv):
                self.constrain_arg(ft, self.try_type(a, env, None), tv, out)
        self.constrain_expected(self.self_type(ci), expected, tv, out)
        return ci.params, ci.bounds, out, list(k[2])

    def infer_new(self, e, env, expected):
        return self.solve(*self.constraints_new(e, env, expected))

    def callee_signature(self, call, env):
        d, m, fvar = self.resolve_call(call, env)
        if d is None:
            ft = self.strip_tv(fvar, env)
            if ft is None or ft[0] != 'P' or not ft[1].startswith('Function'):
                raise Unknown('call through a value that is not of a function type')
            return None, m, list(ft[2][:-1]), ft[2][-1]
        params = []
        for p in d.params:
            pt = self.skey(p.param_type)
            if p.vararg and pt is not None and pt[0] == 'P' and len(pt[2]) == 1:
                pt = ('vararg', pt[2][0])
            params.append(pt)
        if d.ret_type is None and id(d) in self.inferring:
            raise NoInfer('the type of the body depends on the function\'s own (omitted) return type: call to %s'
                          % d.name)
        ret = self.skey(d.ret_type if d.ret_type is not None else d.inferred_type)
        return d, m, params, ret

    def formal_for(self, params, i):
        if not params:
            return None
        if i < len(params):
            p = params[i]
        else:
            p = params[-1]
        if p is not None and p[0] == 'vararg':
            return p[1]
        return p

    def type_call(self, e, env, expected):
        d, m, params, ret = self.callee_signature(e, env)
        if d is not None and d.type_parameters:
            names = [t.name for t in d.type_parameters]
            if e.type_args and not e._can_infer_type_args:
                m = dict(m)
                m.update(dict(zip(names, [self.skey(t) for t in e.type_args])))
            else:
                inferred = self.infer_call(e, env, expected, d, m, params, ret)
                m = dict(m)
                m.update(dict(zip(names, inferred)))
        return self.read(self.subst(ret, m))

    def constraints_call(self, e, env, expected, d, m, params, ret):
        names = [t.name for t in d.type_parameters]
        tv = set(names)
        bounds = {t.name: self.subst(self.skey(t.bound), m) for t in d.type_parameters}
        out = {}
        named = {p.name: i for i, p in enumerate(d.params)}
        for i, a in enumerate(e.args):
            idx = named.get(a.name, i) if isinstance(a, self.M.ast.CallArgument) and a.name else i
            ft = self.subst(self.formal_for(params, idx), m)
            if ft is not None and self.mentions(ft, tv):
                self.constrain_arg(ft, self.try_type(a, env, None), tv, out)
        self.constrain_expected(self.subst(ret, m), expected, tv, out)
        if not e.type_args:
            raise Unknown('call without recorded type arguments')
        return names, bounds, out, [self.skey(t) for t in e.type_args]

    def infer_call(self, e, env, expected, d, m, params, ret):
        return self.solve(*self.constraints_call(e, env, expected, d, m, params, ret))

    # -- scopes ------------------------------------------------------------------------------------------------
    def collect_locals(self, node, env):
        """declarations of a body that live in the enclosing function's scope (not inside nested functions/lambdas)"""
        ast = self.M.ast
        stack = [node]
        while stack:
            n = stack.pop()
            if n is None or isinstance(n, self.M.tp.Type):
                continue
            if isinstance(n, ast.VariableDeclaration):
                env.vars.setdefault(n.name, n)
                stack.append(n.expr)
            elif isinstance(n, ast.FunctionDeclaration):
                env.funcs.setdefault(n.name, n)
            elif isinstance(n, ast.Lambda):
                continue
            elif isinstance(n, ast.Node):
                try:
                    stack.extend(n.children())
                except Exception:
                    pass

    def block_env(self, block, env):
        return env

    def func_env(self, f, env):
        e2 = Env(env, func=f)
        for t in getattr(f, 'type_parameters', None) or []:
            e2.tv[t.name] = self.skey(t.bound)
        for p in f.params:
            e2.vars[p.name] = p
        if f.body is not None:
            self.collect_locals(f.body, e2)
        return e2

    def class_env(self, ci):
        e2 = Env(self.genv, cls=ci)
        for n, b in ci.bounds.items():
            e2.tv[n] = b
        return e2


class Narrowed(Exception):
    """the compiler infers a strict subtype of the removed annotation (the annotation was not inferable information;
    the program may or may not stay well-typed)"""


# A removed annotation whose inferred replacement is a STRICT SUBTYPE of it.  The statement's second sentence only demands
# well-typedness, but its title ("only removes inferable type information") and the anchored mechanism ("every omitted
# declaration must still reach only its own type") demand that the compiler infers the removed type itself.  While the
# statement is what the check enforces: narrowing alone is counted (`narrowed`), not reported -- the thorough tier shows
# narrowed function-typed variables on the unchanged tree (e.g. scala seed 46, java seed 6306), which are well-typed.
# Set to True to see them (check names erasure-inferable:*-narrowed).
NARROWED_IS_VIOLATION = False


class Mismatch(Exception):
    def __init__(self, bad, oracle):
        self.bad = bad
        super().__init__('; '.join('%s: a compiler infers %s, recorded %s' % (n, oracle.show(i), oracle.show(r))
                                   for n, i, r in bad))


class Walker:
    """visits every node of the mutated program with its scope and expected type and judges each removed annotation"""

    def __init__(self, oracle, erased_vars, erased_rets, erased_news, erased_calls):
        self.o = oracle
        self.M = oracle.M
        self.ev, self.er, self.en, self.ec = erased_vars, erased_rets, erased_news, erased_calls
        self.done = set()
        self.results = []      # (kind, status, where, detail)

    def record(self, kind, node, status, where, detail):
        if id(node) in self.done and status != 'violation':
            return
        self.done.add(id(node))
        self.results.append((kind, status, where, detail))

    def judge(self, kind, node, where, fn):
        try:
            detail = fn()
            self.record(kind, node, 'ok', where, detail)
        except Unknown as e:
            self.record(kind, node, 'undecided', where, str(e))
        except Narrowed as e:
            # the statement demands that the program stays well-typed with the inferred type, not that the inferred type is
            # the removed annotation: a narrower inferred type alone is counted ("narrowed"), not reported; it becomes a
            # violation only where the reference finds the narrowed program ill-typed (Mismatch below)
            self.record(kind.replace(':from-outer-declaration', '') + '-narrowed' + (':from-outer-declaration' if ':from-outer-declaration' in kind else ''),
                        node, 'narrowed' if not NARROWED_IS_VIOLATION else 'violation', where, str(e))
        except (NoInfer, Mismatch) as e:
            self.record(kind, node, 'violation', where, str(e))
        except RecursionError:
            self.record(kind, node, 'undecided', where, 'reference recursion limit')

    def _from_field(self, e, env):
        """is the initializer / body a bare name bound outside the analysed function: a field of the enclosing class or
        a global variable (cause discriminator of the check name only)"""
        o = self.o
        e = o.unwrap(e)
        if not isinstance(e, self.M.ast.Variable) or env.lookup_var(e.name, stop=o.genv) is not None:
            return False
        if env.cls is not None and o.member(o.self_type(env.cls), e.name, env, 'field') is not None:
            return True
        return e.name in o.genv.vars

    def _narrow(self, name, inf, rec, env):
        o = self.o
        try:
            narrower = o.sub(inf, rec, env)
        except Unknown:
            narrower = False
        if narrower:
            raise Narrowed('%s: a compiler infers %s, a strict subtype of the removed annotation %s'
                           % (name, o.show(inf), o.show(rec)))
        raise Mismatch([(name, inf, rec)], o)

    def _assignments(self, node, name, acc, depth=0):
        ast = self.M.ast
        if node is None or isinstance(node, self.M.tp.Type) or depth > 200:
            return
        if isinstance(node, ast.Assignment) and node.receiver is None and node.name == name:
            acc.append(node)
        if isinstance(node, (ast.Lambda, ast.FunctionDeclaration)) and depth > 0:
            return
        try:
            ch = node.children()
        except Exception:
            ch = []
        for c in ch:
            self._assignments(c, name, acc, depth + 1)

    # -- the four kinds of removed annotations -----------------------------------------------------------------
    def check_var(self, v, env, where):
        o = self.o

        def fn():
            inf = o.read(o.typeof(v.expr, env, None))
            rec = o.read(o.skey(v.inferred_type))
            if inf != rec:
                if not v.is_final and env.func is not None and getattr(env.func, 'body', None) is not None:
                    acc = []
                    self._assignments(env.func.body, v.name, acc)
                    for a in acc:
                        r = o.try_type(a.expr, env, inf)
                        try:
                            fits = r is None or o.sub(r, inf, env)
                        except Unknown:
                            fits = True
                        if not fits:
                            raise Mismatch([(v.name + ' (later assigned a value of type %s: ill-typed)' % o.show(r),
                                             inf, rec)], o)
                self._narrow(v.name, inf, rec, env)
            return o.show(inf)
        self.judge('var-type' + (':from-outer-declaration' if self._from_field(v.expr, env) else ''), v, where, fn)

    def check_ret(self, f, env, where):
        o = self.o
        ast = self.M.ast

        def fn():
            rec = o.skey(f.inferred_type)
            o.inferring.add(id(f))
            try:
                if isinstance(f.body, ast.Block):
                    if o.lang == 'kotlin':
                        inf = o.void          # `fun f() { .. }` declares Unit
                    elif rec == o.void:
                        inf = o.void
                    else:
                        inf = o.typeof(f.body, env, None)
                elif f.body is None:
                    raise NoInfer('abstract function without return type')
                else:
                    inf = o.typeof(f.body, env, None)
            finally:
                o.inferring.discard(id(f))
            inf, rec = o.read(inf), o.read(rec)
            if inf != rec:
                self._narrow(f.name, inf, rec, env)
            return o.show(inf)
        self.judge('return-type' + (':from-outer-declaration' if f.body is not None and self._from_field(f.body, env) else ''),
                   f, where, fn)

    def check_new(self, e, env, expected, where):
        o = self.o

        def fn():
            if not isinstance(e.class_type, self.M.tp.ParameterizedType):
                raise NoInfer('inference flag on a non-generic constructor call')
            return o.show(('P', e.class_type.name, tuple(o.infer_new(e, env, expected))))
        self.judge('constructor-type-arguments', e, where, fn)

    def check_call(self, e, env, expected, where):
        o = self.o

        def fn():
            d, m, params, ret = o.callee_signature(e, env)
            if d is None or not d.type_parameters:
                raise NoInfer('inference flag on a call of a non-generic function')
            return ', '.join(map(o.show, o.infer_call(e, env, expected, d, m, params, ret)))
        self.judge('call-type-arguments', e, where, fn)

    # -- traversal ----------------------------------------------------------------------------------------------
    def program(self):
        o = self.o
        ast = self.M.ast
        decls = o.p.context._context.get(('global',), {}).get('decls', {})
        for name, d in decls.items():
            where = 'global/' + name
            if isinstance(d, ast.VariableDeclaration):
                self.var(d, o.genv, 'global')
            elif isinstance(d, ast.FunctionDeclaration):
                self.func(d, o.genv, where)
            elif isinstance(d, ast.ClassDeclaration):
                self.cls(d, where)
        return self.results

    def cls(self, cd, where):
        o = self.o
        ci = o.cls.get(cd.name) or o._clsinfo(cd)
        env = o.class_env(ci)
        for s in cd.superclasses:
            sk = o.skey(s.class_type)
            sci = o.cls.get(sk[1]) if sk else None
            for i, a in enumerate(s.args or []):
                exp = None
                if sci is not None and i < len(sci.fields):
                    m = dict(zip(sci.params, sk[2])) if sk[0] == 'P' else {}
                    exp = o.subst(o.skey(sci.fields[i][1].get_type()), m)
                self.expr(a, env, exp, where + '/super')
        for f in cd.functions:
            self.func(f, env, where + '/' + f.name)

    def func(self, f, env, where):
        o = self.o
        ast = self.M.ast
        e2 = o.func_env(f, env)
        for p in f.params:
            if p.default is not None:
                self.expr(p.default, e2, o.skey(p.param_type), where + '/' + p.name)
        if f.body is not None:
            if isinstance(f.body, ast.Block):
                rt = o.skey(f.inferred_type)
                self.block(f.body, e2, None if rt == o.void else rt, where)
            else:
                self.expr(f.body, e2, o.skey(f.ret_type) if f.ret_type is not None else None, where)
        if id(f) in self.er:
            self.check_ret(f, e2, where)

    def var(self, v, env, where):
        o = self.o
        self.expr(v.expr, env, o.skey(v.var_type) if v.var_type is not None else None, where + '/' + v.name)
        if id(v) in self.ev:
            self.check_var(v, env, where + '/' + v.name)

    def block(self, b, env, last_expected, where):
        ast = self.M.ast
        n = len(b.body)
        for i, s in enumerate(b.body):
            if isinstance(s, ast.VariableDeclaration):
                self.var(s, env, where)
            elif isinstance(s, ast.FunctionDeclaration):
                self.func(s, env, where + '/' + s.name)
            else:
                self.expr(s, env, last_expected if i == n - 1 else None, where)

    def expr(self, e, env, expected, where):
        o = self.o
        ast = self.M.ast
        if e is None:
            return
        if isinstance(e, ast.CallArgument):
            return self.expr(e.expr, env, expected, where)
        if isinstance(e, ast.VariableDeclaration):
            return self.var(e, env, where)
        if isinstance(e, ast.FunctionDeclaration):
            return self.func(e, env, where + '/' + e.name)
        if isinstance(e, ast.Block):
            return self.block(e, env, expected, where)
        if isinstance(e, ast.New):
            k = o.skey(e.class_type)
            ci = o.cls.get(k[1]) if k and k[0] in 'SP' else None
            flagged = bool(getattr(e.class_type, '_can_infer_type_args', False))
            for i, a in enumerate(e.args):
                exp = None
                if ci is not None and i < len(ci.fields):
                    ft = o.skey(ci.fields[i][1].get_type())
                    if not o.mentions(ft, set(ci.params)):
                        exp = ft
                    elif not flagged and k[0] == 'P':
                        exp = o.subst(ft, dict(zip(ci.params, k[2])))
                    else:
                        exp = o.subst(ft, o.partial_solution(o.self_type(ci), expected, ci.params))
                elif ci is None and k is not None and k[0] == 'P' and len(k[2]) == 1:
                    exp = None
                self.expr(a, env, exp, where)
            if id(e) in self.en:
                self.check_new(e, env, expected, where + '/' + e.class_type.name)
            return
        if isinstance(e, ast.FunctionCall):
            if e.receiver is not None:
                self.expr(e.receiver, env, None, where)
            sig = None
            try:
                sig = o.callee_signature(e, env)
            except (Unknown, NoInfer, Mismatch, RecursionError):
                sig = None
            for i, a in enumerate(e.args):
                exp = None
                if sig is not None:
                    d, m, params, ret = sig
                    idx = i
                    if d is not None and isinstance(a, ast.CallArgument) and a.name:
                        idx = {p.name: j for j, p in enumerate(d.params)}.get(a.name, i)
                    ft = o.subst(o.formal_for(params, idx), m)
                    if d is not None and d.type_parameters:
                        names = [t.name for t in d.type_parameters]
                        if ft is not None and o.mentions(ft, set(names)):
                            if e.type_args and not e._can_infer_type_args:
                                ft = o.subst(ft, dict(zip(names, [o.skey(t) for t in e.type_args])))
                            else:
                                ft = o.subst(ft, o.partial_solution(o.subst(ret, m), expected, names))
                    exp = ft
                self.expr(a, env, exp, where)
            if id(e) in self.ec:
                self.check_call(e, env, expected, where + '/' + e.func)
            return
        if isinstance(e, ast.Lambda):
            e2 = o.func_env(e, env)
            if isinstance(e.body, ast.Block):
                rt = o.skey(e.ret_type)
                self.block(e.body, e2, None if rt == o.void else rt, where + '/' + str(e.name))
            elif e.body is not None:
                self.expr(e.body, e2, o.skey(e.ret_type), where + '/' + str(e.name))
            return
        if isinstance(e, ast.Conditional):
            self.expr(e.cond, env, None, where)
            self.expr(e.true_branch, env, expected, where)
            self.expr(e.false_branch, env, expected, where)
            return
        if isinstance(e, ast.Assignment):
            exp = None
            try:
                if e.receiver is None:
                    exp = o.resolve_var(e.name, env)
                else:
                    rt = o.typeof(e.receiver, env, None)
                    r = o.member(rt, e.name, env, 'field')
                    if r is not None:
                        exp = o.subst(o.skey(r[0].get_type()), r[1])
                        if exp is not None and exp[0] == 'W':
                            exp = None
            except (Unknown, NoInfer, Mismatch, RecursionError):
                exp = None
            if e.receiver is not None:
                self.expr(e.receiver, env, None, where)
            self.expr(e.expr, env, exp, where)
            return
        if isinstance(e, ast.ArrayExpr):
            k = o.skey(e.array_type)
            exp = k[2][0] if k is not None and k[0] == 'P' and len(k[2]) == 1 else None
            if exp is not None and exp[0] == 'W':
                exp = None
            for x in e.exprs:
                self.expr(x, env, exp, where)
            return
        if isinstance(e, ast.Is):
            return self.expr(e.lexpr, env, None, where)
        if isinstance(e, ast.Node) and not isinstance(e, self.M.tp.Type):
            try:
                ch = list(e.children())
            except Exception:
                ch = []
            for c in ch:
                self.expr(c, env, None, where)


class RejectWalker(Walker):
    """'a correct type checker must reject': as far as the local reference can tell.  verdict:
       'rejects'   - the mutated annotation definitely conflicts with its initializer / body / arguments / expected type
       'accepts'   - nothing in the program constrains the replaced type argument, or every constraint is compatible
       'undecided' - anything else (e.g. the conflict could only come from later uses of the declaration)"""

    def __init__(self, oracle, node, kind, index=None):
        ids = {id(node)}
        super().__init__(oracle, ids if kind == 'variable' else set(), ids if kind == 'function' else set(),
                         ids if kind == 'constructor-call' else set(), ids if kind == 'function-call' else set())
        self.index = index
        self.verdict = ('undecided', 'mutated node not reached by the reference')

    def _fits(self, s, t, env):
        """may a value of type s be used where t is declared; None = cannot tell"""
        o = self.o
        if s is None or t is None:
            return None
        try:
            if o.sub(s, t, env):
                return True
        except Unknown:
            return None
        if o.lang in ('java', 'groovy') and s[0] == 'B' and t[0] == 'B':
            if t[1] in JAVA_WIDEN.get(s[1], []) or o.lang == 'groovy':
                return None          # boxing / widening depends on primitive-ness, Groovy converts numbers freely
        if s[0] == 'W' or t[0] == 'W' or s[0] == 'V' and env is not None and not env.has_tv(s[1]):
            return None
        return False

    def _decl(self, name, new_t, value_type, env):
        o = self.o
        if value_type is None:
            self.verdict = ('undecided', 'type of the initializer / body is not known to the reference')
            return
        fits = self._fits(value_type, o.skey(new_t), env)
        if fits is False:
            self.verdict = ('rejects', '%s: a value of type %s does not fit the new declared type %s'
                            % (name, o.show(value_type), o.show(o.skey(new_t))))
        else:
            self.verdict = ('undecided', 'the initializer fits (or may fit) the new type; a conflict could only come '
                                         'from other uses of %s' % name)

    def check_var(self, v, env, where):
        self._decl(v.name, v.var_type, self.o.try_type(v.expr, env, None), env)

    def check_ret(self, f, env, where):
        o = self.o
        body = f.body
        if body is None:
            self.verdict = ('undecided', 'abstract function')
            return
        # a function whose body is nothing but a call of itself: the type of the body IS the declared return type, so no
        # declared return type can conflict with it; if nothing else in the program calls the function, replacing the
        # declared type cannot make the program ill-typed
        ast = self.M.ast
        b = o.unwrap(body)
        if isinstance(b, ast.FunctionCall) and b.func == f.name:
            other_calls = 0
            stack = [o.p]
            seen = set()
            while stack:
                n = stack.pop()
                if id(n) in seen or n is body or n is b:
                    continue
                seen.add(id(n))
                if isinstance(n, ast.FunctionCall) and n.func == f.name:
                    other_calls += 1
                if isinstance(n, ast.Node):
                    try:
                        stack.extend(n.children())
                    except Exception:
                        pass
            if other_calls == 0:
                self.verdict = ('accepts', '%s: the body is a call of the function itself and nothing else calls it: any '
                                           'declared return type is consistent' % f.name)
                return
        self._decl(f.name, f.ret_type, o.try_type(body, env, None), env)

    def _targ(self, names, bounds, out, recorded, env):
        o = self.o
        k = self.index
        if k is None or k >= len(names):
            return
        n, new = names[k], recorded[k]
        slot = out.get(n)
        if slot is None or not (slot['exact'] or slot['lower'] or slot['upper'] or slot['soft']):
            b = bounds.get(n)
            b = o.subst(b, dict(zip(names, recorded))) if b is not None else None
            inb = True if b is None else self._fits(new, b, env)
            if inb is False:
                self.verdict = ('rejects', 'new argument %s violates the bound %s of %s' % (o.show(new), o.show(b), n))
            elif inb is None:
                self.verdict = ('undecided', 'bound check of %s not decided' % n)
            else:
                self.verdict = ('accepts', 'nothing in the program (constructor / call arguments, expected type) '
                                           'constrains type parameter %s, so replacing its argument by %s cannot make '
                                           'the program ill-typed' % (n, o.show(new)))
            return
        for e in slot['exact']:
            if e != new:
                self.verdict = ('rejects', '%s must be %s, is %s' % (n, o.show(e), o.show(new)))
                return
        for l in slot['lower']:
            if self._fits(l, new, env) is False:
                self.verdict = ('rejects', 'argument of type %s does not fit %s := %s' % (o.show(l), n, o.show(new)))
                return
        for u in slot['upper']:
            if self._fits(new, u, env) is False:
                self.verdict = ('rejects', '%s := %s does not fit the expected %s' % (n, o.show(new), o.show(u)))
                return
        self.verdict = ('undecided', 'constraints on %s are projections / not decided by the reference' % n)

    def check_new(self, e, env, expected, where):
        try:
            self._targ(*self.o.constraints_new(e, env, expected), env)
        except (Unknown, NoInfer, Mismatch) as ex:
            self.verdict = ('undecided', str(ex))

    def check_call(self, e, env, expected, where):
        o = self.o
        try:
            d, m, params, ret = o.callee_signature(e, env)
            if d is None or not d.type_parameters:
                raise Unknown('not a generic function')
            self._targ(*o.constraints_call(e, env, expected, d, m, params, ret), env)
        except (Unknown, NoInfer, Mismatch) as ex:
            self.verdict = ('undecided', str(ex))


# ----------------------------------------------------------------------------------------------------------------
# C03: one evaluation = one run of the real TypeErasure on one program under one enumeration order
# ----------------------------------------------------------------------------------------------------------------

class _Steer:
    """stands in for the `itertools` name inside src.transformations.type_erasure: same candidate sets, but the
    sets of one size come in an order derived from `seed` (the mutation applies the first feasible one)"""
    chain = _it.chain

    def __init__(self, seed):
        self.rnd = _pyrandom.Random(seed)

    def combinations(self, nodes, r):
        nodes = list(nodes)
        self.rnd.shuffle(nodes)
        return _it.combinations(nodes, r)


def run_erasure(M, program, steer=None, options=None):
    te = M.te
    old = te.itertools
    if steer is not None:
        te.itertools = _Steer(steer)
    try:
        t = te.TypeErasure(program, program.language, None, dict(options or {'timeout': 600}))
        t.transform()
        return t, t.result()
    finally:
        te.itertools = old


def classify_erasure_diff(M, before, after, d):
    """(removed annotations, link writes, forbidden changes) of a diff, by the first sentence of C03"""
    ast, tp = M.ast, M.tp
    removed = {'var': [], 'ret': [], 'new': [], 'call': []}
    links = []
    forbidden = []
    gone = set()
    for path, x, y in d:
        own = before.owner.get(path) or after.owner.get(path)
        if own is None:
            continue
        opath, attr = own
        if path == '%s.%s' % (opath, attr) and x is not None and x[0] == 'type' and y == ('val', 'None'):
            onode = after.nodes.get(opath)
            if attr == 'var_type' and isinstance(onode, ast.VariableDeclaration):
                removed['var'].append((opath, onode, x[2]))
                gone.add(path)
            elif attr == 'ret_type' and isinstance(onode, ast.FunctionDeclaration):
                removed['ret'].append((opath, onode, x[2]))
                gone.add(path)
    for path, x, y in d:
        own = before.owner.get(path) or after.owner.get(path)
        if path in gone:
            continue
        if own is None:
            forbidden.append((path, x, y))
            continue
        opath, attr = own
        base = '%s.%s' % (opath, attr)
        if base in gone and path.startswith(base) and y is None:
            continue                    # part of the removed annotation itself
        onode = after.nodes.get(opath)
        if (path == base + '#infer' and attr == 'class_type' and isinstance(onode, ast.New)
                and x == ('flag', False) and y == ('flag', True)):
            removed['new'].append((opath, onode, str(onode.class_type)))
        elif (attr == '_can_infer_type_args' and isinstance(onode, ast.FunctionCall) and path == base
                and x == ('val', 'False') and y == ('val', 'True')):
            removed['call'].append((opath, onode, ', '.join(map(str, onode.type_args or []))))
        elif attr == 'type_parameters' and isinstance(onode, ast.FunctionCall):
            if opath not in [l[0] for l in links]:
                links.append((opath, onode))
        else:
            forbidden.append((path, x, y))
    return removed, links, forbidden


def _fmt(v):
    if v is None:
        return '<absent>'
    return v[2] if v[0] == 'type' else (repr(v[1]) if len(v) > 1 else repr(v))


def judge_erasure(M, before, after, program_after):
    """all checks of C03 on one run; returns (violations: list of (kind, detail dict), stats)"""
    d = diff(before, after)
    removed, links, forbidden = classify_erasure_diff(M, before, after, d)
    viol = []
    stats = {'var': len(removed['var']), 'ret': len(removed['ret']), 'new': len(removed['new']),
             'call': len(removed['call']), 'ok': 0, 'undecided': 0, 'violation': 0, 'narrowed': 0, 'undecided_why': {}}
    for path, x, y in forbidden[:1]:
        viol.append(('frame', dict(path=path, before=_fmt(x), after=_fmt(y), all_changed_paths=len(forbidden),
                                   expected='only declared variable types, declared return types and the inference '
                                            'flag of explicit type arguments may change')))
    for opath, onode, txt in removed['new']:
        if not isinstance(onode.class_type, M.tp.ParameterizedType):
            viol.append(('frame', dict(path=opath, before='', after='inference flag on non-generic type')))
    for opath, onode, txt in removed['call']:
        if not onode.type_args:
            viol.append(('frame', dict(path=opath, before='', after='inference flag on a call without type arguments')))
    o = Oracle(M, program_after)
    w = Walker(o, {id(n) for _, n, _ in removed['var']}, {id(n) for _, n, _ in removed['ret']},
               {id(n) for _, n, _ in removed['new']}, {id(n) for _, n, _ in removed['call']})
    try:
        results = w.program()
    except RecursionError:
        results = w.results
    paths = {}
    for kind in removed:
        for opath, onode, txt in removed[kind]:
            paths[id(onode)] = (opath, txt)
            if id(onode) not in w.done:
                results.append(({'var': 'var-type', 'ret': 'return-type', 'new': 'constructor-type-arguments',
                                 'call': 'call-type-arguments'}[kind], 'undecided', opath, 'not reached by the reference'))
    for kind, status, where, detail in results:
        stats[status] += 1
        if status == 'undecided':
            k = detail.split(':')[0][:60]
            stats['undecided_why'][k] = stats['undecided_why'].get(k, 0) + 1
        if status == 'violation':
            viol.append(('inferable:' + kind, dict(where=where, detail=detail)))
    # the analysis caches the callee's type parameters on generic calls: must be exactly the callee's own list
    for opath, call in links:
        viol.extend(_check_link(M, o, call, opath))
    return viol, stats, removed


def _check_link(M, o, call, opath):
    """FunctionCall.type_parameters may only become the type-parameter list of a function declaration of that name"""
    ast = M.ast
    cands = []
    stack = list(o.p.context._context.get(('global',), {}).get('decls', {}).values())
    seen = set()
    while stack:
        n = stack.pop()
        if n is None or id(n) in seen or isinstance(n, M.tp.Type):
            continue
        seen.add(id(n))
        if isinstance(n, ast.FunctionDeclaration) and n.name == call.func:
            cands.append(n)
        if isinstance(n, ast.Node):
            try:
                stack.extend(n.children())
            except Exception:
                pass
    got = [o.skey(t) for t in call.type_parameters]
    for c in cands:
        if [o.skey(t) for t in c.type_parameters] == got:
            return []
    return [('frame', dict(path=opath + '.type_parameters', before='[]', after=str(call.type_parameters),
                           expected='unchanged, or the type parameters of a declaration of %s' % call.func))]


# ----------------------------------------------------------------------------------------------------------------
# C04: one evaluation = one run of the real TypeOverwriting on one program under one RNG seed
# ----------------------------------------------------------------------------------------------------------------

def run_overwriting(M, program, rng_seed):
    M.utils.random.r.seed(rng_seed)
    t = M.to.TypeOverwriting(program, program.language, None, {'timeout': 600})
    t.transform()
    return t, t.result()


def _enclosing_names(snap, opath):
    """names of the class / function declarations that enclose the node at opath (outermost first)"""
    names = []
    cur = ''
    i = 0
    # node paths are prefixes ending before '.', '[' boundaries; probe every prefix that is a recorded node
    for j in range(1, len(opath) + 1):
        if j == len(opath) or opath[j] in '.[':
            pre = opath[:j]
            v = snap.items.get(pre)
            if v and v[0] == 'node' and v[1] in ('ClassDeclaration', 'FunctionDeclaration'):
                n = snap.nodes[pre]
                if not names or names[-1][1] is not n:
                    names.append((n.name, n))
    return [a for a, _ in names]


def classify_overwrite_diff(M, before, after, d):
    """groups of changed declared types: {(owner path, kind): [entries]}, link writes, other changes"""
    ast = M.ast
    groups = {}
    links = []
    other = []
    for path, x, y in d:
        own = before.owner.get(path) or after.owner.get(path)
        if own is None:
            other.append((path, x, y))
            continue
        opath, attr = own
        onode = after.nodes.get(opath) or before.nodes.get(opath)
        base = '%s.%s' % (opath, attr)
        rest = path[len(base):]
        if isinstance(onode, ast.VariableDeclaration) and attr in ('var_type', 'inferred_type'):
            groups.setdefault((opath, 'variable'), []).append((attr, rest, x, y))
        elif isinstance(onode, ast.FunctionDeclaration) and attr in ('ret_type', 'inferred_type'):
            groups.setdefault((opath, 'function'), []).append((attr, rest, x, y))
        elif isinstance(onode, ast.New) and attr == 'class_type':
            groups.setdefault((opath, 'constructor-call'), []).append((attr, rest, x, y))
        elif isinstance(onode, ast.FunctionCall) and attr == 'type_args':
            groups.setdefault((opath, 'function-call'), []).append((attr, rest, x, y))
        elif isinstance(onode, ast.FunctionCall) and attr == 'type_parameters':
            if opath not in [l[0] for l in links]:
                links.append((opath, onode))
        else:
            other.append((path, x, y))
    return groups, links, other


def judge_overwrite(M, before, after, text0, text1, t, program_after):
    """all checks of C04 on one run; returns (violations, info)"""
    import re
    viol = []
    info = {'injected': bool(t.is_transformed), 'kind': None, 'unrelated': None, 'reject': ('undecided', '')}
    ch = []
    d = diff(before, after)
    groups, links, other = classify_overwrite_diff(M, before, after, d)
    o = Oracle(M, program_after)
    for opath, call in links:
        viol.extend(('frame', x[1]) for x in _check_link(M, o, call, opath))
    if not t.is_transformed:
        if t.error_injected is not None:
            viol.append(('noinject:message', dict(message=t.error_injected, expected='no message when nothing was injected')))
        if text1 != text0:
            viol.append(('noinject:translation', dict(expected='byte-identical translation', first_difference=_first_diff(text0, text1))))
        if groups or other:
            ch = [(k[0], k[1]) for k in groups] + [p for p, _, _ in other]
            viol.append(('noinject:frame', dict(changed=repr(ch[:3]), expected='no change of the program')))
        return viol, info
    # ---- reported an injection -------------------------------------------------------------------------------
    if other:
        path, x, y = other[0]
        viol.append(('exactly-one', dict(path=path, before=_fmt(x), after=_fmt(y),
                                         expected='nothing but one declared type may differ')))
    if len(groups) != 1:
        viol.append(('exactly-one', dict(changed=repr(sorted(k[0] + ' (' + k[1] + ')' for k in groups)),
                                         expected='exactly one declared type differs', got=len(groups))))
        if not groups:
            if text1 == text0:
                viol.append(('translation-changes', dict(expected='translation differs after an injection')))
            return viol, info
    (opath, kind), entries = sorted(groups.items())[0]
    info['kind'] = kind
    onode = after.nodes.get(opath)
    old_t = new_t = None
    old_s = new_s = None
    name = None
    if kind in ('variable', 'function'):
        dattr = 'var_type' if kind == 'variable' else 'ret_type'
        name = onode.name
        top = {a: (x, y) for a, rest, x, y in entries if rest == ''}
        if dattr not in top or 'inferred_type' not in top:
            viol.append(('exactly-one', dict(path=opath, changed=repr(sorted(top)),
                                             expected='declared and recorded type of the declaration both replaced')))
        new_t = getattr(onode, dattr)
        new_s = str(new_t)
        if 'inferred_type' in top:
            old_t = before.nodes.get('%s.inferred_type' % opath)
            old_s = top['inferred_type'][0][2]
            if str(onode.inferred_type) != new_s:
                viol.append(('exactly-one', dict(path=opath, declared=new_s, recorded=str(onode.inferred_type),
                                                 expected='declared and recorded type agree')))
    else:
        base = 'class_type' if kind == 'constructor-call' else 'type_args'
        name = onode.class_type.name if kind == 'constructor-call' else onode.func
        if kind == 'constructor-call':
            ch = [(rest, x, y) for a, rest, x, y in entries if re.fullmatch(r'<\d+>', rest)]
        else:
            ch = [(rest, x, y) for a, rest, x, y in entries if re.fullmatch(r'\[\d+\]', rest)]
        if len(ch) != 1:
            viol.append(('exactly-one', dict(path=opath, changed=repr([c[0] for c in ch]),
                                             expected='exactly one explicit type argument differs')))
        if ch:
            rest, x, y = ch[0]
            old_s, new_s = (x[2] if x else None), (y[2] if y else None)
            old_t = before.nodes.get('%s.%s%s' % (opath, base, rest))
            new_t = after.nodes.get('%s.%s%s' % (opath, base, rest))
    # unrelated, not assignable either way
    if old_t is not None and new_t is not None:
        try:
            rel = _related(M, o, old_t, new_t, conversions=kind in ('variable', 'function'))
            info['unrelated'] = rel is None
            if rel is not None:
                cls_ = ('conversion' if 'assignable' in rel else 'same' if 'same' in rel else
                        'subtype' if 'subtype' in rel else 'supertype' if 'supertype' in rel else 'other')
                if isinstance(old_t, M.tp.TypeParameter):
                    cls_ += ':type-variable'
                viol.append(('unrelated:' + cls_, dict(old=old_s, new=new_s, relation=rel, where=opath,
                                               expected='new type is neither subtype, supertype nor assignable')))
        except Unknown as e:
            info['unrelated'] = 'undecided: %s' % e
    # message
    msg = t.error_injected
    m = re.fullmatch(r'(.*) expected but (.*) found in node (.*)', msg or '', flags=re.S)
    if not m:
        viol.append(('message', dict(message=msg, expected='<old type> expected but <new type> found in node <id>')))
    else:
        ns = _enclosing_names(after, opath)
        nid = m.group(3).split('/')
        okid = nid[-1] == name and (nid[0] != 'global' or not ns or (len(nid) >= 3 and nid[1] == ns[0]))
        if old_s is not None and (m.group(1) != old_s or m.group(2) != new_s or not okid):
            viol.append(('message', dict(message=msg, old=old_s, new=new_s, node=name, enclosing='/'.join(['global'] + ns),
                                         expected='names the replaced type, the new type and the mutated node')))
    if text1 == text0:
        hidden = (kind == 'constructor-call' and bool(getattr(onode.class_type, '_can_infer_type_args', False)) or
                  kind == 'function-call' and bool(onode._can_infer_type_args))
        viol.append(('translation-changes:' + ('type-arguments-not-printed' if hidden else kind),
                     dict(where=opath, old=old_s, new=new_s, inference_flag_of_the_call=hidden,
                          expected='translation differs after an injection')))
    # "a correct type checker must reject", as far as the local reference decides it
    index = None
    if kind in ('constructor-call', 'function-call') and ch:
        index = int(re.sub(r'\D', '', ch[0][0]))
    try:
        rw = RejectWalker(o, onode, kind, index)
        rw.program()
        info['reject'] = rw.verdict
    except RecursionError:
        info['reject'] = ('undecided', 'reference recursion limit')
    if info['reject'][0] == 'accepts':
        viol.append(('must-reject', dict(where=opath, old=old_s, new=new_s, reason=info['reject'][1],
                                         expected='the program with the injected type is ill-typed')))
    info['where'] = opath
    info['old'], info['new'] = old_s, new_s
    return viol, info


def _first_diff(a, b):
    for i, (x, y) in enumerate(zip(a.split('\n'), b.split('\n'))):
        if x != y:
            return 'line %d: %r -> %r' % (i + 1, x[:120], y[:120])
    return 'length %d -> %d' % (len(a), len(b))


def _related(M, o, old_t, new_t, conversions=True):
    """None if the two types are unrelated; else a description of the relation (declarative, by the class table)"""
    tp = M.tp
    if isinstance(old_t, tp.WildCardType) or isinstance(new_t, tp.WildCardType):
        raise Unknown('projection as replaced type')
    env = Env()
    for t in (old_t, new_t):
        _collect_tv(M, o, t, env, 0)
    eff = old_t
    if isinstance(old_t, tp.TypeParameter):
        if o.skey(new_t) == o.skey(old_t):
            return 'the same type variable'
        if old_t.bound is None:
            if o.skey(new_t) == o.top:
                return 'the top type replaces an unbounded type variable'
            return None
        eff = old_t.bound
        while isinstance(eff, tp.TypeParameter) and eff.bound is not None:
            eff = eff.bound
    a, b = o.skey(eff), o.skey(new_t)
    prim = bool(getattr(eff, 'primitive', False)) or bool(getattr(new_t, 'primitive', False))
    if prim and o.lang in ('java', 'groovy'):
        # a primitive type has no subtypes / supertypes: only the assignment conversions relate it to other types
        if a == b and bool(getattr(eff, 'primitive', False)) == bool(getattr(new_t, 'primitive', False)):
            return 'the same type'
        if not conversions:
            return None
        if o.assignable(eff, new_t, env):
            return 'a value of the replaced type is assignable to the new type (%s conversion)' % o.lang
        if o.assignable(new_t, eff, env):
            return 'a value of the new type is assignable to the replaced type (%s conversion)' % o.lang
        return None
    tvar = eff is not old_t
    if a == b:
        return 'the same type' + (' (bound of the type variable)' if tvar else '')
    if not tvar and o.sub(b, a, env):
        # (for a type variable T <: B a subtype U of B is not related to T: neither T <: U nor U <: T)
        return 'new type is a subtype of the replaced type'
    if o.sub(a, b, env):
        return 'new type is a supertype of the replaced type' + (' (of its bound, hence of the variable)' if tvar else '')
    if not conversions:
        return None                 # type arguments are matched invariantly: assignment conversions do not apply
    if o.assignable(eff, new_t, env):
        return 'a value of the replaced type is assignable to the new type (%s conversion)' % o.lang
    if not tvar and o.assignable(new_t, eff, env):
        return 'a value of the new type is assignable to the replaced type (%s conversion)' % o.lang
    return None


def _collect_tv(M, o, t, env, depth):
    tp = M.tp
    if t is None or depth > 8:
        return
    if isinstance(t, tp.TypeParameter):
        env.tv.setdefault(t.name, o.skey(t.bound))
        _collect_tv(M, o, t.bound, env, depth + 1)
    elif isinstance(t, tp.ParameterizedType):
        for a in t.type_args:
            _collect_tv(M, o, a, env, depth + 1)
    elif isinstance(t, tp.WildCardType):
        _collect_tv(M, o, t.bound, env, depth + 1)


def javac_accepts(text, timeout=180):
    """True / False / None(no javac or timeout): does javac accept this Java translation"""
    if shutil.which('javac') is None:
        return None
    d = tempfile.mkdtemp(prefix='c04javac_')
    try:
        with open(os.path.join(d, 'Main.java'), 'w') as f:
            f.write(text)
        try:
            r = subprocess.run(['javac', '-J-XX:+UseSerialGC', '-J-XX:TieredStopAtLevel=1', '-J-Xss16m', '-nowarn',
                                '-proc:none', '-d', os.path.join(d, 'out'), os.path.join(d, 'Main.java')],
                               capture_output=True, text=True, timeout=timeout)
        except subprocess.TimeoutExpired:
            return None
        return r.returncode == 0
    finally:
        shutil.rmtree(d, ignore_errors=True)


# ----------------------------------------------------------------------------------------------------------------
# hand-built programs (written from the scenarios the two statements talk about)
# ----------------------------------------------------------------------------------------------------------------

def hand_programs(M, lang):
    """name -> zero-argument builder of a fresh ast.Program in `lang`"""
    ast, tp = M.ast, M.tp
    f = M.builtins[lang]
    STR, I, ANY, VOID = f.get_string_type, f.get_integer_type, f.get_any_type, f.get_void_type
    L = f.get_long_type
    NUM = f.get_number_type
    FUNC, METHOD = ast.FunctionDeclaration.FUNCTION, ast.FunctionDeclaration.CLASS_METHOD

    def prog(*decls):
        p = ast.Program(M.ctx.Context(), lang)
        for d in decls:
            p.add_declaration(d)
        return p

    def cls(name, fields=(), funcs=(), tparams=(), supers=()):
        return ast.ClassDeclaration(name, list(supers), ast.ClassDeclaration.REGULAR, fields=list(fields),
                                    functions=list(funcs), is_final=False, type_parameters=list(tparams))

    def fun(name, params, ret, body, kind=FUNC, tparams=()):
        return ast.FunctionDeclaration(name, list(params), ret, body, kind, type_parameters=list(tparams))

    def val(name, expr, t, final=True):
        return ast.VariableDeclaration(name, expr, is_final=final, var_type=t)

    def unit(name, *stmts, kind=FUNC):
        return fun(name, [], VOID(), ast.Block(list(stmts)), kind)

    def decl_vs_new(S, lit, O):
        T = tp.TypeParameter('T')
        foo = cls('Foo', tparams=[T])
        return prog(foo, unit('m', val('x', ast.New(foo.get_type().new([S()]), []), foo.get_type().new([S()]))))

    def ctor_arg(S, lit, O):
        T = tp.TypeParameter('T')
        a = cls('A', fields=[ast.FieldDeclaration('f', T)], tparams=[T])
        return prog(a, unit('m', val('s', lit(), S()),
                            val('y', ast.New(a.get_type().new([S()]), [ast.Variable('s')]), a.get_type().new([S()]))))

    def recursion(S, lit, O):
        r = cls('R', funcs=[fun('again', [], S(), ast.FunctionCall('again', [], receiver=ast.New(
            tp.SimpleClassifier('R', []), [])), METHOD)])
        return prog(fun('rec', [], S(), ast.FunctionCall('rec', [])), r,
                    fun('plain', [], S(), lit()))

    def subtype_init(S, lit, O):
        base = cls('Base')
        der = cls('Derived', supers=[ast.SuperClassInstantiation(base.get_type(), [])])
        return prog(base, der, unit('m', val('x', ast.New(der.get_type(), []), base.get_type())))

    def generic_call(S, lit, O):
        T = tp.TypeParameter('T')
        U = tp.TypeParameter('U')
        ident = fun('ident', [ast.ParameterDeclaration('x', T)], T, ast.Variable('x'), tparams=[T])
        mk = fun('mk', [], U, ast.BottomConstant(U), tparams=[U])
        V = tp.TypeParameter('V')
        pick = fun('pick', [ast.ParameterDeclaration('k', O())], V, ast.BottomConstant(V), tparams=[V])
        return prog(ident, mk, pick, unit(
            'm', val('a', ast.FunctionCall('ident', [ast.CallArgument(lit())], type_args=[S()]), S()),
            val('b', ast.FunctionCall('mk', [], type_args=[S()]), S()),
            val('c', ast.FunctionCall('pick', [ast.CallArgument(ast.BottomConstant(O()))], type_args=[S()]), S())))

    def eq_operand(S, lit, O):
        # a generic call whose type parameter occurs only in the return type, as an operand of ==: an operand has no
        # expected type, so its explicit type argument is not inferable -- even when it equals the declared type of the
        # enclosing declaration (Boolean)
        U = tp.TypeParameter('U')
        mk = fun('mk', [], U, ast.BottomConstant(U), tparams=[U])
        BOOL = f.get_boolean_type
        return prog(mk, unit(
            'm', val('c', ast.FunctionCall('mk', [], type_args=[BOOL()]), BOOL()),
            val('b', ast.EqualityExpr(ast.FunctionCall('mk', [], type_args=[BOOL()]), ast.BooleanConstant('true'),
                                      ast.Operator('==')), BOOL()),
            val('d', ast.EqualityExpr(ast.FunctionCall('mk', [], type_args=[S()]), lit(), ast.Operator('==')), BOOL())))

    def super_arg_call(S, lit, O):
        # a super-constructor argument that is a zero-argument method call on a receiver: the only expressions the erasure
        # rebuilds (update_children) are the arguments of class-level super-constructor calls
        c = cls('C', funcs=[fun('get', [], S(), lit(), METHOD)])
        a = cls('A', fields=[ast.FieldDeclaration('f', S())])
        b = cls('B', supers=[ast.SuperClassInstantiation(a.get_type(), [
            ast.FunctionCall('get', [], receiver=ast.New(c.get_type(), []))])])
        return prog(c, a, b, unit('m', val('x', lit(), S())))

    def inherited_generic_field(S, lit, O):
        # class A<T>; class P<U>(val f: U); class Q<T> : P<A<T>>: the type of q.f for q: Q<S> is A<S>, not S
        T = tp.TypeParameter('T')
        a = cls('A', tparams=[T])
        U = tp.TypeParameter('T')        # (the same parameter name in P and Q, on purpose)
        p = cls('P', fields=[ast.FieldDeclaration('f', U)], tparams=[U])
        T2 = tp.TypeParameter('T')
        q = cls('Q', tparams=[T2], supers=[ast.SuperClassInstantiation(p.get_type().new([a.get_type().new([T2])]), None)])
        # (the receiver is Q<Any>, so that a wrong answer "the type of q.f is the receiver's type argument" coincides with
        # the declared type Any of y)
        qs = lambda: q.get_type().new([ANY()])
        return prog(a, p, q, fun('m', [ast.ParameterDeclaration('q', qs())], VOID(), ast.Block([
            val('y', ast.FieldAccess(ast.Variable('q'), 'f'), ANY()),
            val('z', ast.FieldAccess(ast.Variable('q'), 'f'), a.get_type().new([ANY()]))])))

    def generic_super(S, lit, O):
        T = tp.TypeParameter('T')
        a = cls('A', tparams=[T])
        T2 = tp.TypeParameter('T')
        b = cls('B', tparams=[T2], supers=[ast.SuperClassInstantiation(a.get_type().new([T2]), [])])
        return prog(a, b, unit('m', val('x', ast.New(b.get_type().new([S()]), []), a.get_type().new([S()]))))

    def field_init(S, lit, O):
        k = cls('K', fields=[ast.FieldDeclaration('f', S()), ast.FieldDeclaration('g', O())], funcs=[
            unit('m', val('x', ast.Variable('f'), ANY(), final=False), ast.Assignment('x', ast.Variable('g')),
                 kind=METHOD),
            fun('n', [], ANY(), ast.Variable('f'), METHOD)])
        return prog(k)

    def two_params(S, lit, O):
        X, Y = tp.TypeParameter('X'), tp.TypeParameter('Y')
        p = cls('P', fields=[ast.FieldDeclaration('f', X)], tparams=[X, Y])
        t = lambda: p.get_type().new([S(), O()])
        return prog(p, unit('m', val('p', ast.New(t(), [lit()]), t())))

    def ret_block(S, lit, O):
        T = tp.TypeParameter('T')
        a = cls('A', tparams=[T])
        return prog(a, fun('mk', [], a.get_type().new([S()]), ast.Block([ast.New(a.get_type().new([S()]), [])])))

    def call_arg(S, lit, O):
        T = tp.TypeParameter('T')
        a = cls('A', tparams=[T])
        take = fun('take', [ast.ParameterDeclaration('a', a.get_type().new([S()]))], VOID(), ast.Block([]))
        return prog(a, take, unit('m', ast.FunctionCall('take', [ast.CallArgument(ast.New(a.get_type().new([S()]), []))])))

    def dup_targs(S, lit, O):
        foo, bar, baz = cls('Foo'), cls('Bar'), cls('Baz')
        T1, T2 = tp.TypeParameter('T1'), tp.TypeParameter('T2')
        a = cls('A', fields=[ast.FieldDeclaration('f', T2)], tparams=[T1, T2])
        return prog(foo, bar, baz, a, unit('m', ast.New(a.get_type().new([foo.get_type(), foo.get_type()]),
                                                         [ast.New(foo.get_type(), [])])))

    def shared_type_object(S, lit, O):
        T = tp.TypeParameter('T')
        foo = cls('Foo', tparams=[T])
        t = foo.get_type().new([S()])
        return prog(foo, unit('m', val('x', ast.New(t, []), foo.get_type().new([S()])),
                              val('y', ast.New(t, []), foo.get_type().new([S()]))))

    def conditional_init(S, lit, O):
        base = cls('Base')
        d1 = cls('D1', supers=[ast.SuperClassInstantiation(base.get_type(), [])])
        d2 = cls('D2', supers=[ast.SuperClassInstantiation(base.get_type(), [])])
        c = ast.Conditional(ast.BooleanConstant('true'), ast.New(d1.get_type(), []), ast.New(d2.get_type(), []),
                            base.get_type())
        return prog(base, d1, d2, unit('m', val('x', c, base.get_type())))

    def shadowing(S, lit, O):
        # a global `v: Any` and a method parameter `v: S`; the local `y: Any = v` is then assigned an Any
        c = cls('C', funcs=[fun('m', [ast.ParameterDeclaration('v', S())], VOID(), ast.Block([
            val('y', ast.Variable('v'), ANY(), final=False),
            ast.Assignment('y', ast.New(ANY(), []))]), METHOD)])
        return prog(val('v', ast.New(ANY(), []), ANY()), c)

    def bounded_tvar(S, lit, O):
        # class Box<T : Foo> { fun m(p: T) { val y: T = p } } with Base <- Foo <- SubFoo around the bound
        base = cls('Base')
        foo = cls('Foo', supers=[ast.SuperClassInstantiation(base.get_type(), [])])
        sub = cls('SubFoo', supers=[ast.SuperClassInstantiation(foo.get_type(), [])])
        other = cls('Other', fields=[ast.FieldDeclaration('e', S())])
        T = tp.TypeParameter('T', bound=foo.get_type())
        box = cls('Box', tparams=[T], funcs=[fun('m', [ast.ParameterDeclaration('p', T)], VOID(), ast.Block([
            val('y', ast.Variable('p'), T)]), METHOD)])
        return prog(base, foo, sub, other, box)

    scen = dict(bounded_tvar=bounded_tvar, shadowing=shadowing, decl_vs_new=decl_vs_new, ctor_arg=ctor_arg, recursion=recursion, subtype_init=subtype_init,
                generic_call=generic_call, eq_operand=eq_operand, super_arg_call=super_arg_call,
                inherited_generic_field=inherited_generic_field, generic_super=generic_super, field_init=field_init, two_params=two_params,
                ret_block=ret_block, call_arg=call_arg, dup_targs=dup_targs, shared_type_object=shared_type_object,
                conditional_init=conditional_init)
    out = {}
    for name, fn in scen.items():
        # element type String (TypeOverwriting never replaces String) and Long (it may)
        out[name] = (lambda fn=fn: fn(STR, lambda: ast.StringConstant('s'), I))
        out[name + '_long'] = (lambda fn=fn: fn(L, lambda: ast.IntegerConstant(7, L()), STR))
        # element type Number: a builtin that has builtin subtypes (Int, Long, ..., which are NOT unrelated to it)
        out[name + '_number'] = (lambda fn=fn: fn(NUM, lambda: ast.IntegerConstant(7, NUM()), STR))
    return out


# 'shared_type_object' (two constructor calls sharing ONE type object) is buildable but not in the fixed list: the
# generator never aliases the type object of a constructor call (scanned), so it is outside the properties' domain
HAND = ['decl_vs_new', 'ctor_arg', 'recursion', 'subtype_init', 'generic_call', 'generic_super', 'field_init',
        'two_params', 'ret_block', 'call_arg', 'dup_targs', 'conditional_init', 'shadowing',
        'bounded_tvar', 'eq_operand', 'super_arg_call', 'inherited_generic_field']
HAND = HAND + [h + '_long' for h in HAND] + [h + '_number' for h in ('ctor_arg', 'recursion', 'generic_call', 'decl_vs_new',
                                                                     'two_params', 'ret_block', 'call_arg')]


# ----------------------------------------------------------------------------------------------------------------
# driver
# ----------------------------------------------------------------------------------------------------------------

# fixed seed lists: generator seeds 0..59 whose generation costs < 1 s (quick) / < 8 s (thorough) of CPU on the
# unchanged tree (generation time varies from 0.02 s to minutes; the lists were chosen by that cost only)
SEEDS_QUICK = {
    'java': [0, 1, 2, 3, 4, 5, 7, 8, 9, 10],
    'kotlin': [4, 5, 6, 14, 15, 19, 23, 25, 31, 33],
    'groovy': [0, 3, 4, 6, 7, 10, 20, 21, 28, 29],
    'scala': [2, 4, 11, 13, 16, 18, 19, 23, 24, 25],
}
SEEDS_THOROUGH = {
    'java': [0, 1, 2, 3, 4, 5, 6, 7, 8, 9, 10, 11, 12, 13, 14, 15, 18, 20, 21, 23, 24, 25, 27, 28, 29, 30, 31, 32, 33,
             34, 35, 36, 37, 39, 41, 42, 43, 44, 45, 46, 47, 48, 49, 50, 51, 52, 53, 54, 55, 56, 57, 58],
    'kotlin': [0, 2, 3, 4, 5, 6, 9, 11, 12, 13, 14, 15, 16, 19, 23, 25, 26, 28, 30, 31, 32, 33, 36, 37, 38, 39, 40, 41,
               44, 46, 47, 49, 50, 52, 53, 54, 55, 56, 57, 58, 59],
    'groovy': [0, 2, 3, 4, 5, 6, 7, 8, 10, 11, 12, 14, 16, 18, 19, 20, 21, 24, 26, 27, 28, 29, 30, 31, 32, 33, 34, 35,
               36, 37, 38, 39, 40, 41, 43, 45, 46, 47, 49, 50, 51, 52, 54, 55, 56, 57, 58, 59],
    'scala': [0, 1, 2, 3, 4, 7, 8, 9, 10, 11, 12, 13, 14, 16, 18, 19, 23, 24, 25, 26, 27, 28, 29, 32, 34, 36, 37, 38,
              41, 42, 43, 44, 45, 46, 47, 48, 50, 51, 52, 53, 54, 55, 57, 58, 59],
}
GEN_CPU_LIMIT = 60          # seconds of CPU per generated program (extra, VERIF_SEED-derived seeds may be expensive)


class _Budget(Exception):
    pass


def _with_cpu_limit(seconds, fn):
    import signal

    def h(*a):
        raise _Budget()
    old = signal.signal(signal.SIGVTALRM, h)
    signal.setitimer(signal.ITIMER_VIRTUAL, seconds)
    try:
        return fn()
    finally:
        signal.setitimer(signal.ITIMER_VIRTUAL, 0)
        signal.signal(signal.SIGVTALRM, old)


def build_input(M, source, lang, ident):
    """the pristine program of an input"""
    if source == 'hand':
        return hand_programs(M, lang)[ident]()
    return _with_cpu_limit(GEN_CPU_LIMIT, lambda: gen_program(M, lang, int(ident)))


def _vio(kind, function, fi, detail):
    d = dict(check='bounded[%s]' % kind, function=function)
    d.update({k: v for k, v in fi.items() if k in ('prop', 'source', 'lang', 'ident', 'steer', 'erased', 'rng')})
    for k, v in detail.items():
        d[k] = v if isinstance(v, (int, float, bool, str)) or v is None else repr(v)
    return d


def eval_c03(M, P0, fi):
    """one evaluation of C03: (violations, removed-annotation key, stats)"""
    p = copy.deepcopy(P0)
    before = snapshot(M, p)
    try:
        t, q = run_erasure(M, p, fi.get('steer'))
    except Exception as e:        # noqa
        return [_vio('erasure:exception', 'src.transformations.type_erasure.TypeErasure.visit_func_decl', fi,
                     dict(exception=repr(e)[:300]))], None, None
    after = snapshot(M, q)
    viol, stats, removed = judge_erasure(M, before, after, q)
    out = []
    for kind, det in viol:
        fn = ('src.transformations.type_erasure.TypeErasure.visit_func_decl' if kind == 'frame'
              else 'src.analysis.type_dependency_analysis.is_combination_feasible')
        out.append(_vio('erasure-' + kind, fn, fi, det))
    key = tuple(sorted((k, opath) for k in removed for opath, _, _ in removed[k]))
    stats['transformed'] = bool(t.is_transformed)
    stats['example'] = [(k, removed[k][0][0], removed[k][0][2]) for k in removed if removed[k]][:2]
    return out, key, stats


def eval_c04(M, P0, fi, javac=None):
    """one evaluation of C04: (violations, key, info)"""
    p = copy.deepcopy(P0)
    if fi.get('erased'):
        run_erasure(M, p)
    before = snapshot(M, p)
    text0 = translate(M, p)
    try:
        t, q = run_overwriting(M, p, fi['rng'])
    except Exception as e:        # noqa
        return [_vio('overwrite:exception', 'src.transformations.type_overwriting.TypeOverwriting.visit_func_decl', fi,
                     dict(exception=repr(e)[:300]))], None, {'injected': False}
    after = snapshot(M, q)
    text1 = translate(M, q)
    viol, info = judge_overwrite(M, before, after, text0, text1, t, q)
    out = [_vio('overwrite-' + kind, 'src.transformations.type_overwriting.TypeOverwriting.visit_func_decl', fi, det)
           for kind, det in viol]
    key = None
    if info['injected']:
        key = (info.get('where'), info.get('new'))
        info['message'] = t.error_injected
    if javac is not None and info['injected'] and p.language == 'java':
        ok0 = javac('orig', text0)
        if ok0:
            ok1 = javac(None, text1)
            info['javac'] = None if ok1 is None else (not ok1)
            if ok1:
                out.append(_vio('overwrite-must-reject:javac',
                                'src.transformations.type_overwriting.TypeOverwriting.visit_func_decl', fi,
                                dict(where=info.get('where'), old=info.get('old'), new=info.get('new'),
                                     message=t.error_injected,
                                     expected='javac rejects the Java translation (it accepts the input program)',
                                     actual='javac accepts it')))
        else:
            info['javac'] = None
    return out, key, info


def _plan(prop, tier, seed):
    """list of work items (one per pristine program): (prop, source, lang, ident, variants, use_javac)"""
    rnd = _pyrandom.Random(seed)
    quick = tier == 'quick'
    items = []
    hand = HAND
    seeds = SEEDS_QUICK if quick else SEEDS_THOROUGH
    extra = {l: [rnd.randrange(1000, 100000) for _ in range(0 if quick else 4)] for l in LANGS}
    if prop == 'C03':
        hsteers = [None] + [rnd.randrange(1 << 30) for _ in range(3 if quick else 8)]
        gsteers = [None] + [rnd.randrange(1 << 30) for _ in range(1 if quick else 4)]
        for lang in LANGS:
            for h in hand:
                items.append((prop, 'hand', lang, h, [dict(steer=s) for s in hsteers], False))
            for sd in seeds[lang] + extra[lang]:
                items.append((prop, 'generated', lang, sd, [dict(steer=s) for s in gsteers], False))
    else:
        hr = [1000 + i for i in range(4 if quick else 6)] + [rnd.randrange(1 << 30) for _ in range(1 if quick else 3)]
        gr = [1000 + i for i in range(2 if quick else 3)] + [rnd.randrange(1 << 30) for _ in range(1 if quick else 2)]
        for lang in LANGS:
            for h in hand:
                # javac (thorough only): one injection per hand-built Java program
                items.append((prop, 'hand', lang, h,
                              [dict(erased=e, rng=r) for e in (False, True) for r in hr],
                              1 if (not quick and lang == 'java') else 0))
            for n, sd in enumerate(seeds[lang][:36] + extra[lang]):
                # javac (thorough only): two injections for each of the first 16 generated Java programs
                items.append((prop, 'generated', lang, sd,
                              [dict(erased=e, rng=r) for e in (False, True) for r in gr],
                              2 if (not quick and lang == 'java' and n < 16) else 0))
    return items


_WM = {}


def _worker_mods():
    key = repo_path()
    if key not in _WM:
        _WM.clear()
        _WM[key] = load(key)
    return _WM[key]


def _work(item):
    prop, source, lang, ident, variants, use_javac = item
    M = _worker_mods()
    res = dict(item=(prop, source, lang, ident), evaluations=0, keys=[], violations=[], skipped=None, stats={},
               samples=[])
    try:
        P0 = build_input(M, source, lang, ident)
    except _Budget:
        res['skipped'] = 'generation exceeded %d s of CPU' % GEN_CPU_LIMIT
        return res
    except Exception as e:      # noqa - a generator failure is C18's business, not this property's
        res['skipped'] = 'generator raised %r' % (e,)
        return res
    agg = {}
    jcache = {}
    jcount = [0]
    t_start = time.time()

    def javac(tag, text):
        if tag == 'orig':
            k = hash(text)
            if k not in jcache:
                jcache[k] = javac_accepts(text)
            return jcache[k]
        if time.time() - t_start > 300:
            return None
        jcount[0] += 1
        return javac_accepts(text)
    seen_inj = set()
    jcands = []
    for v in variants:
        fi = dict(prop=prop, source=source, lang=lang, ident=ident)
        fi.update(v)
        if prop == 'C03':
            viol, key, stats = eval_c03(M, P0, fi)
            res['evaluations'] += 1
            if key:
                res['keys'].append((lang, source, ident) + (key,))
            if stats:
                for k in ('var', 'ret', 'new', 'call', 'ok', 'undecided', 'violation', 'narrowed'):
                    agg[k] = agg.get(k, 0) + stats[k]
                for k, n in stats['undecided_why'].items():
                    agg.setdefault('why', {})
                    agg['why'][k] = agg['why'].get(k, 0) + n
                if not res['samples'] and stats['example']:
                    res['samples'].append(dict(input=fi, removed={k: stats[k] for k in ('var', 'ret', 'new', 'call')},
                                               example=repr(stats['example'])))
        else:
            viol, key, info = eval_c04(M, P0, fi, None)
            res['evaluations'] += 1
            if key is not None:
                if use_javac and key not in seen_inj:
                    # javac later, on the injections most likely to be accepted first: related by a conversion,
                    # then those the local reference cannot decide, then the rest
                    pri = (0 if any('unrelated' in x['check'] for x in viol) else
                           1 if info['reject'][0] != 'rejects' else 2)
                    jcands.append((pri, len(jcands), fi))
                seen_inj.add(key)
                res['keys'].append((lang, source, ident, bool(v.get('erased'))) + key)
                agg['injected'] = agg.get('injected', 0) + 1
                agg['kind:' + str(info.get('kind'))] = agg.get('kind:' + str(info.get('kind')), 0) + 1
                agg['reject:' + info['reject'][0]] = agg.get('reject:' + info['reject'][0], 0) + 1
                u = info.get('unrelated')
                agg['unrelated:' + ('yes' if u is True else 'no' if u is False else 'undecided')] = agg.get(
                    'unrelated:' + ('yes' if u is True else 'no' if u is False else 'undecided'), 0) + 1
                if not res['samples']:
                    res['samples'].append(dict(input=fi, message=info.get('message'), kind=info.get('kind'),
                                               reject=info['reject'][0]))
            else:
                agg['not-injected'] = agg.get('not-injected', 0) + 1
        res['violations'].extend(viol)
    for pri, _, fi in sorted(jcands)[:int(use_javac)]:
        viol, key, info = eval_c04(M, P0, fi, javac)
        if info.get('javac') is not None:
            k = 'javac:rejects' if info['javac'] else 'javac:accepts'
            agg[k] = agg.get(k, 0) + 1
        res['violations'].extend(x for x in viol if x['check'].endswith('javac]'))
    res['stats'] = agg
    return res


def run(tier, seed, stop_first=False, prop='C03', workers=None):
    items = _plan(prop, tier, seed)
    workers = workers or int(os.environ.get('VERIF_WORKERS', '0')) or (8 if tier == 'quick' else 16)
    workers = max(1, min(workers, os.cpu_count() or 1))
    from concurrent.futures import ProcessPoolExecutor, as_completed
    results = [None] * len(items)
    # expensive (generated, large) items first so that the pool drains evenly
    order = sorted(range(len(items)), key=lambda i: (items[i][1] != 'generated', i))
    stop = False
    if workers == 1:
        for i in order:
            results[i] = _work(items[i])
            if stop_first and results[i]['violations']:
                break
    else:
        import multiprocessing
        ctx = multiprocessing.get_context('fork')
        with ProcessPoolExecutor(max_workers=workers, mp_context=ctx) as ex:
            futs = {ex.submit(_work, items[i]): i for i in order}
            for f in as_completed(futs):
                i = futs[f]
                results[i] = f.result()
                if stop_first and results[i]['violations']:
                    for g in futs:
                        g.cancel()
                    stop = True
                    break
    evals = 0
    keys = set()
    violations = []
    seen = set()
    samples = []
    skipped = []
    agg = {}
    allv = {}
    for r in results:
        if r is None:
            continue
        evals += r['evaluations']
        keys.update(r['keys'])
        if r['skipped']:
            skipped.append('%s/%s: %s' % (r['item'][2], r['item'][3], r['skipped']))
        for k, v in r['stats'].items():
            if isinstance(v, dict):
                d = agg.setdefault(k, {})
                for a, b in v.items():
                    d[a] = d.get(a, 0) + b
            else:
                agg[k] = agg.get(k, 0) + v
        for v in r['violations']:
            allv.setdefault(v['check'], []).append(v)
        if r['samples'] and len(samples) < 3 and r['item'][1] == 'generated':
            samples.extend(r['samples'][:1])
    pref = {'kotlin': 0, 'scala': 1, 'groovy': 2, 'java': 3}
    for chk in sorted(allv):
        # per kind: one representative among the generated programs and one per hand-built scenario (smallest input
        # first, Kotlin first because its translation shows every removed annotation)
        groups = {}
        for v in allv[chk]:
            g = str(v.get('ident')).replace('_long', '') if v.get('source') == 'hand' else '<generated>'
            groups.setdefault(g, []).append(v)
        for g in sorted(groups, key=lambda g: (g == '<generated>', g)):
            best = min(groups[g], key=lambda v: (pref.get(v.get('lang'), 9), str(v.get('ident')),
                                                 v.get('steer') is not None, str(v.get('steer')),
                                                 bool(v.get('erased')), str(v.get('rng'))))
            best = dict(best)
            best['occurrences'] = len(groups[g])
            violations.append(best)
    nprog = len([r for r in results if r is not None and not r['skipped']])
    if prop == 'C03':
        why = agg.pop('why', {})
        rule = ('%d programs (17 hand-built scenarios x 2 element types x 4 languages; generator seeds %s per language, chosen by generation '
                'cost only%s) x enumeration orders of equally large candidate sets (natural + VERIF_SEED-derived), each '
                'run through the real TypeErasure on a deep copy. Per run: (1) structural snapshot of every attribute of '
                'every node, of the symbol table and of every recorded type before/after - only VariableDeclaration.var_type '
                '-> None, FunctionDeclaration.ret_type -> None and the inference flag False -> True of a constructor call\'s '
                'type / a generic call may differ (global variables are accepted as variables; FunctionCall.type_parameters, '
                'a callee link the analysis caches, may only become the type-parameter list of a declaration of the called '
                'name); (2) for every removed annotation the reference in specs/mutations_ref.py (own scoping, members '
                'through the inheritance chain, constraints from constructor / call arguments and the expected type) '
                'computes what a compiler infers and compares it with the recorded type: %d removed annotations judged '
                '(var %d, return %d, constructor type arguments %d, call type arguments %d): %d hold, %d violated, %d '
                'undecided by the reference (never counted either way: %s). Not checked: full re-typing of all uses after '
                'inference (only re-assignments of a narrowed variable). A run is non-trivial if it removed at least one '
                'annotation; distinct by (language, program, set of removed annotations)'
                % (nprog, 'SEEDS_QUICK' if tier == 'quick' else 'SEEDS_THOROUGH + 4 VERIF_SEED-derived',
                   '; skipped: ' + '; '.join(skipped) if skipped else '',
                   agg.get('ok', 0) + agg.get('violation', 0) + agg.get('undecided', 0), agg.get('var', 0),
                   agg.get('ret', 0), agg.get('new', 0), agg.get('call', 0), agg.get('ok', 0), agg.get('violation', 0),
                   agg.get('undecided', 0), ', '.join('%s x%d' % kv for kv in sorted(why.items(), key=lambda kv: -kv[1])[:4])))
    else:
        rule = ('%d programs (17 hand-built scenarios x 2 element types x 4 languages; generator seeds %s per language%s), each both as '
                'generated and after TypeErasure, x RNG seeds of the mutation (fixed + VERIF_SEED-derived), run through the '
                'real TypeOverwriting on a deep copy. When an injection is reported (%d runs): structural diff = exactly '
                'one declaration\'s declared+recorded type or exactly one explicit type argument (kinds: %s); new type '
                'unrelated to the replaced one (to its bound for a type variable) by declarative nominal subtyping over the '
                'program\'s class table plus Java/Groovy boxing / primitive widening (unrelated %d, undecided %d); message '
                '= "<old> expected but <new> found in node <id>" with id naming the mutated node inside its enclosing '
                'declaration; translation differs. When nothing is reported (%d runs): no message, byte-identical '
                'translation, identical structure. "A correct checker must reject" is only approximated: the local '
                'reference says rejects %d / undecided %d / accepts %d (accepts = no constraint at all on the replaced type '
                'argument, or all constraints compatible)%s. Non-trivial: an injection was reported; distinct by '
                '(language, program, erased?, mutated node, new type)'
                % (nprog, 'SEEDS_QUICK' if tier == 'quick' else 'SEEDS_THOROUGH + 4 VERIF_SEED-derived',
                   '; skipped: ' + '; '.join(skipped) if skipped else '', agg.get('injected', 0),
                   ', '.join('%s %d' % (k[5:], v) for k, v in sorted(agg.items()) if k.startswith('kind:')),
                   agg.get('unrelated:yes', 0), agg.get('unrelated:undecided', 0), agg.get('not-injected', 0),
                   agg.get('reject:rejects', 0), agg.get('reject:undecided', 0), agg.get('reject:accepts', 0),
                   ('; real javac on the Java translations of one injection per hand-built and two per each of the '
                    'first 16 generated Java programs whose input compiles: rejects %d, accepts %d' % (agg.get('javac:rejects', 0), agg.get('javac:accepts', 0)))
                   if tier != 'quick' else '; javac is only run in the thorough tier'))
    out = dict(evaluations=evals, distinct_nontrivial=len(keys), rule=rule, samples=samples, violations=violations,
               exhaustive=False, programs=nprog, counts={k: v for k, v in agg.items() if not isinstance(v, dict)})
    if stop:
        out['stopped_at_first'] = True
    return out


def replay(fi):
    """re-execute one recorded input on the current tree; True if the property holds on it"""
    M = load()
    prop = fi.get('prop', 'C03')
    P0 = build_input(M, fi['source'], fi['lang'], fi['ident'])
    if prop == 'C03':
        viol, key, stats = eval_c03(M, P0, fi)
    else:
        use = None
        if str(fi.get('check', '')).endswith('javac]'):
            use = lambda tag, text: javac_accepts(text)
        viol, key, info = eval_c04(M, P0, fi, use)
    want = fi.get('check')
    hit = [v for v in viol if want is None or v['check'] == want]
    for v in hit[:3]:
        print('%s on %s/%s/%s: %s' % (v['check'], fi['source'], fi['lang'], fi['ident'],
                                      {k: v[k] for k in v if k not in ('check', 'function', 'prop', 'source', 'lang',
                                                                         'ident')}))
    return not hit


if __name__ == '__main__':
    import json
    tier = sys.argv[1] if len(sys.argv) > 1 else 'quick'
    prop = sys.argv[2] if len(sys.argv) > 2 else 'C03'
    t0 = time.time()
    r = run(tier, int(os.environ.get('VERIF_SEED', '1')), prop=prop)
    r['wall_seconds'] = round(time.time() - t0, 1)
    print(json.dumps(r, indent=1, default=str))
