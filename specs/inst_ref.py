"""Executable reference + driver for C08 (instantiation helpers pick type arguments within bounds and allowed variance).

Written FROM THE PROPERTY STATEMENT, not from the code:

  (arity)     exactly one type argument per type parameter;
  (bound)     each argument (for a projection, the projected type) is a subtype of the parameter's declared bound after
              substituting the other arguments -- judged by the declarative relation `Ref.sub` below, which is extended to
              type variables (X <: T iff X == T or bound(X) <: T) and never calls the repository's is_subtype / == /
              substitution;
  (no-prim)   no argument is a primitive type;   (no-con) no argument is an uninstantiated generic class;
  (kept)      an assignment requested by the caller is kept, at most wrapped in a permitted projection, whenever the set of
              requests is consistent with the bounds (a completion within the pool exists);
  (variance)  a use-site projection chosen by the helper appears only where the caller's variance choices (incl. the
              documented Function*/disable_* options), the declared variance and the cfg.dis switches allow it, and never on
              a parameter that another parameter's bound mentions.

The same checker is used on synthetic declarations (`synthetic_inputs`) and, through wrappers installed on the three entry
points of src.ir.type_utils, on every call the program generator makes for a fixed list of (language, seed, switches).

Interface:  run(tier, seed, stop_first=False) -> result dict ;  replay(failing_input) -> bool  (see props/C08_bounded.py).
Check names partition the failures by input class, so that a recorded finding (check + input) does not hide another one:
  bounded[arity] [no-primitive] [no-bare-constructor]
  bounded[bound/<requested|derived|chosen>[+req|+proj]]   offending argument is the caller's request / derived from a request
                                                          through bare-variable bounds / the helper's choice; requests
                                                          present (+req), some request is a projection (+proj)
  bounded[kept/<plain|projection>-request]
  bounded[variance:<caller-choice|declared|switch|in-bound/<unbounded|var-bound|class-bound>>]
Determinism: global RNG seeded before src.utils is imported; counter-based Node.__hash__ restarted for every generated
program; utils.random.r, the word pool and cfg.dis reset per input; result independent of the number of worker processes.
"""
import itertools
import os
import random as _r
import sys
import time

INV, COV, CONTRA = 0, 1, 2
_E = None


# ----------------------------------------------------------------------------------------------------------------------
# loading the real code deterministically

_HASH_CNT = [0]


def _install_hash(Node):
    """counter-based __hash__ on src.ir.node.Node (identity __eq__ untouched): node sets iterate reproducibly.  The
    counter is restarted for every generated program (reset_hash_counter), so that a program does not depend on how many
    nodes were hashed before it."""
    if getattr(Node, '_verif_hash', False):
        return

    def __hash__(self):
        d = self.__dict__
        h = d.get('_vh')
        if h is None:
            _HASH_CNT[0] += 1
            h = d['_vh'] = _HASH_CNT[0]
        return h
    Node.__hash__ = __hash__
    Node._verif_hash = True


def reset_hash_counter():
    _HASH_CNT[0] = 0


class Env:
    pass


def env():
    global _E
    if _E is not None and sys.modules.get('src.ir.type_utils') is _E.tu:
        return _E
    import importlib
    _r.seed(1)                                   # src.utils samples its word pool with the global RNG at import
    node = importlib.import_module('src.ir.node')
    _install_hash(node.Node)
    E = Env()
    E.utils = importlib.import_module('src.utils')
    E.tp = importlib.import_module('src.ir.types')
    E.ast = importlib.import_module('src.ir.ast')
    E.tu = importlib.import_module('src.ir.type_utils')
    E.kt = importlib.import_module('src.ir.kotlin_types')
    E.jt = importlib.import_module('src.ir.java_types')
    E.cfg = importlib.import_module('src.generators.config').cfg
    E.gen = importlib.import_module('src.generators.generator')       # imported here, once, not in every forked child
    E.tov = importlib.import_module('src.transformations.type_overwriting')
    E.real = dict(itc=E.tu.instantiate_type_constructor, ipf=E.tu.instantiate_parameterized_function,
                  ctva=E.tu._compute_type_variable_assignments)
    _E = E
    return E


# ----------------------------------------------------------------------------------------------------------------------
# the declarative side: normal forms, substitution, subtyping

def show(n):
    k = n[0]
    if k == 'top':
        return 'Any'
    if k == 'N':
        return 'Nothing'
    if k == 'B':
        return (n[1][:-4] if n[1].endswith('Type') else n[1]) + ('(primitive)' if n[2] else '')
    if k in ('S', 'C'):
        return n[1] + ('<uninstantiated>' if k == 'C' else '')
    if k == 'P':
        return '%s<%s>' % (n[1], ', '.join(show(a) for a in n[2]))
    if k == 'V':
        return n[1]
    if k == 'W':
        return ('out ' if n[1] == COV else 'in ' if n[1] == CONTRA else 'inv ') + show(n[2])
    if k == '*':
        return '*'
    if k == 'K':
        return 'capture(%s)' % n[1]
    return repr(n)


def key(n):
    """identity of a type: type variables are identified by name (bound / variance decoration dropped)"""
    k = n[0]
    if k == 'V':
        return ('V', n[1])
    if k == 'P':
        return ('P', n[1], tuple(key(a) for a in n[2]))
    if k == 'W':
        return ('W', n[1], key(n[2]))
    if k == 'K':
        return ('K', n[1])
    return n


def mentions(n, name):
    """does type variable `name` occur in n (the bound of an occurring variable is not searched)"""
    k = n[0]
    if k == 'V':
        return n[1] == name
    if k == 'P':
        return any(mentions(a, name) for a in n[2])
    if k == 'W':
        return mentions(n[2], name)
    return False


def variables(n, acc=None):
    acc = set() if acc is None else acc
    k = n[0]
    if k == 'V':
        acc.add(n[1])
    elif k == 'P':
        for a in n[2]:
            variables(a, acc)
    elif k == 'W':
        variables(n[2], acc)
    return acc


def has_kind(n, kinds):
    k = n[0]
    if k in kinds:
        return True
    if k == 'P':
        return any(has_kind(a, kinds) for a in n[2])
    if k == 'W':
        return has_kind(n[2], kinds)
    return False


def has_primitive(n):
    k = n[0]
    if k == 'B':
        return bool(n[2])
    if k == 'P':
        return any(has_primitive(a) for a in n[2])
    if k == 'W':
        return has_primitive(n[2])
    return False


def subst(n, m):
    k = n[0]
    if k == 'V':
        r = m.get(n[1])
        if r is not None:
            return r
        return n if n[3] is None else ('V', n[1], n[2], subst(n[3], m))
    if k == 'P':
        return ('P', n[1], tuple(subst(a, m) for a in n[2]))
    if k == 'W':
        r = subst(n[2], m)
        if r[0] == 'W':                         # projection of a projection
            return r if r[1] == n[1] else ('*',)
        if r[0] == '*':
            return r
        return ('W', n[1], r)
    return n


class Ref:
    """class table (read from declarations) + least subtype relation"""

    def __init__(self, E):
        self.E = E
        self.generic = {}     # name -> (authoritative, params ((name, variance, bound)...), supers)
        self.simple = {}      # name -> supers
        self.builtin = {}     # ('B', cls, prim) -> supers
        self._sub = {}

    # -- reading declarations -------------------------------------------------------------------------------------
    def _reg_generic(self, name, type_parameters, supertypes, authoritative):
        old = self.generic.get(name)
        if old is not None and old[0] and not authoritative:
            return
        fp = (tuple(map(id, type_parameters)), tuple(map(id, supertypes)),
              tuple(id(p.bound) for p in type_parameters))
        if old is not None and old[3] == fp and old[0] == authoritative:
            return
        if old is None:
            self.generic[name] = (False, (), (), None, None)      # cuts recursion through F-bounds
        params = tuple((p.name, p.variance.value, None if p.bound is None else self.norm(p.bound))
                       for p in type_parameters)
        supers = tuple(self.norm(s) for s in supertypes)
        if old is None or old[1:3] != (params, supers):
            self._sub.clear()
        # the declaration objects are kept alive so that their ids stay a valid fingerprint
        self.generic[name] = (authoritative, params, supers, fp, (list(type_parameters), list(supertypes)))

    def _reg_simple(self, name, supertypes):
        old = self.simple.get(name)
        fp = tuple(map(id, supertypes))
        if old is not None and old[1] == fp:
            return
        if old is None:
            self.simple[name] = ((), None, None)
        supers = tuple(self.norm(s) for s in supertypes)
        if old is None or old[0] != supers:
            self._sub.clear()
        self.simple[name] = (supers, fp, list(supertypes))

    def declare(self, t):
        """authoritative registration of a declaration (ClassDeclaration or bare TypeConstructor)"""
        tp, ast = self.E.tp, self.E.ast
        if isinstance(t, ast.ClassDeclaration):
            if t.type_parameters:
                self._reg_generic(t.name, t.type_parameters, t.supertypes, True)
            else:
                self._reg_simple(t.name, t.supertypes)
        elif isinstance(t, tp.TypeConstructor):
            self._reg_generic(t.name, t.type_parameters, t.supertypes, True)

    def norm(self, t):
        tp, ast = self.E.tp, self.E.ast
        if isinstance(t, tp.WildCardType):
            if t.bound is None:
                return ('*',)
            return ('W', t.variance.value, self.norm(t.bound))
        if isinstance(t, tp.TypeParameter):
            return ('V', t.name, t.variance.value, None if t.bound is None else self.norm(t.bound))
        if isinstance(t, tp.ParameterizedType):
            c = t.t_constructor
            if t.name not in self.generic:
                self._reg_generic(c.name, c.type_parameters, c.supertypes, False)
            return ('P', t.name, tuple(self.norm(a) for a in t.type_args))
        if isinstance(t, tp.TypeConstructor):
            if t.name not in self.generic:
                self._reg_generic(t.name, t.type_parameters, t.supertypes, False)
            return ('C', t.name)
        if isinstance(t, ast.ClassDeclaration):
            self.declare(t)
            return ('C', t.name) if t.type_parameters else ('S', t.name)
        if type(t).__name__ == 'NothingType':
            return ('N',)
        if isinstance(t, tp.Builtin):
            cn = type(t).__name__
            if cn in ('AnyType', 'ObjectType'):
                return ('top',)
            k = ('B', cn, bool(getattr(t, 'primitive', False)))
            if k not in self.builtin:
                self.builtin[k] = ()
                self.builtin[k] = tuple(self.norm(s) for s in t.supertypes)
            return k
        if isinstance(t, tp.SimpleClassifier):
            self._reg_simple(t.name, t.supertypes)
            return ('S', t.name)
        return ('O', type(t).__name__, str(t))

    # -- the relation ---------------------------------------------------------------------------------------------
    def supers(self, s):
        k = s[0]
        if k == 'S':
            return self.simple.get(s[1], ((),))[0]
        if k == 'B':
            return self.builtin.get(s, ())
        if k == 'P':
            d = self.generic.get(s[1])
            if d is None or len(d[1]) != len(s[2]):
                return ()
            m = {p[0]: a for p, a in zip(d[1], s[2])}
            return tuple(subst(u, m) for u in d[2])
        return ()

    def sub(self, s, t):
        """s <: t ; reflexive, top, bottom, variable-through-bound, declared supertypes, containment of arguments"""
        ck = (s, t)
        r = self._sub.get(ck)
        if r is None:
            self._sub[ck] = False                 # cycle guard
            r = self._sub[ck] = self._sub_(s, t)
        return r

    def _sub_(self, s, t):
        if key(s) == key(t):
            return True
        if t[0] == 'top' or s[0] == 'N':
            return True
        if s[0] in ('W', '*', 'C', 'O') or t[0] in ('W', '*', 'C', 'O'):
            return False
        if s[0] == 'K':                           # captured projection: only its upper bound is known from above
            return s[3] is not None and self.sub(s[3], t)
        if t[0] == 'K':                           # ... and only its lower bound from below
            return t[2] is not None and self.sub(s, t[2])
        if s[0] == 'V':
            return s[3] is not None and self.sub(s[3], t)
        for u in self.supers(s):
            if self.sub(u, t):
                return True
        if s[0] == 'P' and t[0] == 'P' and s[1] == t[1] and len(s[2]) == len(t[2]):
            d = self.generic.get(s[1])
            if d is None or len(d[1]) != len(s[2]):
                return False
            return all(self.contained(a, b, p[1]) for a, b, p in zip(s[2], t[2], d[1]))
        return False

    def contained(self, a, b, v):
        """argument a is contained in argument b of a parameter declared with variance v"""
        if b[0] == '*':
            return True
        if a[0] == '*':
            return False
        va, xa = (a[1], a[2]) if a[0] == 'W' else (v, a)
        vb, xb = (b[1], b[2]) if b[0] == 'W' else (v, b)
        if vb == INV:
            return va == INV and key(xa) == key(xb)
        if vb == COV:
            return va in (INV, COV) and self.sub(xa, xb)
        return va in (INV, CONTRA) and self.sub(xb, xa)

    def within(self, a, bound, sigma):
        """does argument a respect the declared bound `bound` under the assignment sigma of the other parameters?
        Returns (under_every_reading, under_some_reading).  A projection argument (out and in alike) is judged by its
        projected type.  If no argument that the bound mentions is a projection there is one reading: a <: bound[sigma].
        Otherwise the statement does not fix what "the bound after substituting a projection" means, and the admissible
        readings are evaluated side by side:
          (structural)    substitute the projection as it is and use containment; a bare `out X` bound then admits
                          (for-all) only Nothing or a covariant projection below X, or (containment) anything below X;
                          a bare `in X` bound admits (for-all) anything below X or (containment) anything above X;
          (capture)       the projection stands for an unknown type S with S <: X (out) or X <: S (in); the argument
                          must be below the bound for every such S;
          (variance-free) the projection is replaced by its projected type.
        A result is a violation only if it fails under every reading; a request set counts as consistent only if a
        completion passes under every reading."""
        x = a[2] if a[0] == 'W' else a
        used = variables(bound)
        proj = [k for k in used if k in sigma and sigma[k][0] in ('W', '*')]
        if not proj:
            if a[0] == '*':
                return (False, True)
            r = self.sub(x, subst(bound, sigma))
            return (r, r)
        if a[0] == '*':
            return (False, True)
        # structural
        b = subst(bound, sigma)
        if b[0] == '*':
            s_every, s_some = (x[0] == 'N', True)
        elif b[0] == 'W':
            if b[1] == COV:
                s_some = self.sub(x, b[2])
                s_every = s_some if (a[0] == 'W' and a[1] == COV) else x[0] == 'N'
            else:
                f, c = self.sub(x, b[2]), self.sub(b[2], x)
                s_every, s_some = (f and c, f or c)
        else:
            s_every = s_some = self.sub(x, b)
        # capture
        cap = dict(sigma)
        for k in proj:
            v = sigma[k]
            cap[k] = ('K', k, None, None) if v[0] == '*' else (
                ('K', k, None, v[2]) if v[1] == COV else ('K', k, v[2], None) if v[1] == CONTRA else v[2])
        r_cap = self.sub(x, subst(bound, cap))
        # variance-free
        free = dict(sigma)
        for k in proj:
            v = sigma[k]
            free[k] = ('top',) if v[0] == '*' else v[2]
        r_free = self.sub(x, subst(bound, free))
        return (s_every and r_cap and r_free, s_some or r_cap or r_free)


# ----------------------------------------------------------------------------------------------------------------------
# the contract of one call

QUAL = {'itc': 'src.ir.type_utils.instantiate_type_constructor',
        'ipf': 'src.ir.type_utils.instantiate_parameterized_function',
        'ctva': 'src.ir.type_utils._compute_type_variable_assignments'}


def effective_choices(con_name, type_parameters, variance_choices, enable_pecs, disable_variance_functions,
                      disable_variance):
    """documented meaning of the options of instantiate_type_constructor: PECS for Function* types (parameters only
    `in`, result only `out`), disable_variance_functions for Function* types, disable_variance overrides everything"""
    is_fun = con_name.startswith('Function')
    ec = variance_choices
    if enable_pecs and is_fun:
        ec = [(p, (False, True)) for p in type_parameters[:-1]] + [(type_parameters[-1], (True, False))]
    if disable_variance or (disable_variance_functions and is_fun):
        ec = [(p, (False, False)) for p in type_parameters]
    if isinstance(ec, dict):
        ec = list(ec.items())
    return ec


class Checker:
    def __init__(self, E):
        self.E = E
        self.ref = Ref(E)
        self.evaluations = 0
        self.calls_by_api = {'itc': 0, 'ipf': 0, 'ctva': 0}
        self.nontrivial = set()
        self.out_of_domain = 0          # requests not consistent with the bounds
        self.undecided = 0
        self.cut_off = 0
        self.ambiguous = 0              # bound checks on which the readings of `within` disagree
        self.exceptions = {}
        self.violations = {}
        self.current = None             # replayable description of the top-level input being run
        self.depth = 0
        self.stats = {'projections': 0, 'requests_kept': 0, 'bounds_checked': 0, 'nested': 0}
        self.samples = []
        self.work = [0]
        self.collect = None             # debugging aid: every distinct violation signature

    # -- helpers -----------------------------------------------------------------------------------------------------
    def report(self, kind, api, **kw):
        name = 'bounded[%s]' % kind
        if self.collect is not None:
            c = kw.get('call', {})
            sig = (name, api, tuple(c.get('parameters', ())), tuple(sorted(c.get('requested', {}).items())))
            if sig not in self.collect:
                self.collect[sig] = dict(kw, input=self.current)
        if name in self.violations:
            return
        d = dict(check=name, function=QUAL[api])
        d.update(kw)
        d['input'] = self.current
        self.violations[name] = d

    def _find(self, pairs, p, np):
        """entry of a map keyed by type parameters for parameter p: the key is p itself, or structurally the same
        variable (name, declared variance, bound)"""
        for k, v in pairs:
            if k is p:
                return v
        for k, v in pairs:
            if isinstance(k, self.E.tp.TypeParameter) and self.ref.norm(k) == np:
                return v
        return None

    # -- the contract --------------------------------------------------------------------------------------------------
    def check(self, api, con_name, type_parameters, pool, requested, ec, for_tc, t_args, res_map, dis):
        """requested: list of (TypeParameter, type) = caller's type_var_map before the call; ec: effective variance
        choices (None or list of (TypeParameter, (cov, contra))); t_args: list of result arguments or None;
        res_map: result map (dict) ; dis = (use_site_variance disabled, use_site_contravariance disabled)"""
        ref = self.ref
        self.evaluations += 1
        self.calls_by_api[api] += 1
        if self.depth > 0:
            self.stats['nested'] += 1
        for t in pool:
            ref.declare(t)
        nparams = [ref.norm(p) for p in type_parameters]
        names = [p.name for p in type_parameters]
        n = len(type_parameters)
        desc = dict(api=api, constructor=con_name, parameters=[self.show_param(x) for x in nparams],
                    requested={k.name: show(ref.norm(v)) for k, v in requested},
                    variance_choices=None if ec is None else {k.name: list(v) for k, v in ec},
                    switches=dict(use_site_variance_disabled=dis[0], use_site_contravariance_disabled=dis[1]))

        # (arity) ------------------------------------------------------------------------------------------------
        if t_args is None:
            t_args = []
            for p, np in zip(type_parameters, nparams):
                v = self._find(list(res_map.items()), p, np)
                if v is None:
                    self.report('arity', api, call=desc, expected='one argument for every type parameter',
                                actual='no argument for %s in the result map' % p.name)
                    return
                t_args.append(v)
        if len(t_args) != n:
            self.report('arity', api, call=desc, expected='%d type arguments' % n, actual='%d' % len(t_args))
            return
        nargs = [ref.norm(a) for a in t_args]
        desc['result'] = [show(a) for a in nargs]
        if res_map is not None:
            items = list(res_map.items())
            for p, np, a in zip(type_parameters, nparams, nargs):
                v = self._find(items, p, np)
                if v is None or key(ref.norm(v)) != key(a):
                    self.report('arity', api, call=desc, expected='result map assigns %s exactly its argument %s'
                                % (p.name, show(a)), actual='map has %s' % (None if v is None else show(ref.norm(v))))

        req = {}                              # index -> normal form of the requested assignment
        for i, (p, np) in enumerate(zip(type_parameters, nparams)):
            v = self._find(requested, p, np)
            if v is not None:
                req[i] = ref.norm(v)
        outer = {k.name: ref.norm(v) for k, v in requested if isinstance(k, self.E.tp.TypeParameter)}
        caller_wild = [key(v) for v in outer.values() if v[0] in ('W', '*')]

        in_bound = [any(j != i and q[3] is not None and mentions(q[3], names[i]) for j, q in enumerate(nparams))
                    for i in range(n)]

        def allowed(i, v):
            """may the helper put a projection of variance v on parameter i ?"""
            why = []
            if ec is None:
                why.append('caller-choice')
            else:
                c = self._find(ec, type_parameters[i], nparams[i])
                c = (True, True) if c is None else c
                if not (c[0] if v == COV else c[1]):
                    why.append('caller-choice')
            if dis[0] or (v == CONTRA and dis[1]):
                why.append('switch')
            if (v == COV and nparams[i][2] == CONTRA) or (v == CONTRA and nparams[i][2] == COV):
                why.append('declared')
            if in_bound[i]:
                why.append('in-bound')
            return why

        # (no-prim), (no-con), (variance) ------------------------------------------------------------------------
        for i, a in enumerate(nargs):
            is_request = i in req and key(req[i]) == key(a)
            if not is_request:
                if has_primitive(a):
                    self.report('no-primitive', api, call=desc, parameter=names[i], actual=show(a),
                                expected='no primitive type as (part of) a type argument')
                if has_kind(a, ('C',)):
                    self.report('no-bare-constructor', api, call=desc, parameter=names[i], actual=show(a),
                                expected='no uninstantiated generic class as (part of) a type argument')
            inherited = False                   # the projection of the parameter this one is (bare-)bounded by
            b = nparams[i][3]
            if b is not None and b[0] == 'V' and b[1] in names and names.index(b[1]) != i:
                inherited = key(nargs[names.index(b[1])]) == key(a)
            if a[0] in ('W', '*') and key(a) not in caller_wild and not inherited:
                self.stats['projections'] += 1
                v = a[1] if a[0] == 'W' else None
                why = ['caller-choice'] if v not in (COV, CONTRA) else allowed(i, v)
                for w in why:
                    own = nparams[i][3]
                    sfx = '' if w != 'in-bound' else (
                        '/unbounded' if own is None else '/var-bound' if own[0] == 'V' else '/class-bound')
                    self.report('variance:' + w + sfx, api, call=desc, parameter=names[i], actual=show(a),
                                expected='no %s projection on %s (%s)' % (
                                    {COV: 'out', CONTRA: 'in'}.get(v, 'star/invariant'), names[i],
                                    {'caller-choice': 'the caller\'s variance choices forbid it',
                                     'switch': 'disabled by cfg.dis', 'declared': 'declared variance of the parameter',
                                     'in-bound': 'another parameter\'s bound mentions it'}[w]))

        # (bound), (kept) -- relative to consistency of the requests ---------------------------------------------
        sigma = dict(outer)
        sigma.update({names[i]: nargs[i] for i in range(n)})
        fails = []
        # input class of a (bound) failure, part of the check name: is the offending argument the caller's request, derived
        # from a request through bare-variable bounds, or the helper's own choice; were there requests / projection
        # requests
        flavour = '' if not requested else '+proj' if any(v[0] in ('W', '*') for v in outer.values()) else '+req'
        comp = list(range(n))
        for i, np in enumerate(nparams):
            if np[3] is not None and np[3][0] == 'V' and np[3][1] in names:
                a_, b_ = comp[i], comp[names.index(np[3][1])]
                comp = [b_ if c == a_ else c for c in comp]

        def who(i):
            a = nargs[i]
            if i in req and (key(req[i]) == key(a) or (a[0] == 'W' and key(a[2]) == key(req[i]))):
                return 'requested'
            for j, r in req.items():
                if j != i and comp[j] == comp[i] and (key(r) == key(a) or (r[0] == 'W' and key(r[2]) == key(a))):
                    return 'derived'
            return 'chosen'
        for i, np in enumerate(nparams):
            if np[3] is None:
                continue
            self.stats['bounds_checked'] += 1
            others = {k: v for k, v in sigma.items() if k != names[i]}
            b = subst(np[3], others)
            every, some = ref.within(nargs[i], np[3], others)
            if every != some:
                self.ambiguous += 1
            if not some:
                fails.append(('bound/' + who(i) + flavour, i, 'argument %s of %s is not within the bound %s (declared %s)'
                              % (show(nargs[i]), names[i], show(b), show(np[3]))))
        for i, r in req.items():
            a = nargs[i]
            if key(a) == key(r):
                self.stats['requests_kept'] += 1
                continue
            if a[0] == 'W' and r[0] not in ('W', '*') and key(a[2]) == key(r):
                self.stats['requests_kept'] += 1
                continue                      # wrapped; whether the projection is permitted is the variance clause
            fails.append(('kept/' + ('projection-request' if r[0] in ('W', '*') else 'plain-request'), i,
                          'requested %s := %s but the result has %s' % (names[i], show(r), show(a))))
        trivial = not (req or ec is not None or any(np[3] is not None or np[2] != INV for np in nparams))
        ikey = (api, con_name, tuple(nparams), tuple(sorted((i, key(r)) for i, r in req.items())),
                None if ec is None else tuple(sorted((k.name, tuple(v)) for k, v in ec)), for_tc, dis,
                tuple(sorted((type(t).__name__, str(getattr(t, 'name', ''))) for t in pool)))
        if len(self.samples) < 4 and req and any(a[0] == 'W' for a in nargs) and any(np[3] is not None for np in nparams):
            self.samples.append(desc)
        if not fails:
            if not trivial:
                self.nontrivial.add(hash(ikey))
            return
        if requested:
            w = self.witness(nparams, names, req, outer, pool)
            if w is None:
                self.out_of_domain += 1
                return
            if w == 'budget':
                self.undecided += 1
                return
            desc['consistent_completion'] = [show(x) for x in w]
        self.nontrivial.add(hash(ikey))
        for kind, i, msg in fails:
            self.report(kind, api, call=desc, parameter=names[i], actual=msg,
                        expected='every argument within its substituted bound and every consistent request kept')

    @staticmethod
    def show_param(np):
        return '%s%s%s' % ({INV: '', COV: 'out ', CONTRA: 'in '}[np[2]], np[1],
                           '' if np[3] is None else ': ' + show(np[3]))

    # -- consistency of the caller's requests ------------------------------------------------------------------------
    def candidates(self, pool, extra):
        """types the helper could pick for an unrequested parameter: regular classes, non-primitive builtins, type
        variables and parameterized types of the pool, generic classes of the pool instantiated (depth 1) -- plus the
        types that the requests themselves mention (an unrequested parameter may be forced by a request)"""
        ref = self.ref
        ast, tp = self.E.ast, self.E.tp
        ground, gens = [], []
        for t in pool:
            if isinstance(t, ast.ClassDeclaration):
                if t.class_type != ast.ClassDeclaration.REGULAR:
                    continue
                (gens if t.type_parameters else ground).append(ref.norm(t))
            elif isinstance(t, tp.TypeConstructor):
                continue
            else:
                if hasattr(t, 'box_type') and getattr(t, 'primitive', False):
                    t = t.box_type()
                ground.append(ref.norm(t))
        seen = set()
        out = []

        def add(x):
            if key(x) not in seen and x[0] not in ('C', 'O'):
                seen.add(key(x))
                out.append(x)

        def parts(x):
            add(x)
            if x[0] == 'P':
                for a in x[2]:
                    parts(a[2] if a[0] == 'W' else a)
            for u in ref.supers(x):
                parts(u)
        for x in extra:
            if x[0] == 'W':
                x = x[2]
            if x[0] != '*':
                parts(x)
        for x in ground:
            add(x)
        base = list(out)
        for g in gens:
            d = ref.generic.get(g[1])
            if d is None:
                continue
            k = len(d[1])
            if len(base) ** k > 400:
                combos = [tuple(base[(i + j) % len(base)] for j in range(k)) for i in range(len(base))]
            else:
                combos = itertools.product(base, repeat=k)
            for c in combos:
                add(('P', g[1], tuple(c)))
        return out

    def witness(self, nparams, names, req, outer, pool, budget=200000):
        """a completion of the requests that satisfies every bound (None: the requests are inconsistent)"""
        ref = self.ref
        n = len(nparams)
        relevant = [i for i in range(n) if i not in req and (
            nparams[i][3] is not None or any(q[3] is not None and mentions(q[3], names[i]) for q in nparams))]
        cand = []
        steps = [0]
        assign = dict(req)

        def ok():
            sig = dict(outer)
            sig.update({names[i]: a for i, a in assign.items()})
            for i, np in enumerate(nparams):
                if np[3] is None or i not in assign:
                    continue
                if any(v in names and names.index(v) not in assign for v in variables(np[3])):
                    continue                      # a parameter the bound mentions is still open
                if not ref.within(assign[i], np[3], {k: v for k, v in sig.items() if k != names[i]})[0]:
                    return False
            return True

        def rec(k):
            steps[0] += 1
            if steps[0] > budget:
                raise OverflowError
            if not ok():
                return False
            if k == len(relevant):
                return True
            i = relevant[k]
            own = []
            if nparams[i][3] is not None:       # the helper may always pick the (substituted, variance-free) bound itself
                sig = dict(outer)
                sig.update({names[j]: a for j, a in assign.items()})
                b = subst(nparams[i][3], sig)
                if not (variables(b) & set(names)):
                    own = [b, subst(nparams[i][3], {k_: (v[2] if v[0] == 'W' else v) for k_, v in sig.items()})]
                    own = [x[2] if x[0] == 'W' else x for x in own if x[0] != '*']
            for c in own + cand:
                assign[i] = c
                if rec(k + 1):
                    return True
                del assign[i]
            return False
        try:
            if not ok():
                return None
            cand = self.candidates(pool, list(req.values()) + list(outer.values())) if relevant else []
            if rec(0):
                return [assign.get(i, ('O', 'any', '_')) for i in range(n)]
            return None
        except OverflowError:
            return 'budget'

    # -- wrappers around the real entry points ---------------------------------------------------------------------
    def install(self):
        E = self.E
        tu, real = E.tu, E.real
        chk = self

        def dis():
            return (bool(E.cfg.dis.use_site_variance), bool(E.cfg.dis.use_site_contravariance))

        def itc(type_constructor, types, only_regular=True, type_var_map=None, variance_choices=None,
                enable_pecs=True, disable_variance_functions=False, disable_variance=False):
            requested = list((type_var_map or {}).items())
            ec = effective_choices(type_constructor.name, list(type_constructor.type_parameters), variance_choices,
                                   enable_pecs, disable_variance_functions, disable_variance)
            ec = None if ec is None else list(ec)
            pool = list(types)
            d = dis()
            chk.depth += 1
            try:
                res = real['itc'](type_constructor, types, only_regular, type_var_map, variance_choices,
                                  enable_pecs, disable_variance_functions, disable_variance)
            finally:
                chk.depth -= 1
            t, m = res
            chk.ref.declare(type_constructor)
            if not isinstance(t, E.tp.ParameterizedType) or t.name != type_constructor.name:
                chk.evaluations += 1
                chk.report('arity', 'itc', expected='an instantiation of ' + type_constructor.name, actual=str(t))
                return res
            chk.check('itc', type_constructor.name, list(type_constructor.type_parameters), pool, requested, ec, True,
                      list(t.type_args), m, d)
            return res

        def ipf(type_parameters, types, only_regular=True, type_var_map=None):
            requested = list((type_var_map or {}).items())
            pool = list(types)
            d = dis()
            chk.depth += 1
            try:
                res = real['ipf'](type_parameters, types, only_regular, type_var_map)
            finally:
                chk.depth -= 1
            chk.check('ipf', '<function>', list(type_parameters), pool, requested, None, False, None, res, d)
            return res

        def ctva(type_parameters, types, type_var_map=None, variance_choices=None, for_type_constructor=True):
            if chk.depth > 0:                    # reached through one of the two public helpers: checked there
                return real['ctva'](type_parameters, types, type_var_map, variance_choices, for_type_constructor)
            requested = list((type_var_map or {}).items())
            ec = None if variance_choices is None else list(variance_choices.items())
            pool = list(types)
            d = dis()
            chk.depth += 1
            try:
                res = real['ctva'](type_parameters, types, type_var_map, variance_choices, for_type_constructor)
            finally:
                chk.depth -= 1
            chk.check('ctva', '<direct>', list(type_parameters), pool, requested, ec, for_type_constructor,
                      list(res[0]), res[1], d)
            return res
        tu.instantiate_type_constructor = itc
        tu.instantiate_parameterized_function = ipf
        tu._compute_type_variable_assignments = ctva

    def uninstall(self):
        tu, real = self.E.tu, self.E.real
        tu.instantiate_type_constructor = real['itc']
        tu.instantiate_parameterized_function = real['ipf']
        tu._compute_type_variable_assignments = real['ctva']

    def guarded(self, f):
        """run f(); an exception of the real code means no instantiation was produced (reported, not a C08 verdict)"""
        try:
            f()
            return True
        except Exception as ex:       # noqa
            import traceback
            tb = traceback.extract_tb(ex.__traceback__)
            where = ' < '.join('%s:%d' % (os.path.basename(fr.filename), fr.lineno) for fr in tb[-2:])
            k = '%s @ %s' % (type(ex).__name__, where)
            e = self.exceptions.setdefault(k, dict(count=0, first_input=self.current, message=str(ex)[:120]))
            e['count'] += 1
            self.depth = 0
            return False


# ----------------------------------------------------------------------------------------------------------------------
# synthetic declarations

class World:
    """a small class table built with the real IR constructors.
        A : Any   B : A   C : B   D : A   Abs (abstract) : A   Itf (interface)
        Foo<T>   Cov<out T>   Contra<in T>   Pair<K, V>
        FooSub<X> : Foo<X>    GStr<X> : Foo<String>    FooStr : Foo<String>    FooB : Foo<B>
    over the Kotlin or the Java builtins (the Java pools contain primitive types)."""

    def __init__(self, E, lang):
        tp, ast = E.tp, E.ast
        self.E = E
        self.lang = lang
        m = E.kt if lang == 'kotlin' else E.jt
        self.m = m
        if lang == 'kotlin':
            top, self.String, self.Integer, self.Number, self.Double = m.Any, m.String, m.Integer, m.Number, m.Double
            self.prims = []
        else:
            f = m.JavaBuiltinFactory()
            top, self.String, self.Integer, self.Number, self.Double = (
                f.get_any_type(), f.get_string_type(), f.get_integer_type(), f.get_number_type(), f.get_double_type())
            self.prims = f.get_primitive_types()
        self.top = top
        self.decls = {}
        self._mk = {}
        self.types = {'String': self.String, 'Integer': self.Integer, 'Number': self.Number, 'Double': self.Double,
                      'Any': top, 'Nothing': tp.Nothing}

        def cls(name, supers, kind=ast.ClassDeclaration.REGULAR, tparams=()):
            d = ast.ClassDeclaration(name, [ast.SuperClassInstantiation(s, None) for s in supers], kind,
                                     fields=[], functions=[], is_final=False, type_parameters=list(tparams))
            self.decls[name] = d
            t = d.get_type()
            self.types[name] = t
            return t
        A = cls('A', [top])
        B = cls('B', [A])
        cls('C', [B])
        cls('D', [A])
        cls('Abs', [A], ast.ClassDeclaration.ABSTRACT)
        cls('Itf', [], ast.ClassDeclaration.INTERFACE)
        Foo = cls('Foo', [top], tparams=[tp.TypeParameter('T')])
        cls('Cov', [top], tparams=[tp.TypeParameter('T', tp.Covariant)])
        cls('Contra', [top], tparams=[tp.TypeParameter('T', tp.Contravariant)])
        cls('Pair', [top], tparams=[tp.TypeParameter('K'), tp.TypeParameter('V')])
        X = tp.TypeParameter('X')
        cls('FooSub', [Foo.new([X])], tparams=[X])
        X2 = tp.TypeParameter('X')
        cls('GStr', [Foo.new([self.String])], tparams=[X2])
        cls('FooStr', [Foo.new([self.String])])
        cls('FooB', [Foo.new([B])])
        self.outer = {'K': tp.TypeParameter('K'), 'L': tp.TypeParameter('L', bound=self.Number),
                      'M': tp.TypeParameter('M', bound=B)}

    def mk(self, spec, scope):
        """build the IR type of a type spec: 'String' | 'T1' (parameter in scope) | 'K' (enclosing-scope variable) |
        ['Foo', spec...] | ['out', spec] | ['in', spec]"""
        tp = self.E.tp
        if isinstance(spec, str):
            if spec in scope:
                return scope[spec]
            if spec in self.outer:
                return self.outer[spec]
            return self.types[spec]
        ck = None
        if not self._scoped(spec, scope):
            ck = repr(spec)
            if ck in self._mk:
                return self._mk[ck]
        head = spec[0]
        if head == 'out':
            r = tp.WildCardType(self.mk(spec[1], scope), tp.Covariant)
        elif head == 'in':
            r = tp.WildCardType(self.mk(spec[1], scope), tp.Contravariant)
        else:
            r = self.types[head].new([self.mk(a, scope) for a in spec[1:]])
        if ck is not None:
            self._mk[ck] = r
        return r

    def _scoped(self, spec, scope):
        if isinstance(spec, str):
            return spec in scope
        return any(self._scoped(a, scope) for a in spec[1:])

    def pool(self, pid):
        d, t = self.decls, self.types
        if pid == 'full':
            return [d[k] for k in ('A', 'B', 'C', 'D', 'Abs', 'Itf', 'Foo', 'Cov', 'FooSub', 'GStr', 'FooStr', 'FooB')] + [
                self.String, self.Integer, self.Number, self.top] + self.prims[:3]
        if pid == 'one':
            return [self.String]
        if pid == 'nums':
            return [self.Integer, self.Double, d['B'], d['C']] + self.prims[2:4]
        if pid == 'vars':
            return [self.outer['K'], self.outer['L'], self.outer['M']]
        if pid == 'types':          # what Generator.get_types returns: types, bare constructors, no declarations
            return [t['A'], t['B'], t['C'], t['FooStr'], t['Foo'], t['GStr'], t['Foo'].new([self.String]),
                    self.String, self.Number, self.outer['K']] + self.prims[:2]
        if pid == 'gens':           # mostly generic candidates
            return [d['GStr'], d['FooSub'], d['Foo'], d['Cov'], d['Pair'], d['FooB'], self.String, d['B']]
        raise KeyError(pid)


POOLS = ['full', 'one', 'nums', 'vars', 'types', 'gens']
VAR = {'': INV, 'out': COV, 'in': CONTRA}
GROUND_BOUNDS = [None, 'Number', 'A', 'B', ['Foo', 'String'], ['Cov', 'B'], ['Foo', 'B'], 'K', ['Foo', 'L']]


def var_bounds(prev):
    out = []
    for v in prev:
        out += [v, ['Foo', v], ['Cov', v], ['Contra', v], ['Pair', v, 'String'], ['Foo', ['Foo', v]]]
    if len(prev) == 2:
        out.append(['Pair', prev[0], prev[1]])
    return out


REQ_VALUES = ['String', 'Integer', 'B', 'C', 'A', ['Foo', 'String'], 'FooStr', 'FooB', ['out', 'B'], ['in', 'B'],
              ['out', 'Number'], 'K', 'M', ['GStr', 'A'], ['FooSub', 'String'], ['Foo', ['out', 'B']], 'Nothing',
              ['out', ['Foo', 'String']]]
VC_MENU = ['none', 'empty', 'all_in', 'all_out', 'all_off', 'all_on', 'first_on', 'last_off']
DIS_MENU = [(False, False), (True, False), (False, True)]


def shapes(n):
    """all declaration shapes with n parameters: bounds x (invariant / one parameter variant)"""
    names = ['T1', 'T2', 'T3', 'T4'][:n]
    menus = [GROUND_BOUNDS + var_bounds(names[:i]) for i in range(n)]
    variances = [[''] * n]
    for i in range(n):
        for v in ('out', 'in'):
            vs = [''] * n
            vs[i] = v
            variances.append(vs)
    for bounds in itertools.product(*menus):
        for vs in variances:
            yield [[names[i], vs[i], bounds[i]] for i in range(n)]


EXTRA_SHAPES = [
    # chains whose retroactive update crosses a parameter that an already-chosen bound depends on
    [['T1', '', None], ['T2', '', 'T1'], ['T3', '', ['Foo', 'T1']], ['T4', '', 'T2']],
    [['T1', '', None], ['T2', '', ['Foo', 'T1']], ['T3', '', 'T1'], ['T4', '', 'T3']],
    [['T1', '', 'Number'], ['T2', '', 'T1'], ['T3', '', 'T2'], ['T4', '', 'T3']],
    [['T1', '', 'A'], ['T2', 'out', 'T1'], ['T3', '', ['Pair', 'T1', 'T2']], ['T4', 'in', 'T1']],
]


def vc_spec(kind, names):
    if kind == 'none':
        return None
    if kind == 'empty':
        return []
    if kind == 'all_in':
        return [[n, [False, True]] for n in names]
    if kind == 'all_out':
        return [[n, [True, False]] for n in names]
    if kind == 'all_off':
        return [[n, [False, False]] for n in names]
    if kind == 'all_on':
        return [[n, [True, True]] for n in names]
    if kind == 'first_on':
        return [[names[0], [True, True]]]
    if kind == 'last_off':
        return [[names[-1], [False, False]]]
    raise KeyError(kind)


def make_input(world, api, name, params, pool, pre, vc, flags, dis, rseed, for_tc=True):
    """precondition of the helpers (DESIGN C08): a bare variable bound is one of the parameters or is pre-assigned --
    a missing request for the enclosing-scope variable K is therefore added here"""
    need = [b for _, _, b in params if b in ('K', 'L', 'M')]
    if need:
        pre = list(pre or [])
        for v in need:
            if not any(nm == v for nm, _ in pre):
                kvals = ['B', 'C', ['out', 'B'], ['in', 'B'], ['Foo', 'String']]
                pre.append([v, kvals[rseed % 5] if v == 'K' else 'Integer'])
    return dict(kind='synthetic', world=world, api=api, name=name, params=params, pool=pool, pre=pre, vc=vc,
                flags=flags, dis=list(dis), rseed=rseed, for_tc=for_tc)


def run_input(E, chk, worlds, inp):
    """execute one synthetic input through the (wrapped) real helper"""
    tp, tu = E.tp, E.tu
    w = worlds[inp['world']]
    scope = {}
    tparams = []
    for nm, var, b in inp['params']:
        p = tp.TypeParameter(nm, {INV: tp.Invariant, COV: tp.Covariant, CONTRA: tp.Contravariant}[VAR[var]],
                             None if b is None else w.mk(b, scope))
        scope[nm] = p
        tparams.append(p)
    pool = w.pool(inp['pool'])
    pre = None
    if inp['pre'] is not None:
        pre = {}
        for nm, spec in inp['pre']:
            pre[scope[nm] if nm in scope else w.outer[nm]] = w.mk(spec, scope)
    vc = None if inp['vc'] is None else {scope[nm]: tuple(c) for nm, c in inp['vc']}
    E.cfg.dis.use_site_variance, E.cfg.dis.use_site_contravariance = inp['dis']
    E.utils.random.r.seed(inp['rseed'])
    chk.current = inp
    api = inp['api']
    try:
        if api == 'itc':
            con = tp.TypeConstructor(inp['name'], tparams, [w.top])
            fl = inp['flags']
            return chk.guarded(lambda: tu.instantiate_type_constructor(
                con, pool, True, pre, vc, fl.get('enable_pecs', True), fl.get('disable_variance_functions', False),
                fl.get('disable_variance', False)))
        if api == 'ipf':
            return chk.guarded(lambda: tu.instantiate_parameterized_function(tparams, pool, True, pre))
        avail = tu._get_available_types(None, pool, True, False)
        return chk.guarded(lambda: tu._compute_type_variable_assignments(tparams, avail, pre, vc, inp['for_tc']))
    finally:
        E.cfg.dis.use_site_variance, E.cfg.dis.use_site_contravariance = False, False


_PRE_CACHE = {}


def pre_menu(names):
    """partial pre-assignments: none, empty map, every single request, pairs of requests, requests for variables of an
    enclosing declaration"""
    k = tuple(names)
    if k in _PRE_CACHE:
        return _PRE_CACHE[k]
    out = [None, []]
    for nm in names:
        for v in REQ_VALUES:
            out.append([[nm, v]])
    small = ['String', 'B', 'C', 'Integer', ['out', 'B'], ['in', 'B'], 'FooStr', ['Foo', 'String'], 'K']
    for a, b in itertools.combinations(names, 2):
        for x in small:
            for y in small:
                out.append([[a, x], [b, y]])
    for v, vals in (('K', ['String', 'B', ['out', 'B'], ['in', 'B'], ['Foo', 'String']]),
                    ('L', ['Integer', ['out', 'Integer']])):
        for x in vals:
            out.append([[v, x]])
            out.append([[v, x], [names[-1], 'C']])
    _PRE_CACHE[k] = out
    return out


def flags_menu(name):
    if name.startswith('Function'):
        return [dict(), dict(disable_variance=True), dict(disable_variance_functions=True),
                dict(enable_pecs=False), dict(enable_pecs=False, disable_variance_functions=True),
                dict(enable_pecs=False, disable_variance=True)]
    return [dict(), dict(disable_variance=True), dict(enable_pecs=False, disable_variance_functions=True)]


SIZES = {
    # (a) calls per shape by arity, stride over the 3-parameter shapes; (b) strides by arity, thinning modulus,
    # repetitions; (c) random sample
    'quick': dict(a_per={1: 40, 2: 10, 3: 3, 4: 60}, a_stride3=9, b_stride={1: 1, 2: 3, 3: 80}, b_mod=6, b_reps=1,
                  c=4000),
    'thorough': dict(a_per={1: 300, 2: 60, 3: 4, 4: 400}, a_stride3=1, b_stride={1: 1, 2: 2, 3: 40}, b_mod=1,
                     b_reps=2, c=60000),
}
_SHAPES = {}


def all_shapes(n):
    if n not in _SHAPES:
        _SHAPES[n] = EXTRA_SHAPES if n == 4 else list(shapes(n))
    return _SHAPES[n]


def synthetic_inputs(tier, seed):
    """deterministic list of inputs: (a) bound-directed block: shapes x pools x pre-assignments x RNG seeds with the
    variance map alternating; (b) variance-directed block: shapes x variance maps x options x switches x RNG seeds;
    (c) a VERIF_SEED-seeded random sample of the full cross product"""
    rnd = _r.Random(seed)
    sz = SIZES[tier]
    base = _r.Random(20240924)              # fixed part
    # (a) ----------------------------------------------------------------------------------------------------
    for n in (1, 2, 3, 4):
        shp = all_shapes(n)
        names = [p[0] for p in shp[0]]
        pres = pre_menu(names)
        if n == 3 and sz['a_stride3'] > 1:
            shp = shp[::sz['a_stride3']]
        for si, s in enumerate(shp):
            for j in range(sz['a_per'][n]):
                world = 'java' if base.random() < 0.25 else 'kotlin'
                api = base.choice(['itc', 'itc', 'ipf', 'ctva'])
                pre = pres[(si * 7 + j * 13) % len(pres)] if j % 3 else base.choice(pres)
                vc = vc_spec(base.choice(['empty', 'none', 'all_in', 'all_on']), names)
                yield make_input(world, api, 'Con', s, base.choice(POOLS), pre, vc if api != 'ipf' else None,
                                 dict(), (False, False), base.randrange(1 << 16), for_tc=base.random() < 0.6)
    # (b) ----------------------------------------------------------------------------------------------------
    for n in (1, 2, 3):
        shp = all_shapes(n)[::sz['b_stride'][n]]
        names = [p[0] for p in shp[0]]
        for si, s in enumerate(shp):
            cons = ['Con', 'Function%d' % (n - 1)] + (['Array'] if n == 1 else [])
            for name in cons:
                for vi, vk in enumerate(VC_MENU):
                    for fi, fl in enumerate(flags_menu(name)):
                        for di, dis in enumerate(DIS_MENU):
                            if (si + vi + 2 * fi + 3 * di) % sz['b_mod']:
                                continue
                            for _ in range(sz['b_reps']):
                                pre = base.choice([None, None, [], [[names[0], 'B']], [[names[-1], 'String']],
                                                   [[names[0], ['out', 'B']]], [[names[-1], 'C']]])
                                yield make_input('kotlin' if base.random() < 0.8 else 'java',
                                                 'itc' if base.random() < 0.85 else 'ctva', name, s,
                                                 base.choice(['full', 'types', 'gens', 'nums']), pre,
                                                 vc_spec(vk, names), fl, dis, base.randrange(1 << 16))
    # (c) ----------------------------------------------------------------------------------------------------
    for _ in range(sz['c']):
        n = rnd.choice([1, 2, 2, 3, 3, 3, 4])
        s = rnd.choice(all_shapes(n))
        names = [p[0] for p in s]
        name = rnd.choice(['Con', 'Con', 'Function%d' % (n - 1), 'Array'])
        yield make_input(rnd.choice(['kotlin', 'kotlin', 'java']), rnd.choice(['itc', 'itc', 'ipf', 'ctva']), name, s,
                         rnd.choice(POOLS), rnd.choice(pre_menu(names)), vc_spec(rnd.choice(VC_MENU), names),
                         rnd.choice(flags_menu(name)), rnd.choice(DIS_MENU), rnd.randrange(1 << 16),
                         for_tc=rnd.random() < 0.6)


# ----------------------------------------------------------------------------------------------------------------------
# generator-driven part

# quick: seeds whose generation is short (measured once as number of Python calls, a deterministic quantity)
GEN_SEEDS = {'quick': {'kotlin': [2, 4, 5, 8, 9, 11, 14, 15, 19, 23], 'java': [0, 1, 2, 4, 5, 6, 7, 8, 9, 10, 12, 14],
                       'scala': [0, 2, 3, 4, 7, 11], 'groovy': [0, 3, 4, 7, 10, 11]},
             'thorough': {'kotlin': list(range(40)), 'java': list(range(40)), 'scala': list(range(40)),
                          'groovy': list(range(20))}}
# objects deep-copied (src.ir.types, src.ir.ast, generator) per program before the generation is cut off; part of the input
WORK_BUDGET = {'quick': 40000, 'thorough': 150000}


class BudgetExceeded(BaseException):
    pass


def generator_inputs(tier, seed):
    for lang, seeds in GEN_SEEDS[tier].items():
        for i, s in enumerate(seeds):
            dis = DIS_MENU[i % 3] if i >= 3 else DIS_MENU[0]
            yield dict(kind='generator', language=lang, seed=s, dis=list(dis), budget=WORK_BUDGET[tier])
    extra = 2 if tier == 'quick' else 12
    rnd = _r.Random(seed)
    for i in range(extra):
        yield dict(kind='generator', language=['kotlin', 'java', 'scala'][i % 3], seed=1000 + rnd.randrange(100000),
                   dis=list(DIS_MENU[i % 3]), budget=WORK_BUDGET[tier])


def run_generator(E, chk, inp):
    """generate one program (and run the type-overwriting mutation on it) with the wrappers installed.  RNG, word pool,
    cfg switches and the node-hash counter are reset first, which makes the program a function of (language, seed,
    switches) alone.  A deterministic work guard (objects deep-copied on the generator path) cuts off the rare programs
    whose generation takes minutes."""
    import copy
    import importlib
    gen = importlib.import_module('src.generators.generator')
    E.cfg.dis.use_site_variance, E.cfg.dis.use_site_contravariance = inp['dis']
    E.utils.random.r.seed(inp['seed'])
    E.utils.random.reset_word_pool()
    reset_hash_counter()
    chk.current = inp
    chk.ref = Ref(E)                 # class names are per program
    old = sys.getrecursionlimit()
    sys.setrecursionlimit(max(old, 3000))
    work = [0]
    budget = inp.get('budget', WORK_BUDGET['thorough'])
    real_dc = copy.deepcopy

    def dc(x, memo=None):
        memo = {} if memo is None else memo
        r = real_dc(x, memo)
        work[0] += len(memo)
        if work[0] > budget:
            raise BudgetExceeded()
        return r
    patched = [E.tp, E.ast, gen]          # every module of the generator path that imports deepcopy by name
    for m in patched:
        m.deepcopy = dc
    chk.work = work
    try:
        def go():
            p = gen.Generator(language=inp['language']).generate()
            tov = importlib.import_module('src.transformations.type_overwriting')
            t = tov.TypeOverwriting(p, inp['language'], None, {})
            t.transform()
        try:
            return chk.guarded(go)
        except BudgetExceeded:
            chk.depth = 0
            chk.cut_off += 1
            return False
    finally:
        for m in patched:
            m.deepcopy = real_dc
        sys.setrecursionlimit(old)
        E.cfg.dis.use_site_variance, E.cfg.dis.use_site_contravariance = False, False


# ----------------------------------------------------------------------------------------------------------------------
# driver

RULE = (
    'Run-time contract of the C08 statement on the real instantiate_type_constructor / instantiate_parameterized_function / '
    '_compute_type_variable_assignments; every call is checked through wrappers, nested instantiations included. '
    'SYNTHETIC: all declaration shapes with <= 3 type parameters (+4 four-parameter chains); bounds: none / plain class / '
    'builtin / ground parameterized / enclosing-scope variable / an earlier parameter bare or inside Foo<.>, Cov<out .>, '
    'Contra<in .>, Pair<.,String>, Foo<Foo<.>>, Pair<T1,T2> (backward references only; forward / F-bounded references are '
    'outside this bound); declared variance: all invariant or one parameter out/in; 6 pools (class declarations incl. '
    'abstract / interface / generic ones, Kotlin and Java builtins incl. primitives, a type-variable-only pool, a '
    'Generator.get_types-like pool with bare constructors); pre-assignments: none, {}, every single request out of 18 '
    'values '
    '(plain, parameterized, out/in projections, type variables, Nothing), pairs of requests, requests for enclosing-scope '
    'variables (a bare enclosing-scope bound is always pre-assigned: precondition of the helpers); variance maps None, {}, '
    'all-in, all-out, all-off, all-on, first-on, last-off; options enable_pecs / disable_variance_functions / '
    'disable_variance on constructors named Con, Function<n>, Array; the three cfg.dis settings; RNG seeded per call by '
    'utils.random.r.seed(k). quick = a fixed stratified subsample of this product (strides in SIZES) + 4000 '
    'VERIF_SEED-random points, thorough = denser strides + 60000 random points. '
    'GENERATOR: every call made while generating and type-overwriting the programs of the fixed (language, seed, cfg.dis) '
    'list (+ VERIF_SEED-random seeds); a deterministic work guard (%r objects '
    'deep-copied by the generator path) cuts off the rare very long generations (counted). '
    'ORACLE: specs/inst_ref.py Ref.sub, a declarative relation read from the declarations and extended to type variables '
    '(X <: T iff X == T or bound(X) <: T); never the repository\'s is_subtype / == / substitution. A projection argument '
    '(out and in alike) is judged by its projected type. Where a bound mentions a parameter whose argument is a projection '
    'the statement does not fix the meaning of the substituted bound: structural, capture (for-all) and variance-free '
    'readings are evaluated side by side, a result is a violation only if it fails under all of them (`ambiguous` counts '
    'the checks on which they disagree). A projection that a parameter inherits from the parameter it is bare-bounded by, '
    'or from the caller\'s own request, is attributed to its origin. (bound)/(kept) failures are violations only if the '
    'caller\'s requests are consistent, i.e. a completion from the pool (or forced by the requests) exists that passes '
    'under every reading (exhaustive search); otherwise the call counts as out_of_domain. Exceptions of the real code '
    'produce no instantiation and are listed under `exceptions` (C18 territory), not judged here. Check names carry the '
    'input class of the failure (bound/<requested|derived|chosen>[+req|+proj], kept/<plain|projection>-request, '
    'variance:<caller-choice|declared|switch|in-bound/<unbounded|var-bound|class-bound>>, arity, no-primitive, '
    'no-bare-constructor). NON-TRIVIAL input: the call returned, is not out_of_domain and has a bounded or variant '
    'parameter, a request or a non-None variance map; distinct by (entry point, declaration, requests, effective variance '
    'map, switches, pool).' % WORK_BUDGET)


def _partial(chk, counts, first, seconds):
    return dict(evaluations=chk.evaluations, nontrivial=chk.nontrivial, samples=chk.samples, violations=chk.violations,
                first=first, counts=counts, calls=chk.calls_by_api, out_of_domain=chk.out_of_domain,
                undecided=chk.undecided, ambiguous=chk.ambiguous, cut_off=chk.cut_off, stats=chk.stats,
                exceptions=chk.exceptions, seconds=seconds)


def _work(task):
    """evaluate the synthetic inputs and the generator programs with index = part (mod parts)"""
    tier, seed, stop_first, only, part, parts = task
    E = env()
    chk = Checker(E)
    chk.install()
    counts = {'synthetic': 0, 'generator_programs': 0}
    first = {}                        # check name -> global index of the input on which it was first seen
    t0 = time.time()
    t1 = t0

    def note(idx):
        if len(first) != len(chk.violations):
            for k in chk.violations:
                first.setdefault(k, idx)
            return stop_first
        return False
    try:
        stop = False
        if only in (None, 'synthetic'):
            worlds = {'kotlin': World(E, 'kotlin'), 'java': World(E, 'java')}
            for idx, inp in enumerate(synthetic_inputs(tier, seed)):
                if idx % parts != part:
                    continue
                counts['synthetic'] += 1
                if len(chk.ref._sub) > 200000:
                    chk.ref._sub.clear()
                run_input(E, chk, worlds, inp)
                if note(idx):
                    stop = True
                    break
        t1 = time.time()
        if only in (None, 'generator') and not stop:
            for idx, inp in enumerate(generator_inputs(tier, seed)):
                if idx % parts != part:
                    continue
                counts['generator_programs'] += 1
                run_generator(E, chk, inp)
                if note(10 ** 9 + idx):
                    break
    finally:
        chk.uninstall()
    return _partial(chk, counts, first, (t1 - t0, time.time() - t1))


def run(tier, seed, stop_first=False, only=None, workers=None):
    """The input lists (synthetic inputs, generator programs) are dealt round-robin to `workers` forked processes
    (VERIF_WORKERS; default 4 for quick, 12 for thorough, at most 16; 1 = no fork).  Inputs are independent of each
    other (RNG, cfg switches and the node-hash counter are reset per input), so the merged result does not depend on the
    number of workers."""
    env()
    if workers is None:
        workers = max(1, min(16, int(os.environ.get('VERIF_WORKERS', '4' if tier == 'quick' else '12'))))
    tasks = [(tier, seed, stop_first, only, k, workers) for k in range(workers)]
    t0 = time.time()
    if workers == 1:
        parts = [_work(tasks[0])]
    else:
        import multiprocessing
        pool = multiprocessing.get_context('fork').Pool(workers)
        try:
            parts = pool.map(_work, tasks, chunksize=1)
        finally:
            pool.terminate()
            pool.join()
    nontrivial = set()
    viol = {}
    exceptions = {}
    tot = dict(evaluations=0, out_of_domain=0, undecided=0, ambiguous=0, cut_off=0)
    counts = {'synthetic': 0, 'generator_programs': 0}
    calls = {'itc': 0, 'ipf': 0, 'ctva': 0}
    stats = {}
    cpu = {'synthetic': 0.0, 'generator': 0.0}
    for p in parts:
        nontrivial |= p['nontrivial']
        for k in tot:
            tot[k] += p[k]
        for k, v in p['counts'].items():
            counts[k] += v
        for k, v in p['calls'].items():
            calls[k] += v
        for k, v in p['stats'].items():
            stats[k] = stats.get(k, 0) + v
        for k, v in p['violations'].items():
            if k not in viol or p['first'][k] < viol[k][0]:
                viol[k] = (p['first'][k], v)
        for k, v in p['exceptions'].items():
            e = exceptions.setdefault(k, dict(count=0, message=v['message'], first_input=v['first_input']))
            e['count'] += v['count']
        cpu['synthetic'] += p['seconds'][0]
        cpu['generator'] += p['seconds'][1]
    samples = sorted((x for p in parts for x in p['samples']), key=repr)[:4]
    return dict(evaluations=tot['evaluations'], distinct_nontrivial=len(nontrivial), rule=RULE, samples=samples,
                violations=[v for _, v in sorted(viol.values(), key=lambda x: x[0])], exhaustive=False,
                inputs=counts, calls_by_entry_point=calls, out_of_domain=tot['out_of_domain'],
                undecided=tot['undecided'], ambiguous=tot['ambiguous'], generator_programs_cut_off=tot['cut_off'],
                stats=stats, exceptions={k: exceptions[k] for k in sorted(exceptions)},
                generator_seeds={k: len(v) for k, v in GEN_SEEDS[tier].items()}, workers=workers,
                seconds=dict(wall=round(time.time() - t0, 1), synthetic_sum=round(cpu['synthetic'], 1),
                             generator_sum=round(cpu['generator'], 1)))


def replay(fi):
    """re-execute the recorded top-level input on the current tree; True iff no violation of the recorded check"""
    E = env()
    inp = fi.get('input', fi)
    chk = Checker(E)
    chk.install()
    try:
        if inp.get('kind') == 'generator':
            run_generator(E, chk, inp)
        else:
            worlds = {'kotlin': World(E, 'kotlin'), 'java': World(E, 'java')}
            run_input(E, chk, worlds, inp)
    finally:
        chk.uninstall()
    want = fi.get('check') if 'input' in fi else None
    bad = [v for k, v in chk.violations.items() if want in (None, k)]
    for v in bad[:3]:
        print('%s %s: %s ; expected %s ; call %s' % (v['check'], v['function'], v.get('actual'), v.get('expected'),
                                                    v.get('call')))
    return not bad
