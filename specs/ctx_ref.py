"""Executable reference model of the symbol table (C16), written from the property statement:
a scoped map with insertion order per namespace, shadowing along the path, reachability through declared
functions/classes for global queries, and a reverse index."""
from collections import OrderedDict

KINDS = ['types', 'funcs', 'lambdas', 'vars', 'classes', 'decls']


class Ref:
    def __init__(s):
        s.ctx = {}
        s.rev = {}

    def _add(s, ns, k, name, v):
        if ns not in s.ctx:
            s.ctx[ns] = {kk: OrderedDict() for kk in KINDS}
        s.ctx[ns][k][name] = v
        s.rev[id(v)] = ns

    def _rem(s, ns, k, name):
        if ns in s.ctx and name in s.ctx[ns][k]:
            v = s.ctx[ns][k].pop(name)
            s.rev.pop(id(v), None)

    def add(s, kind, ns, name, v):
        s._add(ns, kind, name, v)
        if kind in ('funcs', 'vars', 'classes'):
            s._add(ns, 'decls', name, v)

    def rem(s, kind, ns, name):
        s._rem(ns, kind, name)
        if kind in ('funcs', 'vars', 'classes'):
            s._rem(ns, 'decls', name)

    def current(s, ns, kind, none):
        d = s.ctx.get(ns, {}).get(kind, {})
        return [(k, v) for k, v in d.items() if none or v is not None]

    def path(s, ns, kind, none):
        res = {}
        for i in range(1, len(ns) + 1):
            p = ns[:i]
            for k, v in s.ctx.get(p, {}).get(kind, {}).items():
                res[k] = v   # inner shadows outer
        return {k: v for k, v in res.items() if none or v is not None}

    def reach(s, root):
        seen = [root]
        st = [root]
        while st:
            p = st.pop()
            for kind in ('funcs', 'classes'):
                for name in s.ctx.get(p, {}).get(kind, {}):
                    q = p + (name,)
                    if q not in seen:
                        seen.append(q)
                        st.append(q)
        return seen

    def glob(s, ns, kind):
        names = {}
        for p in s.reach((ns[0],)):
            for k, v in s.ctx.get(p, {}).get(kind, {}).items():
                names.setdefault(k, []).append(v)
        return names

    def lookup(s, ns, name):
        while len(ns):
            v = s.ctx.get(ns, {}).get('decls', {}).get(name)
            if v:
                return ns, v
            ns = ns[:-1]
        return None


def reach_real(s, root):
    seen = [root]
    st = [root]
    while st:
        p = st.pop()
        for kind in ('funcs', 'classes'):
            for name, v in s.ctx.get(p, {}).get(kind, {}).items():
                q = p + (name,)
                if v is not None and q not in seen:
                    seen.append(q)
                    st.append(q)
    return seen


def ns_decls(s, ns, name, kind, glob):
    root = (ns[0],) if glob else ns
    out = []
    for p in reach_real(s, root):
        d = s.ctx.get(p, {}).get(kind, {})
        if name in d:
            out.append((p + (name,), d[name]))
    return out
