"""Executable reference for C09 (subtype search / irrelevant-type search), written from the property statement:

  "Every type returned by the subtype search for a type T is a usable type (never an uninstantiated generic class when
   concrete types are requested) and is a subtype of T in the declarative relation; T itself is included exactly when
   asked for.  Every type returned by the irrelevant-type search for T is neither a subtype nor a supertype of T (for
   a type variable: of its bound), and the search returns nothing for the top type."

The oracle is an independent declarative subtype relation (nominal class table keyed by class names + Kotlin/Java
type-argument containment + type-variable rule  X <: T  iff  X = T or bound(X) <: T) evaluated on *normalised terms*;
it never calls the repository's is_subtype / get_supertypes / __eq__.

Driver (bounded stand-in, never counted as proof):
  part A  hand-written class tables x query types x flag combinations, ALL random paths inside the search enumerated
          depth-first (utils.random.choice is replaced by a path enumerator); capped queries are topped up with
          random paths
  part B  random small class tables (VERIF_SEED) with random well-formed queries, random paths
  part C  every query the generator and the type-overwriting mutation issue on a fixed seed list (x 4 languages),
          each query re-evaluated with further random states

run(tier, seed, stop_first=False) / replay(failing_input) are the interface used by props/C09_bounded.py.
"""
import base64
import hashlib
import os
import pickle
import random as _pyrandom
import sys
import time


class Undecided(Exception):
    """the declarative relation is not defined on this input (outside the domain of the statement)"""


class M:
    """modules of the tree under verification (bound by bind())"""
    tp = ast = tu = utils = None
    factories = None


def bind():
    import importlib
    M.tp = importlib.import_module('src.ir.types')
    M.ast = importlib.import_module('src.ir.ast')
    M.tu = importlib.import_module('src.ir.type_utils')
    M.utils = importlib.import_module('src.utils')
    M.factories = importlib.import_module('src.ir').BUILTIN_FACTORIES
    M.orig = dict(find_subtypes=M.tu.find_subtypes, find_irrelevant_type=M.tu.find_irrelevant_type)
    install_chooser()


# =====================================================================================================================
# 1. terms
# =====================================================================================================================
# ('N',)                      bottom
# ('B', class name, primitive) built-in type
# ('S', name)                 non-generic class
# ('P', key, (args...))       instantiation of the generic class `key`
# ('C', key)                  bare (uninstantiated) generic class
# ('V', name, bound|None)     type variable
# ('W', 1|2, term)            use-site projection out / in ;  ('*',) star projection

def ckey(con):
    cn = type(con).__name__
    return con.name if cn == 'TypeConstructor' else '%s#%s' % (con.name, cn)


def norm(t):
    tp = M.tp
    if isinstance(t, M.ast.ClassDeclaration):
        t = t.get_type()
    if isinstance(t, tp.TypeConstructor):
        return ('C', ckey(t))
    if isinstance(t, tp.ParameterizedType):
        return ('P', ckey(t.t_constructor), tuple(norm(a) for a in t.type_args))
    if isinstance(t, tp.WildCardType):
        if t.bound is None:
            return ('*',)
        return ('W', t.variance.value, norm(t.bound))
    if isinstance(t, tp.TypeParameter):
        return ('V', t.name, None if t.bound is None else norm(t.bound))
    if type(t).__name__ == 'NothingType':
        return ('N',)
    if isinstance(t, tp.Builtin):
        return ('B', type(t).__name__, bool(getattr(t, 'primitive', False)))
    if isinstance(t, tp.SimpleClassifier):
        return ('S', t.name)
    raise Undecided('no term for %s' % type(t).__name__)


def show(n):
    k = n[0]
    if k == 'N':
        return 'Nothing'
    if k == 'B':
        return n[1][:-4].lower() if n[2] else n[1][:-4]
    if k == 'S':
        return n[1]
    if k == 'P':
        return '%s<%s>' % (n[1].split('#')[0], ', '.join(show(a) for a in n[2]))
    if k == 'C':
        return '%s<.>' % n[1].split('#')[0]
    if k == 'V':
        return n[1] if n[2] is None else '%s<:%s' % (n[1], show(n[2]))
    if k == '*':
        return '*'
    return '%s %s' % ({1: 'out', 2: 'in', 0: 'inv'}[n[1]], show(n[2]))


def subst(n, m):
    k = n[0]
    if k == 'V':
        return m.get(n[1], n)
    if k == 'P':
        return ('P', n[1], tuple(subst(a, m) for a in n[2]))
    if k == 'W':
        r = subst(n[2], m)
        if r[0] == 'W':
            if r[1] == n[1]:
                return r
            raise Undecided('projection of an opposite projection')
        if r[0] == '*':
            raise Undecided('projection of a star projection')
        return ('W', n[1], r)
    return n


def occurs_only_as_direct_argument(s, names):
    """every occurrence of a variable of `names` in the declared supertype s is a direct argument of s (possibly under a
    projection)"""
    def occurs(n):
        k = n[0]
        if k == 'V':
            return n[1] in names
        if k == 'P':
            return any(occurs(a) for a in n[2])
        if k == 'W':
            return occurs(n[2])
        return False
    if s[0] != 'P':
        return not occurs(s)
    for a in s[2]:
        if a[0] == 'V' or (a[0] == 'W' and a[2][0] == 'V'):
            continue
        if occurs(a):
            return False
    return True


def walk(n):
    yield n
    if n[0] == 'P':
        for a in n[2]:
            yield from walk(a)
    elif n[0] == 'W':
        yield from walk(n[2])
    elif n[0] == 'V' and n[2] is not None:
        pass  # the bound of a variable is a declaration, not a part of the type


# =====================================================================================================================
# 2. class table + declarative relation
# =====================================================================================================================
_INPROGRESS = object()


class Table:
    """class table read off the declarations (names, type parameters with variance and bound, declared supertypes) of the
    type list handed to the search; levels: 2 = a class of the list, 1 = the class of an instantiation in the list,
    0 = met elsewhere (query, result, nested)"""

    def __init__(self, types, top):
        self.top = top
        self.decl = {}
        self.level = {}
        self.ambiguous = set()
        self._keep = []
        self._seen = set()
        self._memo = {}
        for t in types:
            self.learn(t, 2)

    # ---- declarations
    def _reg(self, key, d, level):
        old = self.decl.get(key)
        if old is None or level > self.level[key]:
            self.decl[key] = d
            self.level[key] = level
            self._memo.clear()
        elif old != d and level == self.level[key]:
            self.ambiguous.add(key)

    def learn(self, t, level=0):
        tp = M.tp
        if t is None:
            return
        if isinstance(t, M.ast.ClassDeclaration):
            t = t.get_type()
        if (id(t), level) in self._seen:
            return
        self._seen.add((id(t), level))
        self._keep.append(t)
        if isinstance(t, tp.TypeConstructor):
            params = tuple((p.name, p.variance.value, None if p.bound is None else norm(p.bound))
                           for p in t.type_parameters)
            self._reg(('G', ckey(t)), ('G', params, tuple(norm(s) for s in t.supertypes)), level)
            for p in t.type_parameters:
                self.learn(p.bound)
            for s in t.supertypes:
                self.learn(s)
        elif isinstance(t, tp.ParameterizedType):
            self.learn(t.t_constructor, min(level, 1))
            for a in t.type_args:
                self.learn(a)
        elif isinstance(t, (tp.WildCardType, tp.TypeParameter)):
            self.learn(t.bound)
        elif type(t).__name__ == 'NothingType':
            pass
        elif isinstance(t, (tp.Builtin, tp.SimpleClassifier)):
            self._reg(norm(t), ('S', tuple(norm(s) for s in t.supertypes)), level)
            for s in t.supertypes:
                self.learn(s)

    def params(self, key):
        if ('G', key) in self.ambiguous:
            raise Undecided('two different declarations named %s' % key)
        d = self.decl.get(('G', key))
        if d is None:
            raise Undecided('no declaration of generic class %s' % key)
        return d[1]

    def supers(self, n):
        k = n[0]
        if k in ('S', 'B'):
            if n in self.ambiguous:
                raise Undecided('two different declarations named %s' % (n[1],))
            d = self.decl.get(n)
            if d is None:
                raise Undecided('no declaration of %s' % (n[1],))
            return list(d[1])
        if k == 'P':
            params = self.params(n[1])
            d = self.decl[('G', n[1])]
            if len(params) != len(n[2]):
                raise Undecided('arity')
            m = {p[0]: a for p, a in zip(params, n[2])}
            projected = {p[0] for p, a in zip(params, n[2]) if a[0] in ('W', '*')}
            out = []
            for s in d[2]:
                if projected and not occurs_only_as_direct_argument(s, projected):
                    raise Undecided('supertype of a projected type needs capture conversion')
                out.append(subst(s, m))
            return out
        return []

    # ---- Sub
    def sub(self, s, t):
        key = (s, t)
        v = self._memo.get(key)
        if v is _INPROGRESS:
            return False            # least fixed point
        if v is not None:
            if isinstance(v, Undecided):
                raise v
            return v
        self._memo[key] = _INPROGRESS
        try:
            r = self._sub(s, t)
        except Undecided as e:
            self._memo[key] = e
            raise
        self._memo[key] = r
        return r

    def _sub(self, s, t):
        if s == t:
            return True                                             # refl
        for x in (s, t):
            if x[0] in ('W', '*', 'C'):
                raise Undecided('%s is not a type' % show(x))
        if s == ('N',):
            return True                                             # bottom
        if t == ('N',):
            return False
        if (s[0] == 'B' and s[2]) or (t[0] == 'B' and t[2]):
            return False                                            # primitive types: related to themselves only
        if t == self.top:
            return True                                             # top
        if s[0] == 'V':
            return s[2] is not None and self.sub(s[2], t)           # variable: through its bound
        if t[0] == 'V':
            return False
        pending = None
        for u in self.supers(s):                                    # declared supertype + transitivity
            try:
                if self.sub(u, t):
                    return True
            except Undecided as e:
                pending = e
        if s[0] == 'P' and t[0] == 'P' and s[1] == t[1]:            # same generic class: containment per argument
            params = self.params(s[1])
            if len(s[2]) != len(params) or len(t[2]) != len(params):
                raise Undecided('arity')
            allc = True
            for a, b, p in zip(s[2], t[2], params):
                try:
                    if not self.contained(a, b, p):
                        allc = False
                        break
                except Undecided as e:
                    pending = pending or e
                    allc = None
            if allc:
                return True
            if allc is None and pending:
                raise pending
            if allc is False:
                pass
        if pending:
            raise pending
        return False

    def contained(self, a, b, p):
        v = p[1]
        if b == ('*',):
            return True
        if b[0] == 'W' and b[1] == 1 and b[2] == self.top and a[0] != '*':
            return True
        if a == ('*',):
            if b[0] == 'W' and b[1] == 1:
                if b[2] == self.top:
                    return True
                if p[2] is None:
                    return False
                raise Undecided('star projection against out-projection under a declared bound')
            return False
        va, xa = self._proj(a, v)
        vb, xb = self._proj(b, v)
        if vb == 0:
            return va == 0 and xa == xb
        if vb == 1:
            return va in (0, 1) and self.sub(xa, xb)
        return va in (0, 2) and self.sub(xb, xa)

    @staticmethod
    def _proj(a, v):
        if a[0] == 'W':
            if a[1] == 0:
                raise Undecided('invariant wildcard with a bound')
            if v != 0 and a[1] != v:
                raise Undecided('projection conflicting with the declared variance')
            return a[1], a[2]
        return v, a

    # ---- a bare generic class as a type: its instantiation with its own (renamed) parameters
    def generic_instance(self, c):
        params = self.params(c[1])
        ren = {p[0]: None for p in params}
        for p in params:
            ren[p[0]] = ('V', '$%s.%s' % (c[1], p[0]), None)
        # bounds may mention earlier parameters
        for p in params:
            if p[2] is not None:
                ren[p[0]] = ('V', '$%s.%s' % (c[1], p[0]), subst(p[2], {k: v for k, v in ren.items() if v}))
        return ('P', c[1], tuple(ren[p[0]] for p in params))

    # ---- well-formedness pieces of "usable"
    def arity_errors(self, n):
        for x in walk(n):
            if x[0] == 'P':
                try:
                    if len(self.params(x[1])) != len(x[2]):
                        yield x
                except Undecided:
                    pass

    def bound_errors(self, n):
        """type arguments (for an out-projection: its bound) that are not below the parameter's declared bound after
        substituting the other arguments; in-/star projections, and bounds that mention a parameter instantiated with
        a projection (capture conversion), are skipped"""
        for x in walk(n):
            if x[0] != 'P':
                continue
            try:
                params = self.params(x[1])
            except Undecided:
                continue
            if len(params) != len(x[2]):
                continue
            m = {p[0]: a for p, a in zip(params, x[2])}
            projected = {k for k, a in m.items() if a[0] in ('W', '*')}
            for p, a in zip(params, x[2]):
                if p[2] is None or a[0] == '*' or (a[0] == 'W' and a[1] != 1):
                    continue
                arg = a[2] if a[0] == 'W' else a
                if mentions(p[2], projected):
                    continue
                try:
                    b = subst(p[2], m)
                    if not self.sub(arg, b):
                        yield (x, p[0], arg, b)
                except Undecided:
                    continue


def mentions(n, names):
    k = n[0]
    if k == 'V':
        return n[1] in names
    if k == 'P':
        return any(mentions(a, names) for a in n[2])
    if k == 'W':
        return mentions(n[2], names)
    return False


def bare_generics(n):
    """(depth, term) of every uninstantiated generic class inside n"""
    def go(x, d):
        if x[0] == 'C':
            yield d, x
        elif x[0] == 'P':
            for a in x[2]:
                yield from go(a, d + 1)
        elif x[0] == 'W':
            yield from go(x[2], d)
    return list(go(n, 0))


# =====================================================================================================================
# 3. the contract of the two searches, evaluated on one result
# =====================================================================================================================
def qkind(n):
    return {'S': 'class', 'B': 'builtin', 'P': 'parameterized', 'V': 'typevar', 'N': 'bottom', 'C': 'generic'}.get(n[0], 'other')


def check_subtypes(table, T, result, include_self, concrete_only):
    """-> (list of (check name, detail dict), undecided count)"""
    bad = []
    und = 0
    table.learn(T)
    nT = norm(T)
    members = []
    for r in result:
        table.learn(r)
        members.append(norm(r))
    # T itself is included exactly when asked for
    if (nT in members) != bool(include_self):
        bad.append(('subtypes:self:%s' % ('missing' if include_self else 'not-asked-for'),
                    dict(expected='T %s the result' % ('in' if include_self else 'not in'), T=show(nT))))
    for r, n in zip(result, members):
        # usable
        bg = bare_generics(n)
        if any(d == 0 for d, _ in bg) and concrete_only:
            bad.append(('subtypes:usable:bare-generic', dict(returned=show(n), T=show(nT))))
            continue
        if any(d > 0 for d, _ in bg):
            bad.append(('subtypes:usable:bare-generic-argument', dict(returned=show(n), T=show(nT))))
            continue
        if list(table.arity_errors(n)):
            bad.append(('subtypes:usable:arity', dict(returned=show(n), T=show(nT))))
            continue
        # subtype of T in the declarative relation
        try:
            s = table.generic_instance(n) if n[0] == 'C' else n
            ok = table.sub(s, nT)
        except Undecided:
            und += 1
            continue
        if not ok:
            bad.append(('subtypes:sound:%s' % qkind(nT), dict(returned=show(n), T=show(nT),
                                                              expected='a subtype of T', actual='not a subtype')))
            continue
        be = list(table.bound_errors(n))
        if be and not list(table.bound_errors(nT)):
            x, pn, arg, b = be[0]
            bad.append(('subtypes:usable:argument-outside-bound',
                        dict(returned=show(n), T=show(nT), parameter=pn, argument=show(arg), bound=show(b))))
    return bad, und


def check_irrelevant(table, T, r):
    bad = []
    table.learn(T)
    nT = norm(T)
    if nT == table.top:
        if r is not None:
            table.learn(r)
            bad.append(('irrelevant:top-returns-nothing', dict(T=show(nT), returned=show(norm(r)), expected='None')))
        return bad, 0
    if r is None:
        return bad, 0
    table.learn(r)
    n = norm(r)
    ref = nT
    kind = qkind(nT)
    if nT[0] == 'V' and nT[2] is not None and nT[2] != table.top:
        ref = nT[2]                 # for a type variable: its bound
        kind = 'typevar-bound'
    try:
        if bare_generics(n):
            raise Undecided('bare generic class returned')
        below = table.sub(n, ref)
        above = table.sub(ref, n)
    except Undecided:
        return bad, 1
    d = dict(T=show(nT), returned=show(n), against=show(ref))
    if n == ref:
        bad.append(('irrelevant:same-type:%s' % kind, dict(d, expected='a type unrelated to T', actual='T itself')))
    elif below:
        bad.append(('irrelevant:subtype-returned:%s' % kind, dict(d, expected='not a subtype', actual='subtype')))
    elif above:
        bad.append(('irrelevant:supertype-returned:%s' % kind, dict(d, expected='not a supertype', actual='supertype')))
    return bad, 0
