"""Executable reference for C09 (subtype search / irrelevant-type search), written from the property statement:

  "Every type returned by the subtype search for a type T is a usable type (never an uninstantiated generic class when
   concrete types are requested) and is a subtype of T in the declarative relation; T itself is included exactly when
   asked for.  Every type returned by the irrelevant-type search for T is neither a subtype nor a supertype of T (for
   a type variable: of its bound), and the search returns nothing for the top type."

The oracle is an independent declarative subtype relation (nominal class table keyed by class names + Kotlin/Java
type-argument containment + type-variable rule  X <: T  iff  X = T or bound(X) <: T) evaluated on *normalised terms*;
it never calls the repository's is_subtype / get_supertypes / __eq__.

Driver (bounded stand-in, never counted as proof):
  part A  hand-written class tables x query types x flag combinations, ALL random paths inside the search enumerated
          depth-first (utils.random.choice is replaced by a path enumerator); capped queries are topped up with
          random paths
  part B  random small class tables (a fixed list of table seeds) with random well-formed queries, random paths
  part C  every query the generator and the type-overwriting mutation issue on a fixed seed list (x 4 languages),
          each query re-evaluated with further random states

run(tier, seed, stop_first=False) / replay(failing_input) are the interface used by props/C09_bounded.py.
"""
import base64
import os
import pickle
import random as _pyrandom
import sys
import time


class Undecided(Exception):
    """the declarative relation is not defined on this input (outside the domain of the statement)"""


class M:
    """modules of the tree under verification (bound by bind())"""
    tp = ast = tu = utils = None
    factories = None


_NODE_COUNTER = [0]


def prepare(seed_import=12345):
    """to be called after src.* was purged from sys.modules and before anything of src is imported: makes runs
    reproducible (word pool sampled with the global RNG at import of src.utils; identity-hashed IR nodes)"""
    import importlib
    _pyrandom.seed(seed_import)
    if not sys.argv or not sys.argv[0]:
        sys.argv = ['c09']
    node = importlib.import_module('src.ir.node')

    def _hash(self):
        d = self.__dict__
        try:
            return d['_vh']
        except KeyError:
            _NODE_COUNTER[0] += 1
            d['_vh'] = _NODE_COUNTER[0]
            return _NODE_COUNTER[0]
    node.Node.__hash__ = _hash      # identity __eq__ untouched: only the iteration order of node sets is fixed
    bind()


def bind():
    import importlib
    M.tp = importlib.import_module('src.ir.types')
    M.ast = importlib.import_module('src.ir.ast')
    M.tu = importlib.import_module('src.ir.type_utils')
    M.utils = importlib.import_module('src.utils')
    M.factories = importlib.import_module('src.ir').BUILTIN_FACTORIES
    M.orig = dict(find_subtypes=M.tu.find_subtypes, find_irrelevant_type=M.tu.find_irrelevant_type)
    install_chooser()


# =====================================================================================================================
# 1. terms
# =====================================================================================================================
# ('N',)                      bottom
# ('B', class name, primitive) built-in type
# ('S', name)                 non-generic class
# ('P', key, (args...))       instantiation of the generic class `key`
# ('C', key)                  bare (uninstantiated) generic class
# ('V', name, bound|None)     type variable
# ('W', 1|2, term)            use-site projection out / in ;  ('*',) star projection

def ckey(con):
    cn = type(con).__name__
    return con.name if cn == 'TypeConstructor' else '%s#%s' % (con.name, cn)


def norm(t):
    tp = M.tp
    if isinstance(t, M.ast.ClassDeclaration):
        t = t.get_type()
    if isinstance(t, tp.TypeConstructor):
        return ('C', ckey(t))
    if isinstance(t, tp.ParameterizedType):
        return ('P', ckey(t.t_constructor), tuple(norm(a) for a in t.type_args))
    if isinstance(t, tp.WildCardType):
        if t.bound is None:
            return ('*',)
        return ('W', t.variance.value, norm(t.bound))
    if isinstance(t, tp.TypeParameter):
        return ('V', t.name, None if t.bound is None else norm(t.bound))
    if type(t).__name__ == 'NothingType':
        return ('N',)
    if isinstance(t, tp.Builtin):
        return ('B', type(t).__name__, bool(getattr(t, 'primitive', False)))
    if isinstance(t, tp.SimpleClassifier):
        return ('S', t.name)
    raise Undecided('no term for %s' % type(t).__name__)


def show(n):
    k = n[0]
    if k == 'N':
        return 'Nothing'
    if k == 'B':
        return n[1][:-4].lower() if n[2] else n[1][:-4]
    if k == 'S':
        return n[1]
    if k == 'P':
        return '%s<%s>' % (n[1].split('#')[0], ', '.join(show(a) for a in n[2]))
    if k == 'C':
        return '%s<.>' % n[1].split('#')[0]
    if k == 'V':
        return n[1] if n[2] is None else '%s<:%s' % (n[1], show(n[2]))
    if k == '*':
        return '*'
    return '%s %s' % ({1: 'out', 2: 'in', 0: 'inv'}[n[1]], show(n[2]))


def subst(n, m):
    k = n[0]
    if k == 'V':
        return m.get(n[1], n)
    if k == 'P':
        return ('P', n[1], tuple(subst(a, m) for a in n[2]))
    if k == 'W':
        r = subst(n[2], m)
        if r[0] == 'W':
            if r[1] == n[1]:
                return r
            raise Undecided('projection of an opposite projection')
        if r[0] == '*':
            raise Undecided('projection of a star projection')
        return ('W', n[1], r)
    return n


def occurs_only_as_direct_argument(s, names):
    """every occurrence of a variable of `names` in the declared supertype s is a direct argument of s (possibly under a
    projection)"""
    def occurs(n):
        k = n[0]
        if k == 'V':
            return n[1] in names
        if k == 'P':
            return any(occurs(a) for a in n[2])
        if k == 'W':
            return occurs(n[2])
        return False
    if s[0] != 'P':
        return not occurs(s)
    for a in s[2]:
        if a[0] == 'V' or (a[0] == 'W' and a[2][0] == 'V'):
            continue
        if occurs(a):
            return False
    return True


def walk(n):
    yield n
    if n[0] == 'P':
        for a in n[2]:
            yield from walk(a)
    elif n[0] == 'W':
        yield from walk(n[2])
    elif n[0] == 'V' and n[2] is not None:
        pass  # the bound of a variable is a declaration, not a part of the type


# =====================================================================================================================
# 2. class table + declarative relation
# =====================================================================================================================
_INPROGRESS = object()


class Table:
    """class table read off the declarations (names, type parameters with variance and bound, declared supertypes) of the
    type list handed to the search; levels: 2 = a class of the list, 1 = the class of an instantiation in the list,
    0 = met elsewhere (query, result, nested)"""

    def __init__(self, types, top):
        self.top = top
        self.decl = {}
        self.level = {}
        self.ambiguous = set()
        self._keep = []
        self._seen = set()
        self._memo = {}
        for t in types:
            self.learn(t, 2)

    # ---- declarations
    def _reg(self, key, d, level):
        old = self.decl.get(key)
        if old is None or level > self.level[key]:
            self.decl[key] = d
            self.level[key] = level
            self.ambiguous.discard(key)
            self._memo.clear()
        elif old != d and level == self.level[key]:
            self.ambiguous.add(key)

    def learn(self, t, level=0):
        tp = M.tp
        if t is None:
            return
        if isinstance(t, M.ast.ClassDeclaration):
            t = t.get_type()
        if (id(t), level) in self._seen:
            return
        self._seen.add((id(t), level))
        self._keep.append(t)
        if isinstance(t, tp.TypeConstructor):
            params = tuple((p.name, p.variance.value, None if p.bound is None else norm(p.bound))
                           for p in t.type_parameters)
            self._reg(('G', ckey(t)), ('G', params, tuple(norm(s) for s in t.supertypes)), level)
            for p in t.type_parameters:
                self.learn(p.bound)
            for s in t.supertypes:
                self.learn(s)
        elif isinstance(t, tp.ParameterizedType):
            self.learn(t.t_constructor, min(level, 1))
            for a in t.type_args:
                self.learn(a)
        elif isinstance(t, (tp.WildCardType, tp.TypeParameter)):
            self.learn(t.bound)
        elif type(t).__name__ == 'NothingType':
            pass
        elif isinstance(t, (tp.Builtin, tp.SimpleClassifier)):
            self._reg(norm(t), ('S', tuple(norm(s) for s in t.supertypes)), level)
            for s in t.supertypes:
                self.learn(s)

    def params(self, key):
        if ('G', key) in self.ambiguous:
            raise Undecided('two different declarations named %s' % key)
        d = self.decl.get(('G', key))
        if d is None:
            raise Undecided('no declaration of generic class %s' % key)
        return d[1]

    def supers(self, n):
        k = n[0]
        if k in ('S', 'B'):
            if n in self.ambiguous:
                raise Undecided('two different declarations named %s' % (n[1],))
            d = self.decl.get(n)
            if d is None:
                raise Undecided('no declaration of %s' % (n[1],))
            return list(d[1])
        if k == 'P':
            params = self.params(n[1])
            d = self.decl[('G', n[1])]
            if len(params) != len(n[2]):
                raise Undecided('arity')
            m = {p[0]: a for p, a in zip(params, n[2])}
            projected = {p[0] for p, a in zip(params, n[2]) if a[0] in ('W', '*')}
            out = []
            for s in d[2]:
                if projected and not occurs_only_as_direct_argument(s, projected):
                    raise Undecided('supertype of a projected type needs capture conversion')
                out.append(subst(s, m))
            return out
        return []

    # ---- Sub
    def sub(self, s, t):
        key = (s, t)
        v = self._memo.get(key)
        if v is _INPROGRESS:
            return False            # least fixed point
        if v is not None:
            if isinstance(v, Undecided):
                raise v
            return v
        self._memo[key] = _INPROGRESS
        try:
            r = self._sub(s, t)
        except Undecided as e:
            self._memo[key] = e
            raise
        self._memo[key] = r
        return r

    def _sub(self, s, t):
        if s == t:
            return True                                             # refl
        for x in (s, t):
            if x[0] in ('W', '*', 'C'):
                raise Undecided('%s is not a type' % show(x))
        if s == ('N',):
            return True                                             # bottom
        if t == ('N',):
            return False
        if s[0] == 'B' and t[0] == 'B' and s[1] == t[1]:
            # a primitive type and its boxed class: one type for the IR (==), two declarations (supertypes differ)
            raise Undecided('primitive type against its boxed class')
        if (s[0] == 'B' and s[2]) or (t[0] == 'B' and t[2]):
            if s[0] == 'V':
                return s[2] is not None and self.sub(s[2], t)
            return False                                            # primitive types: related to themselves only
        if t == self.top:
            return True                                             # top
        if s[0] == 'V':
            return s[2] is not None and self.sub(s[2], t)           # variable: through its bound
        if t[0] == 'V':
            return False
        pending = None
        for u in self.supers(s):                                    # declared supertype + transitivity
            try:
                if self.sub(u, t):
                    return True
            except Undecided as e:
                pending = e
        if s[0] == 'P' and t[0] == 'P' and s[1] == t[1]:            # same generic class: containment per argument
            params = self.params(s[1])
            if len(s[2]) != len(params) or len(t[2]) != len(params):
                raise Undecided('arity')
            allc = True
            for a, b, p in zip(s[2], t[2], params):
                try:
                    if not self.contained(a, b, p):
                        allc = False
                        break
                except Undecided as e:
                    pending = pending or e
                    allc = None
            if allc:
                return True
            if allc is None and pending:
                raise pending
            if allc is False:
                pass
        if pending:
            raise pending
        return False

    def contained(self, a, b, p):
        v = p[1]
        if b == ('*',):
            return True
        if b[0] == 'W' and b[1] == 1 and b[2] == self.top and a[0] != '*':
            return True
        if a == ('*',):
            if b[0] == 'W' and b[1] == 1:
                if b[2] == self.top:
                    return True
                if p[2] is None:
                    return False
                raise Undecided('star projection against out-projection under a declared bound')
            return False
        va, xa = self._proj(a, v)
        vb, xb = self._proj(b, v)
        if vb == 0:
            return va == 0 and xa == xb
        if vb == 1:
            return va in (0, 1) and self.sub(xa, xb)
        return va in (0, 2) and self.sub(xb, xa)

    @staticmethod
    def _proj(a, v):
        if a[0] == 'W':
            if a[1] == 0:
                raise Undecided('invariant wildcard with a bound')
            if v != 0 and a[1] != v:
                raise Undecided('projection conflicting with the declared variance')
            return a[1], a[2]
        return v, a

    # ---- a bare generic class as a type: its instantiation with its own (renamed) parameters
    def generic_instance(self, c):
        params = self.params(c[1])
        ren = {p[0]: None for p in params}
        for p in params:
            ren[p[0]] = ('V', '$%s.%s' % (c[1], p[0]), None)
        # bounds may mention earlier parameters
        for p in params:
            if p[2] is not None:
                ren[p[0]] = ('V', '$%s.%s' % (c[1], p[0]), subst(p[2], {k: v for k, v in ren.items() if v}))
        return ('P', c[1], tuple(ren[p[0]] for p in params))

    # ---- well-formedness pieces of "usable"
    def arity_errors(self, n):
        for x in walk(n):
            if x[0] == 'P':
                try:
                    if len(self.params(x[1])) != len(x[2]):
                        yield x
                except Undecided:
                    pass

    def bound_errors(self, n):
        """type arguments (for an out-projection: its bound) that are not below the parameter's declared bound after
        substituting the other arguments; in-/star projections, and bounds that mention a parameter instantiated with
        a projection (capture conversion), are skipped"""
        for x in walk(n):
            if x[0] != 'P':
                continue
            try:
                params = self.params(x[1])
            except Undecided:
                continue
            if len(params) != len(x[2]):
                continue
            m = {p[0]: a for p, a in zip(params, x[2])}
            projected = {k for k, a in m.items() if a[0] in ('W', '*')}
            for p, a in zip(params, x[2]):
                if p[2] is None or a[0] == '*' or (a[0] == 'W' and a[1] != 1):
                    continue
                arg = a[2] if a[0] == 'W' else a
                if mentions(p[2], projected):
                    continue
                try:
                    b = subst(p[2], m)
                    if not self.sub(arg, b):
                        yield (x, p[0], arg, b)
                except Undecided:
                    continue


def mentions(n, names):
    k = n[0]
    if k == 'V':
        return n[1] in names
    if k == 'P':
        return any(mentions(a, names) for a in n[2])
    if k == 'W':
        return mentions(n[2], names)
    return False


def bare_generics(n):
    """(depth, term) of every uninstantiated generic class inside n"""
    def go(x, d):
        if x[0] == 'C':
            yield d, x
        elif x[0] == 'P':
            for a in x[2]:
                yield from go(a, d + 1)
        elif x[0] == 'W':
            yield from go(x[2], d)
    return list(go(n, 0))


# =====================================================================================================================
# 3. the contract of the two searches, evaluated on one result
# =====================================================================================================================
def qkind(n):
    return {'S': 'class', 'B': 'builtin', 'P': 'parameterized', 'V': 'typevar', 'N': 'bottom', 'C': 'generic'}.get(n[0], 'other')


def shape(table, n):
    """statement-level shape of a query type, part of the check name so that different kinds of failure stay apart:
    use-site projections occurring in it, declared variance of its class, a parameter bounded by another parameter"""
    fs = set()
    for x in walk(n):
        if x[0] == 'W':
            fs.add('out' if x[1] == 1 else 'in')
        elif x[0] == '*':
            fs.add('star')
    if n[0] == 'P':
        try:
            params = table.params(n[1])
            names = {p[0] for p in params}
            for p in params:
                if p[1] == 1:
                    fs.add('co')
                elif p[1] == 2:
                    fs.add('contra')
                if p[2] is not None and mentions(p[2], names):
                    fs.add('depbound')
        except Undecided:
            pass
    return '+'.join(sorted(fs)) or 'plain'


def rkind(n, nT):
    if n[0] == 'P' and nT[0] == 'P' and n[1] == nT[1]:
        return 'same-class'
    return qkind(n)


def check_subtypes(table, T, result, include_self, concrete_only):
    """-> (list of (check name, detail dict), undecided count)"""
    bad = []
    und = 0
    table.learn(T)
    nT = norm(T)
    members = []
    for r in result:
        table.learn(r)
        members.append(norm(r))
    # T itself is included exactly when asked for
    if (nT in members) != bool(include_self):
        bad.append(('subtypes:self:%s' % ('missing' if include_self else 'not-asked-for'),
                    dict(expected='T %s the result' % ('in' if include_self else 'not in'), T=show(nT))))
    for r, n in zip(result, members):
        # usable
        bg = bare_generics(n)
        if any(d == 0 for d, _ in bg) and concrete_only:
            bad.append(('subtypes:usable:bare-generic', dict(returned=show(n), T=show(nT))))
            continue
        if any(d > 0 for d, _ in bg):
            bad.append(('subtypes:usable:bare-generic-argument', dict(returned=show(n), T=show(nT))))
            continue
        if list(table.arity_errors(n)):
            bad.append(('subtypes:usable:arity', dict(returned=show(n), T=show(nT))))
            continue
        # subtype of T in the declarative relation
        try:
            s = table.generic_instance(n) if n[0] == 'C' else n
            ok = table.sub(s, nT)
        except Undecided:
            und += 1
            continue
        if not ok:
            bad.append(('subtypes:sound:%s:%s:%s' % (qkind(nT), rkind(n, nT), shape(table, nT)),
                        dict(returned=show(n), T=show(nT), expected='a subtype of T', actual='not a subtype')))
            continue
        be = list(table.bound_errors(n))
        if be and not list(table.bound_errors(nT)):
            x, pn, arg, b = be[0]
            bad.append(('subtypes:usable:argument-outside-bound',
                        dict(returned=show(n), T=show(nT), parameter=pn, argument=show(arg), bound=show(b))))
    return bad, und


def check_irrelevant(table, T, r):
    bad = []
    table.learn(T)
    nT = norm(T)
    if nT == table.top:
        if r is not None:
            table.learn(r)
            bad.append(('irrelevant:top-returns-nothing', dict(T=show(nT), returned=show(norm(r)), expected='None')))
        return bad, 0
    if r is None:
        return bad, 0
    table.learn(r)
    n = norm(r)
    ref = nT
    kind = qkind(nT)
    if nT[0] == 'V' and nT[2] is not None and nT[2] != table.top:
        ref = nT[2]                 # for a type variable: its bound
        kind = 'typevar-bound'
    try:
        if bare_generics(n):
            raise Undecided('bare generic class returned')
        below = table.sub(n, ref)
        above = table.sub(ref, n)
    except Undecided:
        return bad, 1
    d = dict(T=show(nT), returned=show(n), against=show(ref))
    rk = 'top' if n == table.top else qkind(n)
    if n == ref:
        bad.append(('irrelevant:same-type:%s' % kind, dict(d, expected='a type unrelated to T', actual='T itself')))
    elif below:
        bad.append(('irrelevant:subtype-returned:%s:%s' % (kind, rk),
                    dict(d, expected='not a subtype', actual='subtype')))
    elif above:
        bad.append(('irrelevant:supertype-returned:%s:%s' % (kind, rk),
                    dict(d, expected='not a supertype', actual='supertype')))
    return bad, 0


# =====================================================================================================================
# 4. random choices inside the searches: path enumerator installed as utils.random.choice
# =====================================================================================================================
class Chooser:
    """modes: 'pass' (the tree's own generator, indices recorded), 'path' (follow self.path, then 0 = depth-first
    enumeration, or a private RNG when self.rnd is set)"""

    def __init__(self, R):
        self.R = R
        self.mode = 'pass'
        self.path = ()
        self.rnd = None
        self.trace = []

    def start(self, path=(), rnd=None):
        self.mode = 'path'
        self.path = tuple(path)
        self.rnd = rnd
        self.trace = []

    def record(self):
        self.mode = 'pass'
        self.trace = []

    def __call__(self, seq):
        n = len(seq)
        if n == 0:
            raise IndexError('Cannot choose from an empty sequence')
        k = len(self.trace)
        if self.mode == 'pass':
            i = self.R.r.randrange(n)
        elif k < len(self.path):
            i = self.path[k] % n
        elif self.rnd is not None:
            i = self.rnd.randrange(n)
        else:
            i = 0
        self.trace.append((i, n))
        return seq[i]


def install_chooser():
    R = M.utils.random
    ch = Chooser(R)
    R.choice = ch
    M.chooser = ch


def all_paths(call, cap, extra=0, rnd=None):
    """yield (path, result, exception) for every random path of call() depth-first, at most `cap`; if the cap is hit,
    `extra` further paths drawn with rnd.  The last item is ('end', exhaustive, None)."""
    ch = M.chooser
    path = []
    count = 0
    exhaustive = True
    while True:
        ch.start(path)
        try:
            res, exc = call(), None
        except Undecided:
            raise
        except Exception as e:      # an internal failure is not a return value (C18); counted, not judged here
            res, exc = None, e
        trace = ch.trace
        yield [i for i, _ in trace], res, exc
        count += 1
        k = len(trace) - 1
        while k >= 0 and trace[k][0] + 1 >= trace[k][1]:
            k -= 1
        if k < 0:
            break
        path = [i for i, _ in trace[:k]] + [trace[k][0] + 1]
        if count >= cap:
            exhaustive = False
            break
    if not exhaustive:
        for _ in range(extra):
            ch.start((), rnd)
            try:
                res, exc = call(), None
            except Exception as e:
                res, exc = None, e
            yield [i for i, _ in ch.trace], res, exc
    ch.record()
    yield 'end', exhaustive, None


# =====================================================================================================================
# 5. part A: hand-written class tables
# =====================================================================================================================
SUB_FLAGS = [dict(include_self=i, concrete_only=c, ignore_variance=v)
             for i in (False, True) for c in (False, True) for v in (False, True)]


def fixed_tables(lang):
    tp = M.tp
    f = M.factories[lang]
    Any, Number, Integer, String = f.get_any_type(), f.get_number_type(), f.get_integer_type(), f.get_string_type()
    Long, Short = f.get_long_type(), f.get_short_type()
    S, TC, TP, W = tp.SimpleClassifier, tp.TypeConstructor, tp.TypeParameter, tp.WildCardType
    CO, CONTRA = tp.Covariant, tp.Contravariant

    def out(t):
        return W(t, CO)

    def inn(t):
        return W(t, CONTRA)
    A = S('A')
    B = S('B', [A])
    C = S('C', [B])
    D = S('D', [A])
    E = S('E', [Any])
    F = S('F', [E])
    tabs = []

    def tvars(*bounds):
        return [TP('E%d' % i, bound=b) for i, b in enumerate(bounds)]

    # 1 plain hierarchy
    X0 = TP('X0', bound=A)
    tabs.append(dict(name='simple', types=[A, B, C, D, E, F, Any, Number, Integer, String],
                     queries=[A, B, C, D, E, F, Number, Integer, String, Any] +
                     tvars(None, A, B, Any, Number, X0, E)))
    # 2 invariant generic classes, generic subclass of an instantiation
    G = TC('G', [TP('T')])
    T2 = TP('T')
    H = TC('H', [T2], [G.new([T2])])
    HB = S('HB', [G.new([B])])
    K = TC('K', [TP('T')], [G.new([B])])
    Y = TC('Yardstick', [TP('T')])
    Mr = TC('Marred', [TP('T')], [Y.new([Long])])
    tabs.append(dict(name='generic', types=[A, B, C, G, H, HB, K, Y, Mr, Any, String, Integer, Long, Short],
                     queries=[G.new([A]), G.new([B]), G.new([C]), G.new([String]), G.new([out(B)]), G.new([inn(B)]),
                              G.new([out(A)]), G.new([inn(C)]), H.new([B]), H.new([out(B)]), K.new([A]),
                              K.new([String]), HB, A, B, Y.new([Long]), Y.new([Short]), Y.new([out(Long)]),
                              G.new([G.new([B])]), G.new([out(G.new([B]))]), G.new([H.new([B])]),
                              G.new([out(G.new([out(B)]))]), G.new([W()])] +
                     tvars(G.new([B]), Y.new([Long]), H.new([B]), G.new([out(B)]), HB)))
    # 3 declaration-site variance, generic subclass of a plain class
    Pco = TC('Pco', [TP('T', CO)])
    Pin = TC('Pin', [TP('T', CONTRA)])
    X4 = TP('X', CO)
    Qco = TC('Qco', [X4], [Pco.new([X4])])
    Gen = TC('Gen', [TP('X')], [B])
    GenA = TC('GenA', [TP('X')], [A])
    tabs.append(dict(name='variance', types=[A, B, C, D, Pco, Pin, Qco, Gen, GenA, Any, Number, Integer, String],
                     queries=[Pco.new([A]), Pco.new([B]), Pco.new([C]), Pin.new([A]), Pin.new([B]), Pin.new([C]),
                              Pco.new([Pco.new([B])]), Pco.new([Pin.new([B])]), Pin.new([Pco.new([B])]),
                              Qco.new([B]), Pco.new([Number]), Pco.new([Any]), Pin.new([Integer]),
                              Pin.new([Number]), A, B, Gen.new([String]), Pco.new([out(B)]),
                              Pco.new([Gen.new([String])]), Pin.new([inn(B)])] +
                     tvars(Pco.new([B]), Pin.new([B]), Gen.new([String]))))
    # 4 bounded type parameters
    N = TC('N', [TP('T', bound=A)])
    T1 = TP('T1')
    M2 = TC('M2', [T1, TP('T2', bound=T1)])
    T1o = TP('T1', CO)
    M3 = TC('M3', [T1o, TP('T2', bound=T1o)])
    Q = TC('Q', [TP('T', bound=G.new([A]))])
    Xr = TP('X')
    R = TC('R', [Xr, TP('Y', bound=G.new([Xr]))])
    Nn = TC('Nn', [TP('T', bound=Number)])
    NB = S('NB', [N.new([B])])
    GA = S('GA', [G.new([A])])
    tabs.append(dict(name='bounds', types=[A, B, C, G, H, GA, N, M2, M3, Q, R, Nn, NB, Any, Number, Integer, String],
                     queries=[N.new([A]), N.new([B]), N.new([out(B)]), M2.new([A, A]), M2.new([A, B]),
                              M2.new([B, C]), M2.new([A, out(B)]), M2.new([A, inn(B)]), M2.new([out(A), B]),
                              M3.new([A, A]), M3.new([A, B]), M3.new([A, inn(A)]), Q.new([G.new([A])]),
                              Q.new([H.new([A])]), Q.new([GA]), R.new([A, G.new([A])]), R.new([B, H.new([B])]),
                              R.new([A, GA]), Nn.new([Number]), Nn.new([Integer]), Nn.new([out(Number)]), NB] +
                     tvars(N.new([B]), M2.new([A, B]))))
    # 5 nested arguments, type variables in scope (name collisions with class parameters)
    A1 = TC('A1', [TP('X')])
    Gy = TC('G', [TP('Y')])
    Tt = TP('T')
    B1 = TC('B1', [Tt], [A1.new([Gy.new([Tt])])])
    Tu = TP('T')
    B2 = TC('B2', [Tu], [A1.new([Tu])])
    Foo = TC('Foo', [TP('U'), TP('V')])
    Tb = TP('T')
    Bar = TC('Bar', [Tb], [Foo.new([Integer, Tb])])
    Tf = TP('T')
    Sf = TP('S', bound=A)
    tabs.append(dict(name='nested', types=[A, B, A1, Gy, B1, B2, Foo, Bar, Tf, Sf, Any, Integer, String],
                     queries=[A1.new([Gy.new([Tf])]), A1.new([Tf]), A1.new([Gy.new([String])]), A1.new([String]),
                              Foo.new([Integer, Tf]), Foo.new([Integer, String]), A1.new([Sf]), Tf, Sf,
                              Gy.new([Tf]), A1.new([out(Gy.new([String]))]), Foo.new([out(A), inn(B)])] +
                     tvars(A1.new([String]), Foo.new([Integer, String]))))
    # 6 arrays, function types, primitives
    Arr = f.get_array_type()
    F1 = f.get_function_type(1)
    prims = list(getattr(f, 'get_primitive_types', lambda: [])())
    tabs.append(dict(name='arrays', types=[A, B, C, Any, Number, Integer, String, Arr, F1] + prims,
                     queries=[Arr.new([A]), Arr.new([B]), Arr.new([String]), Arr.new([Integer]), Arr.new([out(A)]),
                              Arr.new([Arr.new([B])]), F1.new([A, B]), F1.new([B, A]), F1.new([Integer, String]),
                              Number, Integer] + prims[:3] + tvars(Arr.new([A]), Integer)))
    # 7 class declarations in the type list (as the mutation passes them), non-regular classes
    ast = M.ast

    def cls(name, supers=(), kind=None, tps=()):
        return ast.ClassDeclaration(name, [ast.SuperClassInstantiation(s, None) for s in supers],
                                    class_type=kind, fields=[], functions=[], type_parameters=list(tps))
    dA = cls('A')
    dB = cls('B', [A])
    dI = cls('I', kind=ast.ClassDeclaration.INTERFACE)
    dJ = cls('J', [dI.get_type()])
    dAb = cls('Ab', [A], kind=ast.ClassDeclaration.ABSTRACT)
    dG = cls('G', tps=[TP('T')])
    dK = cls('K', [dG.get_type().new([dB.get_type()])], tps=[TP('T')])
    dP = cls('P', tps=[TP('T', CO)])
    bts = []
    for t in f.get_non_nothing_types():
        if isinstance(t, tp.TypeConstructor):
            t = t.new([String])
        bts.append(t)
    Gd = dG.get_type()
    Pd = dP.get_type()
    tabs.append(dict(name='decls', types=[dA, dB, dI, dJ, dAb, dG, dK, dP] + bts,
                     queries=[dA.get_type(), dB.get_type(), dI.get_type(), dJ.get_type(), dAb.get_type(),
                              Gd.new([dB.get_type()]), Gd.new([String]), dK.get_type().new([String]),
                              Pd.new([dA.get_type()]), Pd.new([Number]), Number, String, Any] +
                     tvars(None, dA.get_type(), Gd.new([dB.get_type()]), dI.get_type())))
    for t in tabs:
        t['lang'] = lang
        t['factory'] = f
        t['top'] = norm(Any)
    return tabs


def judge(kind, table, T, res, flags):
    if kind == 'sub':
        return check_subtypes(table, T, res, flags.get('include_self', False), flags.get('concrete_only', False))
    return check_irrelevant(table, T, res)


def call_real(kind, T, types, flags, factory):
    if kind == 'sub':
        return M.orig['find_subtypes'](T, types, **flags)
    return M.orig['find_irrelevant_type'](T, types, factory)


FUNC = {'sub': 'src.ir.type_utils.find_subtypes', 'irr': 'src.ir.type_utils.find_irrelevant_type'}


class Acc:
    """accumulates the result dict"""

    def __init__(self, stop_first):
        self.evals = 0
        self.undecided = 0
        self.exceptions = {}
        self.nontrivial = set()
        self.violations = {}
        self.counts = {}
        self.samples = []
        self.stop_first = stop_first
        self.capped = 0
        self.queries = 0
        self.parts = {}

    def add(self, part, n=1):
        self.parts[part] = self.parts.get(part, 0) + n

    def violation(self, name, rec):
        chk = 'bounded[%s]' % name
        self.counts[chk] = self.counts.get(chk, 0) + 1
        if chk not in self.violations:
            self.violations[chk] = dict(rec, check=chk)
            return True
        return False

    @property
    def done(self):
        return self.stop_first and bool(self.violations)


def eval_query(acc, part, kind, table, tab_id, qi, T, types, flags, factory, cap, extra, rnd):
    """all random paths of one query; returns nothing, fills acc"""
    acc.queries += 1
    key = (part, tab_id, kind, qi, tuple(sorted(flags.items())))
    for path, res, exc in all_paths(lambda: call_real(kind, T, types, flags, factory), cap, extra, rnd):
        if path == 'end':
            if not res:
                acc.capped += 1
                acc.add('capped:%s:%s' % (part, kind))
            break
        acc.evals += 1
        acc.add(part)
        if exc is not None:
            k = '%s: %s' % (type(exc).__name__, str(exc)[:60])
            acc.exceptions.setdefault(k, dict(count=0, first=dict(table=str(tab_id), kind=kind, query=str(T),
                                                                    flags=flags, path=path)))['count'] += 1
            continue
        bad, und = judge(kind, table, T, res, flags)
        acc.undecided += und
        nontriv = (kind == 'sub' and len(res) > (1 if flags.get('include_self') else 0)) or \
                  (kind == 'irr' and res is not None)
        if nontriv:
            acc.nontrivial.add(key)
        for name, detail in bad:
            rec = dict(function=FUNC[kind], part=part, table=tab_id, search=kind, query_index=qi, query=show(norm(T)),
                       flags=dict(flags), path=list(path), **detail)
            acc.violation(name, rec)
        if acc.done:
            M.chooser.record()
            return
        if nontriv and len(acc.samples) < 4 and len(path) >= 2 and not bad and part == 'A':
            if not any(s['table'] == tab_id for s in acc.samples):
                acc.samples.append(dict(table=tab_id, search=kind, T=show(norm(T)), flags=dict(flags),
                                        returned=[show(norm(r)) for r in res] if kind == 'sub' else show(norm(res))))


A_TABLES = ['simple', 'generic', 'variance', 'bounds', 'nested', 'arrays', 'decls']


def irr_types(types):
    """the irrelevant-type search is handed a class table (classes, generic classes, built-ins): no type variables"""
    return [t for t in types if not isinstance(t, M.tp.TypeParameter)]


def part_a_task(tier, lang, tname, seed, stop_first=False, only=None):
    acc = Acc(stop_first)
    cap, extra = (40, 40) if tier == 'quick' else (600, 400)
    rnd = _pyrandom.Random(seed * 31 + A_TABLES.index(tname))
    tab = [t for t in fixed_tables(lang) if t['name'] == tname][0]
    table = Table(tab['types'], tab['top'])
    tid = '%s/%s' % (lang, tab['name'])
    for qi, T in enumerate(tab['queries']):
        if only is not None and qi != only:
            continue
        for flags in SUB_FLAGS:
            eval_query(acc, 'A', 'sub', table, tid, qi, T, tab['types'], flags, None, 4000, extra, rnd)
            if acc.done:
                return acc
        eval_query(acc, 'A', 'irr', table, tid, qi, T, irr_types(tab['types']), {}, tab['factory'], cap, extra, rnd)
        if acc.done:
            return acc
    return acc


# =====================================================================================================================
# 6. part B: random class tables
# =====================================================================================================================
def random_table(table_seed, lang):
    """a small random class table with well-formed random query types; everything is drawn from Random(table_seed)"""
    rnd = _pyrandom.Random(table_seed)
    tp = M.tp
    f = M.factories[lang]
    Any, Number, Integer, String = f.get_any_type(), f.get_number_type(), f.get_integer_type(), f.get_string_type()
    builtins = [Any, Number, Integer, String]
    top = norm(Any)
    simple, generic = [], []
    CO, CONTRA, INV = tp.Covariant, tp.Contravariant, tp.Invariant

    def table():
        return Table(simple + generic + builtins, top)

    def closed_pool():
        return simple + [Number, Integer, String]

    def fits(tab, arg, bound, m):
        if bound is None:
            return True
        try:
            x = norm(arg)
            if x[0] == 'W':
                if x[1] != 1:
                    return True
                x = x[2]
            return tab.sub(x, subst(norm(bound), m))
        except Undecided:
            return False

    def inst(con, pool, own=(), project=0.0):
        """instantiate con with arguments from pool (+ own type parameters where the variance allows)"""
        tab = table()
        args, m = [], {}
        for p in con.type_parameters:
            cands = list(pool)
            for o in own:
                if o.variance == INV or o.variance == p.variance:
                    cands.append(o)
            cands = [a for a in cands if fits(tab, a, p.bound, m)]
            if not cands:
                return None
            a = rnd.choice(cands)
            if project and p.variance == INV and not a.is_type_var() and rnd.random() < project:
                a = tp.WildCardType(a, rnd.choice([CO, CO, CONTRA]))
            args.append(a)
            m[p.name] = norm(a)
        return con.new(args)

    n_classes = rnd.randint(5, 8)
    for i in range(n_classes):
        name = 'K%d' % i
        if rnd.random() < 0.55 or i == 0:
            r = rnd.random()
            sup = []
            if r < 0.1:
                sup = [Any]
            elif r < 0.45 and simple:
                sup = [rnd.choice(simple)]
            elif r < 0.7 and generic:
                s = inst(rnd.choice(generic), closed_pool())
                sup = [s] if s is not None else []
            simple.append(tp.SimpleClassifier(name, sup))
        else:
            params = []
            for j in range(rnd.choice([1, 1, 2])):
                var = rnd.choice([INV, INV, INV, INV, CO, CO, CONTRA])
                r = rnd.random()
                bound = None
                if r < 0.2:
                    bound = rnd.choice(closed_pool())
                elif r < 0.4 and params and var == INV:
                    bound = params[0]
                elif r < 0.5 and generic:
                    bound = inst(rnd.choice(generic), closed_pool(), own=[q for q in params if q.variance == INV])
                params.append(tp.TypeParameter('T%d' % j, var, bound))
            r = rnd.random()
            sup = []
            if r < 0.2 and simple:
                sup = [rnd.choice(simple)]
            elif r < 0.65 and generic:
                s = inst(rnd.choice(generic), closed_pool(), own=params)
                sup = [s] if s is not None else []
            generic.append(tp.TypeConstructor(name, params, sup))
    queries = list(simple) + [Number, Integer]
    pool = closed_pool()
    for g in generic:
        for _ in range(3):
            q = inst(g, pool + [x for x in queries if x.is_parameterized()][:4], project=0.35)
            if q is not None and norm(q) not in [norm(x) for x in queries]:
                queries.append(q)
    for i in range(3):
        queries.append(tp.TypeParameter('E%d' % i, bound=rnd.choice(queries[:len(queries) - i])))
    scope = [tp.TypeParameter('Z', bound=rnd.choice(simple))] if rnd.random() < 0.5 else []
    types = simple + generic + builtins
    rnd.shuffle(types)
    return dict(name='random#%d' % table_seed, lang=lang, factory=f, top=top, types=types, scope=scope, queries=queries)


def part_b_task(tier, lang, table_seed, stop_first=False):
    acc = Acc(stop_first)
    tab = random_table(table_seed, lang)
    rnd = _pyrandom.Random(table_seed * 7919 + 1)
    cap, extra = (25, 15) if tier == 'quick' else (150, 60)
    tid = '%s/%s' % (lang, tab['name'])
    table = Table(tab['types'], tab['top'])
    for qi, T in enumerate(tab['queries']):
        for flags in rnd.sample(SUB_FLAGS, 3):
            eval_query(acc, 'B', 'sub', table, tid, qi, T, tab['types'] + tab['scope'], flags, None, cap, extra, rnd)
            if acc.done:
                return acc
        eval_query(acc, 'B', 'irr', table, tid, qi, T, irr_types(tab['types']), {}, tab['factory'], cap, extra, rnd)
        if acc.done:
            return acc
    return acc


# =====================================================================================================================
# 7. part C: the queries the generator and the type-overwriting mutation issue
# =====================================================================================================================
def slim_types(types):
    """class declarations without their bodies (the searches only read name / kind / type parameters / supertypes)"""
    ast = M.ast
    out = []
    for t in types:
        if isinstance(t, ast.ClassDeclaration):
            d = ast.ClassDeclaration(t.name, [], class_type=t.class_type, fields=[], functions=[],
                                     is_final=t.is_final, type_parameters=list(t.type_parameters))
            d.supertypes = list(t.supertypes)
            t = d
        out.append(t)
    return out


def encode_input(T, types, factory_lang):
    return base64.b64encode(pickle.dumps((T, types, factory_lang), protocol=4)).decode('ascii')


def decode_input(s):
    return pickle.loads(base64.b64decode(s.encode('ascii')))


def replay_pickled(fi):
    """-> list of check names violated on the recorded (pickled) input with the recorded random path"""
    T, types, lang = decode_input(fi['input_pickle'])
    f = M.factories[lang]
    table = Table(types, norm(f.get_any_type()))
    kind = fi['search']
    flags = dict(fi.get('flags') or {})
    M.chooser.start(fi.get('path') or ())
    try:
        res = call_real(kind, T, types, flags, f)
    finally:
        M.chooser.record()
    bad, _ = judge(kind, table, T, res, flags)
    return [b[0] for b in bad], bad


def candidate_queries(to):
    from src.analysis import type_dependency_analysis as tda
    for _ns, candidate_nodes, type_graph in to._candidate_methods:
        for n in candidate_nodes:
            if isinstance(n, tda.TypeConstructorInstantiationCallNode):
                for x in type_graph.get(n, []):
                    try:
                        if any(e.is_inferred() for e in type_graph[x.target]):
                            T = n.t.get_type_variable_assignments().get(x.target.t)
                            if T is not None and T.name not in ["Boolean", "String", "BigInteger"]:
                                yield T
                    except (KeyError, AttributeError):
                        continue
            else:
                T = n.decl.get_type()
                if T is not None and T.name not in ["Boolean", "String", "BigInteger"]:
                    yield T


def part_c_task(tier, lang, seed, verif_seed, stop_first=False):
    import copy
    acc = Acc(stop_first)
    utils, tu = M.utils, M.tu
    f = M.factories[lang]
    top = norm(f.get_any_type())
    R = 1 if tier == 'quick' else 4            # extra random states per issued query ...
    RN = 80 if tier == 'quick' else 400        # ... for the first RN issued queries of a run (the rest: as issued only)
    K = 3 if tier == 'quick' else 10           # mutation runs per program
    QN = 12 if tier == 'quick' else 60         # distinct candidate-node queries per mutated program
    rnd = _pyrandom.Random((verif_seed * 1000003 + seed) * 4 + ['kotlin', 'java', 'groovy', 'scala'].index(lang))
    depth = [0]
    callno = [0]
    tid = '%s/seed%d' % (lang, seed)
    _NODE_COUNTER[0] = 0

    def observe(kind, T, types, flags, res, path, who):
        acc.evals += 1
        acc.add('C')
        acc.add('C:%s:%s' % (kind, who))
        table = Table(types, top)
        try:
            bad, und = judge(kind, table, T, res, flags)
        except RecursionError:
            acc.undecided += 1
            return
        acc.undecided += und
        if (kind == 'sub' and len(res) > (1 if flags.get('include_self') else 0)) or (kind == 'irr' and res is not None):
            acc.nontrivial.add(('C', tid, callno[0]))
        for name, detail in bad:
            chk = 'bounded[%s]' % name
            acc.counts[chk] = acc.counts.get(chk, 0) + 1
            if chk in acc.violations:
                continue
            rec = dict(function=FUNC[kind], part='C', table=tid, search=kind, issued_by=who, call=callno[0],
                       query=show(norm(T)), flags=dict(flags), path=list(path), check=chk, **detail)
            for ty in (slim_types(types), types):
                try:
                    rec['input_pickle'] = encode_input(T, ty, lang)
                    if name in replay_pickled(rec)[0]:
                        break
                except Exception:
                    continue
            acc.violations[chk] = rec

    def wrapper(kind, who):
        orig = M.orig['find_subtypes' if kind == 'sub' else 'find_irrelevant_type']

        def run(T, types, flags, factory):
            if kind == 'sub':
                return orig(T, types, **flags)
            return orig(T, types, factory)

        def body(T, types, flags, factory):
            if depth[0] > 0:
                return run(T, types, flags, factory)
            depth[0] += 1
            callno[0] += 1
            acc.queries += 1
            ch = M.chooser
            try:
                ch.record()
                res = run(T, types, flags, factory)
                path = [i for i, _ in ch.trace]
                observe(kind, T, types, flags, res, path, who[0])
                for _ in range(R if callno[0] <= RN else 0):
                    if acc.done:
                        break
                    ch.start((), rnd)
                    try:
                        r2 = run(T, types, flags, factory)
                    except Exception as e:
                        k = '%s: %s' % (type(e).__name__, str(e)[:60])
                        acc.exceptions.setdefault(k, dict(count=0, first=dict(table=tid, kind=kind, query=str(T))))['count'] += 1
                        continue
                    observe(kind, T, types, flags, r2, [i for i, _ in ch.trace], who[0])
                return res
            finally:
                ch.record()
                depth[0] -= 1
        if kind == 'sub':
            def find_subtypes(etype, types, include_self=False, bound=None, concrete_only=False,
                              ignore_variance=False):
                return body(etype, types, dict(include_self=include_self, concrete_only=concrete_only,
                                               ignore_variance=ignore_variance), None)
            return find_subtypes

        def find_irrelevant_type(etype, types, factory):
            return body(etype, types, {}, factory)
        return find_irrelevant_type
    who = ['generator']
    tu.find_subtypes = wrapper('sub', who)
    tu.find_irrelevant_type = wrapper('irr', who)
    old_limit = sys.getrecursionlimit()
    sys.setrecursionlimit(max(old_limit, 5000))
    try:
        from src.generators.generator import Generator
        from src.transformations.type_overwriting import TypeOverwriting
        from src.transformations.type_erasure import TypeErasure
        utils.random.r.seed(seed)
        utils.random.reset_word_pool()
        try:
            prog = Generator(language=lang).generate()
        except Exception as e:      # a failing generator run is C18's business; what was issued before is still judged
            prog = None
            k = 'generator %s: %s' % (type(e).__name__, str(e)[:50])
            acc.exceptions.setdefault(k, dict(count=0, first=dict(table=tid)))['count'] += 1
        who[0] = 'type-overwriting'
        for k in range(K if prog is not None else 0):
            if acc.done:
                break
            try:
                p2 = copy.deepcopy(prog)
                utils.random.r.seed(seed * 1000 + k)
                if k % 2:
                    te = TypeErasure(p2, lang, None, {'timeout': 600})
                    te.transform()
                    p2 = te.result()
                to = TypeOverwriting(p2, lang, None, {'timeout': 600})
                to.transform()
                if k < 2:
                    # the mutation picks one candidate node at random: issue the query of every candidate node
                    # (candidate list of the real mutation object, node type derived as in visit_func_decl)
                    who[0] = 'type-overwriting (every candidate node)'
                    seen_q = set()
                    for T in list(candidate_queries(to)):
                        try:
                            nq = norm(T)
                        except Undecided:
                            continue
                        if nq in seen_q or len(seen_q) >= QN:
                            continue
                        seen_q.add(nq)
                        try:
                            tu.find_irrelevant_type(T, to.types, to.bt_factory)
                        except Exception as e:
                            kk = 'candidate query %s: %s' % (type(e).__name__, str(e)[:50])
                            acc.exceptions.setdefault(kk, dict(count=0, first=dict(table=tid, query=str(T))))['count'] += 1
                    who[0] = 'type-overwriting'
            except Exception as e:
                kk = 'mutation %s: %s' % (type(e).__name__, str(e)[:50])
                acc.exceptions.setdefault(kk, dict(count=0, first=dict(table=tid, k=k)))['count'] += 1
            who[0] = 'type-overwriting'
    finally:
        tu.find_subtypes = M.orig['find_subtypes']
        tu.find_irrelevant_type = M.orig['find_irrelevant_type']
        sys.setrecursionlimit(old_limit)
        M.chooser.record()
    return acc


# =====================================================================================================================
# 8. driver
# =====================================================================================================================
LANGS = ['kotlin', 'java', 'groovy', 'scala']
C_SEEDS = {'quick': 2, 'thorough': 30}          # fixed generator seeds 0..n-1 per language (extended by VERIF_SEED)
B_TABLES = {'quick': 16, 'thorough': 300}


def plan(tier, seed):
    tasks = []
    if tier == 'quick':
        for tn in A_TABLES:
            tasks.append(('A', 'kotlin', tn))
        for tn in ('generic', 'arrays', 'decls'):
            tasks.append(('A', 'java', tn))
    else:
        for lang in LANGS:
            for tn in A_TABLES:
                tasks.append(('A', lang, tn))
    nb = B_TABLES[tier]
    for i in range(nb):
        # the random tables are a FIXED list (table seeds 0..n-1 and 100001, 100003, ...): the unchanged tree violates the
        # property on several input classes (known findings), and a table that depends on VERIF_SEED could hit such a class
        # under a name no run has seen before -- an alarm on the unchanged tree.  VERIF_SEED still selects the extra
        # generator programs of part C.
        ts = i if i % 2 == 0 else 100000 + i
        tasks.append(('B', LANGS[i % 2] if tier == 'quick' else LANGS[i % 4], ts))
    for s in range(C_SEEDS[tier]):
        for lang in LANGS:
            tasks.append(('C', lang, s))
    if seed:
        for lang in LANGS:
            tasks.append(('C', lang, 100000 + seed))
    return tasks


def oracle_crosscheck():
    """sanity check of the oracle itself (not of the code): the relation of this file against the executable declarative
    relation of specs/sub_ref.py (C06) on all ordered pairs of that file's universe"""
    try:
        from specs import sub_ref
        u = sub_ref.build()
    except Exception as e:          # the other reference is optional
        return dict(skipped='%s: %s' % (type(e).__name__, e))
    kt = u['kt']
    tab = Table(u['simple'] + u['cons'] + [kt.Any], norm(kt.Any))
    agree = disagree = one_sided = both_undefined = 0
    first = None
    for s in u['universe']:
        for t in u['universe']:
            try:
                a = bool(u['sub'](u['norm'](s), u['norm'](t)))
            except TypeError:
                a = None
            try:
                b = bool(tab.sub(norm(s), norm(t)))
            except Undecided:
                b = None
            if a is None and b is None:
                both_undefined += 1
            elif a is None or b is None:
                one_sided += 1
            elif a == b:
                agree += 1
            else:
                disagree += 1
                first = first or '%s <: %s: sub_ref=%s search_ref=%s' % (s, t, a, b)
    return dict(pairs=len(u['universe']) ** 2, agree=agree, disagree=disagree, undefined_in_one=one_sided,
                undefined_in_both=both_undefined, first_disagreement=first)


def _task(args):
    tier, seed, stop_first, t = args[:4]
    t0 = time.time()
    if t[0] == 'A':
        acc = part_a_task(tier, t[1], t[2], seed, stop_first)
    elif t[0] == 'B':
        acc = part_b_task(tier, t[1], t[2], stop_first)
    else:
        acc = part_c_task(tier, t[1], t[2], seed, stop_first)
    return dict(task=t, index=args[4] if len(args) > 4 else 0, evals=acc.evals, undecided=acc.undecided, exceptions=acc.exceptions,
                nontrivial=sorted(acc.nontrivial, key=repr), violations=acc.violations, counts=acc.counts,
                samples=acc.samples, capped=acc.capped, queries=acc.queries, parts=acc.parts,
                seconds=round(time.time() - t0, 2))


def run(tier, seed, stop_first=False, workers=None):
    """bounded stand-in for C09; see the module docstring"""
    import multiprocessing
    t0 = time.time()
    tasks = plan(tier, seed)
    if workers is None:
        workers = int(os.environ.get('C09_WORKERS', '0')) or (6 if tier == 'quick' else 14)
    workers = max(1, min(workers, os.cpu_count() or 1))
    jobs = [(tier, seed, stop_first, t, i) for i, t in enumerate(tasks)]
    results = []
    # one fresh forked process per task: no state of the tree under verification leaks from one task into the next
    pool = multiprocessing.get_context('fork').Pool(workers, maxtasksperchild=1)
    # stop_first: task order (deterministic first violation); otherwise completion order, merged by task index below
    it = (pool.imap if stop_first else pool.imap_unordered)(_task, jobs, chunksize=1)
    budget = float(os.environ.get('C09_BUDGET', '0')) or (44.0 if tier == 'quick' else 780.0)
    truncated = False
    try:
        for _ in jobs:
            try:
                r = it.next(timeout=max(0.5, budget - (time.time() - t0)))
            except multiprocessing.TimeoutError:
                truncated = True        # wall-clock guard (loaded machine): the remaining tasks are not run
                break
            results.append(r)
            if stop_first and r['violations']:
                break
    finally:
        if pool is not None:
            pool.terminate()
            pool.join()
    results.sort(key=lambda r: r['index'])
    evals = sum(r['evals'] for r in results)
    nontrivial = set()
    violations, counts, exceptions, parts = {}, {}, {}, {}
    samples = []
    for r in results:                 # task order: A (hand-written, smallest inputs) first, then B, then C
        nontrivial.update(map(tuple, r['nontrivial']))
        for k, v in r['violations'].items():
            violations.setdefault(k, v)
        for k, v in r['counts'].items():
            counts[k] = counts.get(k, 0) + v
        for k, v in r['exceptions'].items():
            e = exceptions.setdefault(k, dict(count=0, first=v['first']))
            e['count'] += v['count']
        for k, v in r['parts'].items():
            parts[k] = parts.get(k, 0) + v
        for smp in r['samples']:
            if len(samples) < 4:
                samples.append(smp)
    na = len([t for t in tasks if t[0] == 'A'])
    nb = len([t for t in tasks if t[0] == 'B'])
    nc = len([t for t in tasks if t[0] == 'C'])
    capped = sum(r['capped'] for r in results)
    rule = (
        'contract of find_subtypes / find_irrelevant_type evaluated on the real functions against an independent declarative '
        'subtype relation (specs/search_ref.py: nominal class table keyed by class names, Kotlin/Java argument containment, '
        'X <: T iff X = T or bound(X) <: T; the declared supertypes of built-in types are read from the language module; '
        'primitive types are related to themselves only, a primitive type against its own boxed class is undecided).  '
        'Part A: %d hand-written class tables (7 shapes: plain hierarchy, invariant generics incl. generic subclass of an '
        'instantiation, declaration-site variance, bounded parameters incl. T2 : T1, nested arguments with in-scope type '
        'variables, arrays / function types / primitives, class declarations with interface and abstract classes) x every '
        'query type of the table x all 8 combinations of include_self / concrete_only / ignore_variance, and the irrelevant '
        'search on every query type (incl. type variables with absent / top / class / parameterized / variable bound, and the '
        'top type): ALL random paths inside the search enumerated depth-first (utils.random.choice replaced by a path '
        'enumerator) up to a cap, capped queries topped up with random paths (%d queries were capped).  '
        'Part B: %d random class tables (5-8 classes, bounds, variance, generic subclasses; half fixed, half from VERIF_SEED) '
        'with random well-formed query types, 3 flag combinations each.  '
        'Part C: every find_subtypes / find_irrelevant_type call issued by the generator and by the type-overwriting mutation '
        '(alone and after type erasure; incl. the subtype queries of its type-dependency analysis) on %d generator runs '
        '(fixed seeds x 4 languages, default configuration), each issued query re-evaluated with further random states; '
        'because the mutation picks its node at random, the irrelevant-type query of every candidate node of the real '
        'mutation object is issued as well.  '
        'Checks: subtypes:self (T in result iff include_self), subtypes:usable (no bare generic class at top level when '
        'concrete_only, never as a nested argument, arity, arguments within declared bounds when T itself is well-formed), '
        'subtypes:sound (every element, a bare generic class taken as its instantiation with its own parameters, is below T), '
        'irrelevant:top-returns-nothing, irrelevant:{subtype,supertype,same-type}-returned (against T; for a type variable with a '
        'non-top bound against the bound; for a variable without bound / with the top bound against the variable itself, '
        'because every type is below top and the clause "of its bound" cannot be satisfied by any returned type).  The type '
        'list of the irrelevant search contains no type variables (class table).  Inputs on which the declarative relation '
        'is not defined (capture conversion of nested projections, conflicting projections, two declarations with one '
        'name) are counted as undecided, exceptions raised by the search are counted separately (C18), neither is judged.  '
        'Non-trivial: distinct (table, search, query, flags) resp. (language, seed, call) whose result contains a type other '
        'than T resp. is not None.' % (na, capped, nb, nc))
    extra = {}
    if tier == 'thorough' and not stop_first:
        extra['oracle_crosscheck'] = oracle_crosscheck()
    if truncated:
        rule += ('  NOTE: wall-clock guard hit after %d of %d tasks (loaded machine); the counts are those of the '
                 'completed tasks only.' % (len(results), len(jobs)))
    return dict(evaluations=evals, distinct_nontrivial=len(nontrivial), rule=rule, samples=samples,
                violations=[violations[k] for k in sorted(violations)], violation_counts=dict(sorted(counts.items())),
                undecided=sum(r['undecided'] for r in results), exceptions=exceptions, by_part=parts,
                queries=sum(r['queries'] for r in results), exhaustive=False,
                tasks=len(results), tasks_planned=len(jobs), truncated=truncated,
                seconds=round(time.time() - t0, 1), workers=workers, **extra)


def replay(fi):
    """re-execute a recorded failing input on the current tree: True if the property holds on it"""
    kind = fi['search']
    flags = dict(fi.get('flags') or {})
    want = fi.get('check')
    want = want[len('bounded['):-1] if want and want.startswith('bounded[') else None

    def relevant(bad):
        # the recorded check decides; other checks failing on the same input are reported under their own names
        return [b for b in bad if want is None or b[0] == want]
    if fi.get('part') == 'C':
        names, bad = replay_pickled(fi)
        bad = relevant(bad)
        for b in bad:
            print('%s: %s' % (b[0], b[1]))
        return not bad
    lang, tname = fi['table'].split('/')
    if fi['part'] == 'A':
        tab = [t for t in fixed_tables(lang) if t['name'] == tname][0]
        types = tab['types']
    else:
        tab = random_table(int(tname.split('#')[1]), lang)
        types = tab['types'] + (tab['scope'] if kind == 'sub' else [])
    if kind == 'irr':
        types = irr_types(types)
    T = tab['queries'][fi['query_index']]
    table = Table(tab['types'], tab['top'])
    # 1. the recorded random path  2. every random path of the recorded query (robust against a shifted path)
    M.chooser.start(fi.get('path') or ())
    try:
        res = call_real(kind, T, types, flags, tab['factory'])
        bad, _ = judge(kind, table, T, res, flags)
        bad = relevant(bad)
    except Exception as e:
        print('recorded path raises %s: %s' % (type(e).__name__, e))
        bad = []
    finally:
        M.chooser.record()
    if not bad:
        acc = Acc(False)
        eval_query(acc, fi['part'], kind, table, fi['table'], fi['query_index'], T, types, flags, tab['factory'],
                   3000, 500, _pyrandom.Random(0))
        bad = relevant([(v['check'][len('bounded['):-1], {k: v[k] for k in ('returned', 'path') if k in v})
                        for v in acc.violations.values()])
    for b in bad[:3]:
        print('%s %s on %s (table %s): %s' % (FUNC[kind], flags or '', show(norm(T)), fi['table'], b))
    return not bad
