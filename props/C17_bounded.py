"""C17 - generation switches are honoured: bounded stand-in.

Run-time evaluation of the property's contract ("the returned program satisfies J", DESIGN C17) on the real
generator: a fixed seed list x 4 languages x the 16 combinations of the four switches (configuration set directly),
plus the same combinations driven through a re-import of src.args with the command-line flags; every type
occurrence of every generated program is walked (specs/switch_ref.py, written from the property statement).
Never counted as proof.

The check name of a projection / bounded-type-parameter violation carries the function of /repo that constructed
the offending object (e.g. bounded[usv:projection@src/ir/types.py:_to_type_variable_free]), so that a recorded known
finding at one construction site does not hide a new one elsewhere.
"""
import os
import sys

HERE = os.path.dirname(os.path.dirname(os.path.abspath(__file__)))
REPO = os.environ.get('HEPH_REPO', '/repo')

ID = 'C17'


def _load():
    """the reference module; it (re)imports the real code from REPO itself, purging earlier `src` / `hephaestus`
    modules first (specs.switch_ref.load)"""
    for m in [k for k in sys.modules if k in ('src', 'hephaestus') or k.startswith('src.')]:
        del sys.modules[m]
    if REPO not in sys.path:
        sys.path.insert(0, REPO)
    if HERE not in sys.path:
        sys.path.insert(0, HERE)
    os.environ['HEPH_REPO'] = REPO
    from specs import switch_ref
    return switch_ref


def bounded(tier, seed, stop_first=False):
    ref = _load()
    r = ref.run(tier, seed, stop_first=stop_first)
    r['note'] = 'bounded stand-in: run-time evaluation on generated programs (never counted as proof)'
    return r


def replay_search(obligation, qual, seed, tier):
    """a concrete generated program violating the clause behind a failed site obligation of the proof part (named
    .../inv[J1..J6]), preferably one whose offending object was constructed by the function `qual`.  Searches the
    thorough plan restricted to the generations on which the clause says something, for a limited time."""
    ref = _load()
    want, switch = 'bounded[', None
    for tag, kind in (('J1', 'usv'), ('J2', 'usc'), ('J3', 'btp'), ('J4', 'pf'), ('J5', 'decl'), ('J6', 'fun')):
        if obligation and ('inv[%s]' % tag) in obligation:
            want, switch = 'bounded[%s:' % kind, kind
    site = qual if switch in ('usv', 'usc', 'btp') else None

    def only(lang, s, key, via_cli):
        if switch in ref.SWITCHES:
            return ref.combo_of(key)[switch]
        if switch == 'decl':
            return lang in ref.NO_DECL_SITE_VARIANCE
        return True
    r = ref.run('thorough', seed, stop_first=True, stop_prefix=want, stop_function=site, only=only,
                deadline=30 if tier == 'quick' else 600)
    v = [x for x in (r.get('violations') or []) if x['check'].startswith(want)]
    exact = [x for x in v if site and x.get('function') == site]
    return (exact or v or [None])[0]


def replay(payload):
    ref = _load()
    fi = payload.get('failing_input')
    if not fi:
        print('replay file carries no concrete input (obligation %s); solver output: %s'
              % (payload.get('obligation'), payload.get('solver', {}).get('reason')))
        return False
    return ref.replay(fi)
