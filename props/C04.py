"""C04 - type overwriting injects exactly one real type error."""
import os
import sys

HERE = os.path.dirname(os.path.dirname(os.path.abspath(__file__)))
REPO = os.environ.get('HEPH_REPO', '/repo')
sys.path.insert(0, HERE)

from props import _identity  # noqa: E402

ID = 'C04'
# modules whose functions must not keep state between calls (pyvc.statecheck.hidden_state_census, syntactic)
HIDDEN_STATE_MODULES = ['src.transformations.type_overwriting', 'src.transformations.base']
LEVEL = 'proof'
SIDECARS = ['types_sub', 'types_ctor', 'mutations']
FUNCTIONS = [
    'src.transformations.type_overwriting.TypeOverwriting.visit_func_decl',
]
SIDECARS = SIDECARS + [x for x in _identity.SIDECARS if x not in SIDECARS]
FUNCTIONS = FUNCTIONS + [f for f in _identity.FUNCTIONS if f not in FUNCTIONS]
TRUSTED = [
    'slice mode (DESIGN 2.7) for TypeOverwriting.visit_func_decl: statements outside the subset are havocked (the branch that '
    'overwrites a type argument of an instantiation is abstracted as a whole); obligations sit at the attribute stores',
    'write census: syntactic analysis of the real AST of type_overwriting.py (see C03)',
    'flag frame census (syntactic): is_transformed / error_injected are stored only by constructors and by visit_func_decl in '
    'transformations/base.py, type_overwriting.py and modules/processor.py; other modules are not scanned',
    'find_irrelevant_type is a query that does not modify the program (its meaning is C09, bounded)',
    'attribute reads, isinstance, len, getattr, str have no side effects',
]
ASSUMPTIONS = [
    'proved: every declared type the mutation writes (var_type / ret_type / inferred_type) is the non-None result of the '
    'irrelevant-type search and goes into the declaration of the selected candidate; an injection is reported '
    '(error_injected set, is_transformed True) only on a path on which the declared type of that candidate -- var_type for '
    'a variable, ret_type otherwise -- and its recorded type were overwritten with that result; the module writes nothing '
    'else into the program (census). NOT proved (bounded): exactly one declared type differs when a type argument of an '
    'instantiation is overwritten, unrelatedness of the new type (C09), the content of the message, that the translation '
    'changes, and that a correct checker must reject',
]
NOT_UNDER_CONTRACT = ['TypeOverwriting._add_candidate_method, visit_program (candidate selection: bounded)',
                      'src.ir.type_utils.find_irrelevant_type (C09: bounded)']


def custom_proof(tier):
    from pyvc import frontend, statecheck
    fe = frontend.Frontend(REPO)
    mut = statecheck.ir_mutator_names(fe)
    out = statecheck.store_census(fe, 'src.transformations.type_overwriting',
                                  {'var_type', 'ret_type', 'inferred_type', 'type_args'}, allowed_roots=('type_graph',),
                                  site_functions={'src.transformations.type_overwriting.TypeOverwriting.visit_func_decl'})
    out += statecheck.mutator_call_census(fe, 'src.transformations.type_overwriting', set(), mut)
    # frame of the report flags: what visit_func_decl establishes (flags <-> writes into the program) is what
    # Processor.inject_fault reads only if nobody else stores them (the timeout wrapper of base.py included)
    out += statecheck.flag_frame_census(
        fe, ['src.transformations.base', 'src.transformations.type_overwriting', 'src.modules.processor'],
        {'is_transformed', 'error_injected'},
        {'src.transformations.type_overwriting.TypeOverwriting.visit_func_decl'})
    # candidates are real declarations: the virtual ones the analysis invents are recognised by the reserved name only
    out += statecheck.invented_declaration_census(fe, 'src.analysis.type_dependency_analysis')
    # "the new type is unrelated to the replaced one": the contract of the irrelevant-type search (C09's proof part; verified
    # here as a second group because this property's own sidecars assume that function as an external)
    from pyvc import driver
    out += driver.verify_group(['src.ir.type_utils.find_irrelevant_type', 'src.ir.type_utils.find_subtypes',
                                'src.ir.type_utils.find_supertypes', 'src.ir.type_utils._find_types',
                                'src.ir.type_utils.to_type'],
                               ['types_sub', 'types_ctor', 'cfg_common', 'search'], repo=REPO)
    from props import C09 as _c09
    out += _c09.custom_proof(tier)
    return out


from props import C04_bounded as _b   # noqa: E402
bounded = _b.bounded
replay_search = _b.replay_search
replay = _b.replay
