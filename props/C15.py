"""C15 - the driver reports a fault exactly on an oracle mismatch and counts correctly."""
import itertools
import json
import os
import shutil
import sys
import tempfile

HERE = os.path.dirname(os.path.dirname(os.path.abspath(__file__)))
REPO = os.environ.get('HEPH_REPO', '/repo')

ID = 'C15'
LEVEL = 'proof'
SIDECARS = ['driver']
FUNCTIONS = [
    'hephaestus.check_oracle',
    'hephaestus.update_stats',
    'hephaestus.get_batches',
    'hephaestus.stop_condition',
    'hephaestus._run',
    'hephaestus.run.process_res',
    'hephaestus.run_parallel.process_res.update',
    'hephaestus.run_parallel',
    'src.args.validate_args',
]
TRUSTED = [
    'external contracts (assumed): os.path.join / str(pid) give pairwise distinct paths Saved(pid), Tmp(pid) (injective, '
    'disjoint); shutil.copytree requires an absent destination and adds exactly it; shutil.rmtree removes exactly its '
    'argument (directories are atomic items of the ghost file system); run_command / time.time / path2set return '
    'arbitrary values of the right shape; _report_failed (--rerun) does not touch tracked state',
    'compiler.analyze_compiler_output is assumed to satisfy C14\'s contract: it either records a crash message or returns '
    'a map file -> messages',
    'gen_program is an external callee of the batch loop: it returns a ProgramRes and leaves tmp/<pid> behind for programs '
    'on which the tool did not fail (its body - generator, transformations, translators - is outside this property)',
    'save_stats writes STATS[\'faults\'] to faults.json (json.dump/open not modelled)',
    'time values are modelled as mathematical integers',
]
ASSUMPTIONS = [
    'worker-pool mode: only the sequential shape of run_parallel is verified (the shutdown: closed and joined on every path '
    'without KeyboardInterrupt, never terminated there; the batch size handed to the callback); the interleaving of callbacks '
    'mutating STATS from the pool thread is outside this family of technique',
    'ghost pool life cycle (contracts/driver.py __pool): Pool.close / join / terminate change it as documented for '
    'multiprocessing.Pool; unknown code called from run_parallel (the batch loop _run and the closures it calls) does not '
    'close, join or terminate the pool (the closures are checked syntactically, _run is under its own contract)',
    'sys.exit under --debug is modelled as abrupt termination (no postcondition is claimed for that path)',
]
NOT_UNDER_CONTRACT = ['hephaestus.run_parallel (concurrency; its shutdown shape IS under contract)', 'hephaestus.check_oracle_mul', 'hephaestus.gen_program (external contract)',
                      'hephaestus.save_stats (external contract)', 'hephaestus._report_failed']

_H = None
_BASE = None


def _shape_obligations(tier):
    """what the z3 obligation hephaestus.run_parallel/post[normal-end-closes-and-joins] leaves to the shape of the code
    (syntactic, real AST): the closures handed to the batch loop never close / join / terminate the pool; terminate() occurs
    only in a handler of KeyboardInterrupt; the pool is not used as a context manager (Pool.__exit__ is terminate(), which
    the engine does not model)."""
    import ast
    repo = os.environ.get('HEPH_REPO', '/repo')
    tree = ast.parse(open(os.path.join(repo, 'hephaestus.py')).read())
    fn = next((n for n in tree.body if isinstance(n, ast.FunctionDef) and n.name == 'run_parallel'), None)
    out = []

    def ob(name, bad):
        out.append(dict(name='hephaestus.run_parallel/shape[%s]' % name, function='hephaestus.run_parallel/shape',
                        lineno=getattr(fn, 'lineno', 0), kind='proof', status='proved' if not bad else 'failed', secs=0,
                        backend='syntactic', reason='; '.join(bad[:3])))
    if fn is None:
        ob('exists', ['hephaestus.run_parallel not found'])
        return out
    pools = {t.id for n in ast.walk(fn) if isinstance(n, ast.Assign) and isinstance(n.value, ast.Call)
             and ast.unparse(n.value.func).endswith('Pool') for t in n.targets if isinstance(t, ast.Name)}
    ob('one-pool', [] if len(pools) == 1 else ['pools created in run_parallel: %s' % sorted(pools)])

    def life_calls(node):
        return [c for c in ast.walk(node) if isinstance(c, ast.Call) and isinstance(c.func, ast.Attribute)
                and c.func.attr in ('close', 'join', 'terminate') and isinstance(c.func.value, ast.Name)
                and c.func.value.id in pools]
    bad = []
    for d in [n for n in ast.walk(fn) if isinstance(n, (ast.FunctionDef, ast.Lambda)) and n is not fn]:
        bad += ['line %d: %s in a closure' % (c.lineno, ast.unparse(c)) for c in life_calls(d)]
    ob('closures-only-submit', bad)
    in_kbd = set()
    for h in [n for n in ast.walk(fn) if isinstance(n, ast.ExceptHandler)]:
        if h.type is not None and 'KeyboardInterrupt' in ast.unparse(h.type):
            in_kbd |= {id(c) for c in life_calls(h)}
    ob('terminate-only-after-interrupt', ['line %d: %s outside a KeyboardInterrupt handler' % (c.lineno, ast.unparse(c))
                                          for c in life_calls(fn) if c.func.attr == 'terminate' and id(c) not in in_kbd])
    ob('pool-not-a-context-manager', ['line %d: with %s' % (w.lineno, ast.unparse(i.context_expr)) for w in ast.walk(fn)
                                      if isinstance(w, ast.With) for i in w.items
                                      if any(isinstance(e, ast.Name) and e.id in pools for e in ast.walk(i.context_expr))
                                      or ast.unparse(i.context_expr).endswith('Pool')
                                      or (isinstance(i.context_expr, ast.Call) and ast.unparse(i.context_expr.func).endswith('Pool'))])
    return out


def custom_proof(tier):
    """(a) shape obligations of run_parallel; (b) hephaestus.gen_program under its own contract (contracts/gen_program.py:
    what the per-program record says -- verified as a second group because its ghost view of cli_args differs), with the
    chain that hands the mutation's message up to the record: ProgramProcessor.inject_fault -> process_ncp_transformations"""
    out = _shape_obligations(tier)
    from pyvc import driver
    out += driver.verify_group(['hephaestus.gen_program', 'hephaestus.process_ncp_transformations',
                                'src.modules.processor.ProgramProcessor.inject_fault'], ['gen_program'])
    return out


def _load():
    """import the real driver once, with a throw-away session directory"""
    global _H, _BASE
    if _H is not None:
        return _H
    for m in [k for k in sys.modules if k == 'src' or k.startswith('src.') or k == 'hephaestus']:
        del sys.modules[m]
    if REPO not in sys.path:
        sys.path.insert(0, REPO)
    _BASE = tempfile.mkdtemp(prefix='c15_')
    old_argv, old_cwd = sys.argv, os.getcwd()
    sys.argv = ['hephaestus.py', '--language', 'java', '--bugs', os.path.join(_BASE, 'bugs'), '--name', 's',
                '--iterations', '4', '--batch', '2']
    os.chdir(_BASE)
    try:
        import importlib
        _H = importlib.import_module('hephaestus')
    finally:
        sys.argv = old_argv
        os.chdir(old_cwd)
    return _H


def _cleanup():
    global _H, _BASE
    if _BASE and os.path.isdir(_BASE):
        shutil.rmtree(_BASE, ignore_errors=True)
    _H = None
    _BASE = None


class StubCompiler:
    """stands for the compiler + C14's analysis: the scenario decides crash / per-file errors"""
    scenario = None

    def __init__(self, input_name, filter_patterns=None):
        self.crash_msg = None

    def get_compiler_cmd(self):
        return ['true']

    def analyze_compiler_output(self, output):
        sc = StubCompiler.scenario
        if sc['crash']:
            self.crash_msg = 'CRASH: java.lang.NullPointerException'
            return None, []
        return {f: ['error in ' + f] for f in sc['errors']}, []


REAL_GEN = [0, 0]      # records built by the real gen_program / records needed


def _real_gen_program(h, pid, dirname, good, bad):
    """hephaestus.gen_program itself with stubbed stages (generator, transformations, translator): returns its ProgramRes for
    a program whose well-typed variant is the file `good` and whose ill-typed variant (if any) is `bad`; None if the real
    function cannot be driven this way (then the hand-built record is used)"""
    names = ('TRANSLATORS', 'ProgramProcessor', 'process_cp_transformations', 'process_ncp_transformations')
    saved = {n: getattr(h, n, None) for n in names}
    ca = h.cli_args
    saved_ca = {n: getattr(ca, n, None) for n in ('examine', 'keep_all', 'only_correctness_preserving_transformations',
                                                  'options')}

    class _Proc:
        def __init__(self, *a, **k):
            pass

        def get_program(self):
            return None, True

        def get_transformations(self):
            return []
    try:
        h.TRANSLATORS = {k: (lambda *a, **kw: object()) for k in (saved['TRANSLATORS'] or {ca.language: None})}
        h.ProgramProcessor = _Proc
        h.process_cp_transformations = lambda *a, **k: good
        h.process_ncp_transformations = lambda *a, **k: ((bad, 'injected') if bad else None)
        ca.examine, ca.keep_all = False, False
        ca.only_correctness_preserving_transformations = False
        if not isinstance(getattr(ca, 'options', None), dict) or 'Translator' not in ca.options:
            ca.options = {'Translator': {}}
        res = h.gen_program(pid, dirname, ('p1', 'p2'))
        if getattr(res, 'failed', True) or not isinstance(res.stats.get('programs'), dict) \
                or set(res.stats['programs']) != ({good, bad} if bad else {good}):
            return None
        return res
    except Exception:
        return None
    finally:
        for n, v in saved.items():
            setattr(h, n, v)
        for n, v in saved_ca.items():
            setattr(ca, n, v)


def run_scenario(h, sc):
    """sc: dict(programs=[dict(failed, incorrect, ok_err, bad_err)], crash).  returns a disagreement string or None"""
    td = h.cli_args.test_directory
    for sub in os.listdir(td) if os.path.isdir(td) else []:
        shutil.rmtree(os.path.join(td, sub), ignore_errors=True)
    os.makedirs(os.path.join(td, 'tmp'), exist_ok=True)
    batchdir = tempfile.mkdtemp(prefix='batch_', dir=_BASE)
    os.makedirs(os.path.join(batchdir, 'src'))
    oracles = __import__('collections').OrderedDict()
    errors = []
    expected = {}
    for i, p in enumerate(sc['programs']):
        pid = 10 + i
        if p['failed']:
            oracles[pid] = h.ProgramRes(True, {'transformations': [], 'error': 'tool failed', 'program': None, 'time': 0})
            expected[pid] = ('tool', 'tool failed')
            continue
        os.makedirs(os.path.join(td, 'tmp', str(pid)))
        open(os.path.join(td, 'tmp', str(pid), 'Main.java'), 'w').write('class Main {}')
        good = os.path.join(batchdir, 'src', 'g%d' % pid, 'Main.java')
        progs = {good: True}
        mism_pass = p['ok_err']
        if p['ok_err']:
            errors.append(good)
        mism_fail = False
        if p['incorrect']:
            bad = os.path.join(batchdir, 'src', 'b%d' % pid, 'Main.java')
            progs[bad] = False
            if p['bad_err']:
                errors.append(bad)
            else:
                mism_fail = True
        oracles[pid] = h.ProgramRes(False, {'transformations': [], 'error': 'injected' if p['incorrect'] else None,
                                            'programs': progs, 'time': 0})
        # the record check_oracle reads is built by the REAL gen_program (its pipeline stages stubbed): the order of the
        # entries of stats['programs'] -- which check_oracle's message logic depends on -- is the one the real code produces
        real = _real_gen_program(h, pid, batchdir, good, bad if p['incorrect'] else None)
        REAL_GEN[1] += 1
        if real is not None:
            REAL_GEN[0] += 1
            oracles[pid] = real
        if sc['crash']:
            expected[pid] = ('crash', None)
        elif mism_pass or mism_fail:
            expected[pid] = ('mismatch', (mism_pass, mism_fail, good))
    if sc['crash']:
        for pid in oracles:
            expected.setdefault(pid, ('crash', None))
    StubCompiler.scenario = dict(crash=sc['crash'], errors=errors)
    saved_compilers, saved_run = h.COMPILERS, h.run_command
    h.COMPILERS = {k: StubCompiler for k in h.COMPILERS}
    h.run_command = lambda args, get_stdout=True: (True, 'output')
    try:
        try:
            out, _t = h.check_oracle(batchdir, oracles)
        except BaseException as e:
            return 'check_oracle raised %s: %s' % (type(e).__name__, e)
    finally:
        h.COMPILERS, h.run_command = saved_compilers, saved_run
    if set(out) != set(expected):
        return 'reported %s, expected %s' % (sorted(out), sorted(expected))
    for pid, (kind, info) in expected.items():
        err = out[pid]['error']
        if kind == 'crash' and not oracles[pid].failed and err != 'CRASH: java.lang.NullPointerException':
            return 'pid %d: crash message expected, got %r' % (pid, err)
        if kind == 'mismatch':
            mp, mf, good = info
            if mf and not str(err).startswith('SHOULD NOT BE COMPILED'):
                # (also when the well-typed variant of the same program was rejected: the accepted ill-typed one is flagged)
                return 'pid %d: message %r lacks the SHOULD NOT BE COMPILED prefix' % (pid, err)
            if mp and not mf and err != 'error in ' + good:
                return 'pid %d: message %r is not the compiler error' % (pid, err)
        if not oracles[pid].failed and not os.path.isdir(os.path.join(td, str(pid))):
            return 'pid %d: test case not saved' % pid
    for pid in oracles:
        if pid not in expected and os.path.exists(os.path.join(td, str(pid))):
            return 'pid %d: not a fault but saved' % pid
        if not sc['crash'] and not oracles[pid].failed and os.path.exists(os.path.join(td, 'tmp', str(pid))):
            return 'pid %d: tmp directory left behind' % pid
    if os.path.exists(batchdir):
        return 'batch directory not removed'
    return None


def program_space():
    yield dict(failed=True, incorrect=False, ok_err=False, bad_err=False)
    for ok_err in (False, True):
        yield dict(failed=False, incorrect=False, ok_err=ok_err, bad_err=False)
        for bad_err in (False, True):
            yield dict(failed=False, incorrect=True, ok_err=ok_err, bad_err=bad_err)


def scenarios(tier):
    progs = list(program_space())
    for n in ((1, 2) if tier == 'quick' else (1, 2, 3)):
        for combo in itertools.product(progs, repeat=n):
            for crash in (False, True):
                yield dict(programs=list(combo), crash=crash)


def run_counts(h, batch, iterations, fail_pattern):
    """drive the real sequential run() with a stubbed generator/compiler; check totals and faults.json"""
    td = h.cli_args.test_directory
    shutil.rmtree(td, ignore_errors=True)
    os.makedirs(td, exist_ok=True)
    h.cli_args.batch, h.cli_args.iterations = batch, iterations
    h.cli_args.stop_cond = 'iterations'
    h.cli_args.seconds = None
    h.STATS['totals'] = {'passed': 0, 'failed': 0}
    h.STATS['faults'] = {}
    h.STATS['time'] = 0
    h.STATS['compilation_time'] = 0
    h.STOP_COND = False

    def gen(pid, dirname, packages):
        os.makedirs(os.path.join(td, 'tmp', str(pid)), exist_ok=True)
        os.makedirs(dirname, exist_ok=True)
        good = os.path.join(dirname, 'g%d' % pid, 'Main.java')
        return h.ProgramRes(False, {'transformations': [], 'error': None, 'programs': {good: True}, 'time': 0})
    bad_pids = set(fail_pattern)

    class C(StubCompiler):
        def analyze_compiler_output(self, output):
            return {os.path.join(self.inp, 'g%d' % p, 'Main.java'): ['e'] for p in bad_pids}, []

        def __init__(self, input_name, filter_patterns=None):
            self.crash_msg = None
            self.inp = input_name
    saved = (h.COMPILERS, h.run_command, h.gen_program, h.logging, h.print_msg)
    h.COMPILERS = {k: C for k in h.COMPILERS}
    h.run_command = lambda args, get_stdout=True: (True, 'output')
    h.gen_program = gen
    h.logging = lambda: None
    h.print_msg = lambda: None
    import io
    import contextlib
    try:
        with contextlib.redirect_stdout(io.StringIO()):
            h.run()
    except BaseException as e:
        return 'run() raised %s: %s' % (type(e).__name__, e)
    finally:
        h.COMPILERS, h.run_command, h.gen_program, h.logging, h.print_msg = saved
    tot = h.STATS['totals']
    expect_failed = len([p for p in bad_pids if 1 <= p <= iterations])
    if tot['passed'] + tot['failed'] != iterations:
        return 'passed %d + failed %d != processed %d' % (tot['passed'], tot['failed'], iterations)
    if tot['failed'] != expect_failed:
        return 'failed %d, expected %d' % (tot['failed'], expect_failed)
    ff = os.path.join(td, 'faults.json')
    keys = sorted(int(k) for k in json.load(open(ff))) if os.path.exists(ff) else []
    if keys != sorted(p for p in bad_pids if 1 <= p <= iterations):
        return 'faults.json lists %s, expected %s' % (keys, sorted(bad_pids))
    if os.path.exists(os.path.join(td, 'tmp')):
        return 'tmp left behind at the end of the session'
    return None


def bounded(tier, seed, stop_first=False, only_oracle=False):
    h = _load()
    evals = 0
    distinct = set()
    violations = []
    samples = []
    try:
        for sc in scenarios(tier):
            evals += 1
            key = json.dumps(sc, sort_keys=True)
            if any(not p['failed'] for p in sc['programs']):
                distinct.add(key)
            if len(samples) < 2 and len(sc['programs']) == 2:
                samples.append(sc)
            bad = run_scenario(h, sc)
            if bad and not any(v['what'] == bad.split(':')[0] for v in violations):
                violations.append(dict(check='bounded[check_oracle]', function='hephaestus.check_oracle', scenario=sc,
                                       what=bad.split(':')[0], detail=bad))
                if stop_first:
                    break
        if not only_oracle and not (stop_first and violations):
            for batch, iters, fails in ((1, 3, [2]), (2, 5, [1, 4]), (3, 7, [3, 7]), (2, 4, [])):
                evals += 1
                distinct.add('run:%d:%d:%s' % (batch, iters, fails))
                bad = run_counts(h, batch, iters, fails)
                if bad:
                    violations.append(dict(check='bounded[run-counting]', function='hephaestus._run',
                                           scenario=dict(batch=batch, iterations=iters, failing=fails),
                                           what='counting', detail=bad))
    finally:
        _cleanup()
    if REAL_GEN[1] and not REAL_GEN[0]:
        violations.append(dict(check='bounded[gen_program-not-drivable]', function='hephaestus.gen_program', what='harness',
                               detail='the real gen_program could not be driven with stubbed stages in any scenario: the order of '
                                      'stats[programs] it produces is unchecked'))
    return dict(evaluations=evals, distinct_nontrivial=len(distinct), records_from_real_gen_program='%d of %d' % tuple(REAL_GEN),
                rule='every batch of <= %d programs (tool-failed / well-typed only / well-typed + ill-typed) x every '
                     'combination of compiler verdicts per file x crash or not (the per-program record is produced by the real '
                     'gen_program with stubbed generator / transformation / translator stages), run through the real check_oracle with a '
                     'stubbed compiler on a real temporary directory tree and compared with the decision table of the '
                     'property (reported set, message, saved test case, removed scratch directories); plus 4 sequential '
                     'run() sessions with a stubbed generator (totals and faults.json). Non-trivial: at least one program '
                     'on which the tool did not fail; distinct by scenario' % (2 if tier == 'quick' else 3),
                samples=samples, exhaustive=True, violations=violations,
                note='engine cross-check of the proved functions; also the only evidence for the external contracts '
                     'of shutil/os.path as used here')


def replay_search(obligation, qual, seed, tier):
    """pick, among the concrete disagreements found, the one that matches the failed obligation best"""
    if 'check_oracle' in qual:
        r = bounded('thorough', seed, only_oracle=True)
    else:
        r = bounded('quick', seed)
    v = r.get('violations') or []
    if not v:
        return None
    hints = []
    if 'copytree' in obligation or 'rmtree' in obligation or 'safety' in obligation:
        hints = ['raised']
    elif 'loop[0]' in obligation or 'crash' in obligation:
        hints = ['reported']
    elif 'msg' in obligation:
        hints = ['message']
    elif 'fs-' in obligation or 'saved' in obligation or 'tmp' in obligation:
        hints = ['saved', 'tmp', 'directory']
    for x in v:
        if any(h in x.get('detail', '') for h in hints):
            return x
    return v[0]


def replay(payload):
    fi = payload.get('failing_input')
    if not fi:
        print('replay file carries no concrete input (obligation %s); solver output: %s'
              % (payload.get('obligation'), payload.get('solver', {}).get('reason')))
        return False
    h = _load()
    try:
        if fi['check'] == 'bounded[check_oracle]':
            bad = run_scenario(h, fi['scenario'])
        else:
            sc = fi['scenario']
            bad = run_counts(h, sc['batch'], sc['iterations'], sc['failing'])
    finally:
        _cleanup()
    if bad:
        print('scenario %r: %s' % (fi['scenario'], bad))
    return not bad
