"""C08 (bounded part) - instantiation helpers pick type arguments within bounds and allowed variance.

Run-time evaluation of the property's contract on the real helpers of src/ir/type_utils.py over a stated finite input set
(synthetic declarations + every call the program generator makes for a fixed seed list); see specs/inst_ref.py.
Never counted as proof."""
import os
import sys

HERE = os.path.dirname(os.path.dirname(os.path.abspath(__file__)))
REPO = os.environ.get('HEPH_REPO', '/repo')

ID = 'C08'
LEVEL = 'exploration'
FUNCTIONS = ['src.ir.type_utils.' + f for f in (
    'instantiate_type_constructor', 'instantiate_parameterized_function', '_compute_type_variable_assignments',
    '_get_type_arg_variance', '_get_available_types', 'update_type_var_bound_rec')]


def _load():
    for m in [k for k in sys.modules if k == 'src' or k.startswith('src.') or k == 'hephaestus']:
        del sys.modules[m]
    if REPO not in sys.path:
        sys.path.insert(0, REPO)
    sys.path.insert(0, HERE)
    import importlib
    from specs import inst_ref
    importlib.reload(inst_ref)
    return inst_ref


def bounded(tier, seed, stop_first=False):
    return _load().run(tier, seed, stop_first)


def replay_search(obligation, qual, seed, tier):
    """a concrete failing input for a failed obligation of `qual`: the first bounded violation on that function (any
    violation if none names it)"""
    r = bounded('quick', seed)
    v = r.get('violations') or []
    if not v and tier == 'thorough':
        v = bounded('thorough', seed).get('violations') or []
    mine = [x for x in v if x.get('function') == qual]
    return (mine or v or [None])[0]


def replay(payload):
    fi = payload.get('failing_input')
    if not fi:
        print('replay file carries no concrete input (obligation %s); solver output: %s'
              % (payload.get('obligation'), payload.get('solver', {}).get('reason')))
        return False
    return _load().replay(fi)
