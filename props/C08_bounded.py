"""C08 (bounded part) - instantiation helpers pick type arguments within bounds and allowed variance.

Run-time evaluation of the property's contract on the real helpers of src/ir/type_utils.py over a stated finite input set
(synthetic declarations + every call the program generator makes for a fixed seed list); see specs/inst_ref.py.
Never counted as proof."""
import os
import sys

HERE = os.path.dirname(os.path.dirname(os.path.abspath(__file__)))
REPO = os.environ.get('HEPH_REPO', '/repo')

ID = 'C08'
LEVEL = 'exploration'
FUNCTIONS = ['src.ir.type_utils.' + f for f in (
    'instantiate_type_constructor', 'instantiate_parameterized_function', '_compute_type_variable_assignments',
    '_get_type_arg_variance', '_get_available_types', 'update_type_var_bound_rec')]


def _load():
    for m in [k for k in sys.modules if k == 'src' or k.startswith('src.') or k == 'hephaestus']:
        del sys.modules[m]
    if REPO not in sys.path:
        sys.path.insert(0, REPO)
    sys.path.insert(0, HERE)
    import importlib
    from specs import inst_ref
    importlib.reload(inst_ref)
    return inst_ref


_CACHE = {}


def bounded(tier, seed, stop_first=False):
    # one run per (tier, seed) and process: the check and every replay search look at the same result
    k = (tier, seed, stop_first)
    if k not in _CACHE:
        _CACHE[k] = _load().run(tier, seed, stop_first)
    return _CACHE[k]


# which bounded checks exhibit the failure of which proof obligation (clause name -> prefixes of check names)
RELEVANT = {
    'not-mentioned-in-later-bound': ('bounded[variance:in-bound',),
    'index-is-current-parameter': ('bounded[variance:in-bound',),
    'switch-variance': ('bounded[variance:switch',),
    'switch-contravariance': ('bounded[variance:switch',),
    'choices-present': ('bounded[variance:caller-choice',),
    'caller-allows': ('bounded[variance:caller-choice',),
    'disable-variance': ('bounded[variance:caller-choice',),
    'declared-variance': ('bounded[variance:declared',),
    'never-invariant': ('bounded[variance:',),
    'projects-a-usable-type': ('bounded[no-bare-constructor',),
    'no-uninstantiated-generic': ('bounded[no-bare-constructor',),
}


def replay_search(obligation, qual, seed, tier):
    """a concrete failing input for a failed proof obligation: a bounded violation of the checks that observe the clause the
    obligation is about (none: the violation is reported without a concrete input)"""
    prefixes = ()
    for clause, pre in RELEVANT.items():
        if '[' + clause + ']' in obligation:
            prefixes = pre
    if not prefixes:
        return None
    r = bounded('quick', seed)
    v = r.get('violations') or []
    mine = [x for x in v if x.get('check', '').startswith(prefixes)]
    if not mine and tier == 'thorough':
        v = bounded('thorough', seed).get('violations') or []
        mine = [x for x in v if x.get('check', '').startswith(prefixes)]
    return (mine or [None])[0]


def replay(payload):
    fi = payload.get('failing_input')
    if not fi:
        print('replay file carries no concrete input (obligation %s); solver output: %s'
              % (payload.get('obligation'), payload.get('solver', {}).get('reason')))
        return False
    return _load().replay(fi)
