"""C06 - the subtyping judgement is sound, and exact on concrete class types."""
import os
import sys

HERE = os.path.dirname(os.path.dirname(os.path.abspath(__file__)))
REPO = os.environ.get('HEPH_REPO', '/repo')

from props import _identity  # noqa: E402

ID = 'C06'
# modules whose functions must not keep state between calls (pyvc.statecheck.hidden_state_census, syntactic)
HIDDEN_STATE_MODULES = ['src.ir.types', 'src.ir.builtins']
LEVEL = 'proof'
SIDECARS = ['types_sub', 'types_ctor']
_T = 'src.ir.types.'
FUNCTIONS = [_T + f for f in (
    'Type.get_supertypes', 'Builtin.is_subtype', 'SimpleClassifier.is_subtype', 'TypeParameter.is_subtype',
    'WildCardType.is_subtype', '_is_type_arg_contained', 'ParameterizedType.is_subtype', 'Function.is_subtype',
    'ParameterizedFunction.is_subtype', 'NothingType.is_subtype', 'Type.is_assignable',
    'ParameterizedType.is_assignable', 'Type.not_related',
    'Variance.is_covariant', 'Variance.is_contravariant', 'Variance.is_invariant',
    'TypeParameter.is_covariant', 'TypeParameter.is_contravariant', 'TypeParameter.is_invariant',
    'Type.is_parameterized', 'ParameterizedType.is_parameterized', 'TypeConstructor.is_subtype',
    '_type_var_occurs_in')] + [
    'src.ir.builtins.NothingType.is_subtype', 'src.ir.kotlin_types.NothingType.is_subtype',
    'src.ir.scala_types.NothingType.is_subtype'] + [
    'src.ir.java_types.%s.is_assignable' % c for c in ('IntegerType', 'ShortType', 'LongType', 'ByteType', 'FloatType',
                                                        'DoubleType')] + [
    'src.ir.groovy_types.%s.is_assignable' % c for c in ('IntegerType', 'ShortType', 'LongType', 'BigIntegerType',
                                                          'ByteType', 'FloatType', 'DoubleType')]
SIDECARS = SIDECARS + [x for x in _identity.SIDECARS if x not in SIDECARS]
FUNCTIONS = FUNCTIONS + [f for f in _identity.FUNCTIONS if f not in FUNCTIONS]
TRUSTED = [
    'rule justification: Sub / Cont / SupStar are the least relations closed under the Horn rules of contracts/types_sub.py '
    '(written from the Kotlin/Java containment rules); a postcondition result ==> Sub(..) proved from the rules holds in '
    'the least model',
    'PyEq (the answer of the IR\'s own __eq__) is taken as type identity in rule refl; equal type constructors have equal arity',
    'Valid(t) (well-formedness of the arguments: arity, no conflicting projections, star projection iff invariant wildcard, '
    'variance in {0,1,2}) is a precondition, i.e. a promise about callers',
    'types are not mutated during a subtyping query (heap read-only in all functions under contract here: checked by the '
    'frame obligations) ; same-named classes of the five type modules are identified in the class table',
    'hash consistency of IR objects (a == b ==> hash(a) == hash(b)) is assumed for the set operations in get_supertypes',
]
ASSUMPTIONS = [
    'soundness only is proved; exactness / reflexivity / transitivity on ground class types is the bounded part '
    '(exhaustive comparison with an executable declarative relation on a small universe)',
    'a bare generic class (TypeConstructor) stands for all of its instantiations: rules con-plain / con-args (no type '
    'parameter of the class occurs, at any depth, in the matched declared supertype); Occurs is a recursive definition '
    'over the finite type structure and _type_var_occurs_in is proved equal to it',
]
NOT_UNDER_CONTRACT = ['the __eq__ overrides are under the identity contracts only (PyEq is uninterpreted in the rules)', 'src.ir.types.AbstractType.is_subtype (raises; no instances)']


def _load():
    for m in [k for k in sys.modules if k == 'src' or k.startswith('src.')]:
        del sys.modules[m]
    if REPO not in sys.path:
        sys.path.insert(0, REPO)
    sys.path.insert(0, HERE)
    import importlib
    from specs import sub_ref
    importlib.reload(sub_ref)
    return sub_ref


def bounded(tier, seed, stop_first=False):
    ref = _load()
    return ref.run(tier, seed, stop_first)


def replay_search(obligation, qual, seed, tier):
    r = bounded('thorough', seed, stop_first=True)
    v = r.get('violations') or []
    return v[0] if v else None


def replay(payload):
    fi = payload.get('failing_input')
    if not fi:
        print('replay file carries no concrete input (obligation %s); solver output: %s'
              % (payload.get('obligation'), payload.get('solver', {}).get('reason')))
        return False
    ref = _load()
    return ref.replay(fi)
