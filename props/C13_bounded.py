"""C13 - saved programs replay faithfully (bounded stand-in only: pickle is outside any contract in reach).

The oracle and the driver are in specs/replay_ref.py; this module binds them to the check interface."""
import os
import sys

HERE = os.path.dirname(os.path.dirname(os.path.abspath(__file__)))
REPO = os.environ.get('HEPH_REPO', '/repo')

ID = 'C13'
LEVEL = 'exploration'
FUNCTIONS = []
SIDECARS = []
TRUSTED = [
    'the pickle module (external library) is exercised, not specified: the claim is a run-time evaluation of the '
    'round-trip contract on the stated finite set of generated programs, never a proof',
]
ASSUMPTIONS = [
    'reproducibility of the runs: random seeded before src.utils is imported, PYTHONHASHSEED=0, counter-based __hash__ '
    'on src.ir.node.Node installed from the harness side before any node exists (identity __eq__ untouched)',
]
NOT_UNDER_CONTRACT = ['src.utils.dump_program', 'src.utils.load_program', 'hephaestus.save_program',
                      'src.modules.processor.ProgramProcessor.get_program']


def _load():
    """import the real code from REPO (purging previously imported src / hephaestus modules) and the reference"""
    for m in [k for k in sys.modules if k == 'src' or k.startswith('src.') or k == 'hephaestus']:
        del sys.modules[m]
    if REPO not in sys.path:
        sys.path.insert(0, REPO)
    if HERE not in sys.path:
        sys.path.insert(0, HERE)
    from specs import replay_ref
    replay_ref.REPO = REPO
    return replay_ref


def bounded(tier, seed, stop_first=False):
    ref = _load()
    return ref.run(tier, seed, stop_first=stop_first)     # run() re-imports the real code in a reproducible state


def replay_search(obligation, qual, seed, tier):
    r = bounded('thorough' if tier == 'thorough' else 'quick', seed, stop_first=True)
    v = r.get('violations') or []
    return v[0] if v else None


def replay(payload):
    """re-execute a recorded failing input on the current tree; True if the property holds on it"""
    ref = _load()
    fi = payload.get('failing_input') if 'failing_input' in payload else payload
    if not fi or 'seed' not in fi:
        print('replay file carries no concrete input (obligation %s)' % payload.get('obligation'))
        return False
    return ref.replay(fi)
